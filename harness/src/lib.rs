//! Shared helpers of the verification harness: one deterministic PRNG drives every choice.
pub struct Rng(pub u64);

impl Rng {
    pub fn new(seed: u64) -> Self {
        Rng(seed ^ 0x9E37_79B9_7F4A_7C15)
    }
    /// splitmix64
    pub fn next(&mut self) -> u64 {
        self.0 = self.0.wrapping_add(0x9E37_79B9_7F4A_7C15);
        let mut z = self.0;
        z = (z ^ (z >> 30)).wrapping_mul(0xBF58_476D_1CE4_E5B9);
        z = (z ^ (z >> 27)).wrapping_mul(0x94D0_49BB_1331_11EB);
        z ^ (z >> 31)
    }
    pub fn below(&mut self, n: u64) -> u64 {
        if n == 0 { 0 } else { self.next() % n }
    }
    pub fn range(&mut self, lo: u64, hi: u64) -> u64 {
        lo + self.below(hi - lo + 1)
    }
    pub fn coin(&mut self, num: u64, den: u64) -> bool {
        self.below(den) < num
    }
    pub fn pick<T: Copy>(&mut self, xs: &[T]) -> T {
        xs[self.below(xs.len() as u64) as usize]
    }
}

pub fn arg<T: std::str::FromStr>(name: &str, default: T) -> T {
    let args: Vec<String> = std::env::args().collect();
    for i in 0..args.len() {
        if args[i] == name && i + 1 < args.len() {
            if let Ok(v) = args[i + 1].parse() {
                return v;
            }
        }
    }
    default
}

pub mod pool;
pub mod arena_core;
