//! C09 tie: the string types of the REAL crate, one operation per case, with std::string::String
//! in lock-step as the implementation-side oracle and one trace line per case for the extracted
//! Coq model (coq/Str.v).  After every case (also after a caught panic) the raw bytes are checked
//! with core::str::from_utf8.
#![allow(dead_code, unused, clippy::all)]
use bump_scope::traits::BumpAllocatorTypedScope;
use bump_scope::{Bump, BumpBox, BumpString, BumpVec, FixedBumpString, MutBumpString};
use std::fmt::Write as _;
use std::io::Write as _;
use std::panic::{AssertUnwindSafe, catch_unwind};
use verif_harness::{Rng, arg};

fn list<T: ToString>(v: &[T]) -> String {
    v.iter().map(|x| x.to_string()).collect::<Vec<_>>().join(",")
}
fn parse_list<T: std::str::FromStr>(s: &str) -> Vec<T> {
    if s.is_empty() { vec![] } else { s.split(',').filter_map(|x| x.parse().ok()).collect() }
}

struct Oracle {
    ans: Vec<u8>,
    calls: usize,
}
impl Oracle {
    fn next(&mut self) -> bool {
        let a = self.ans.get(self.calls).copied().unwrap_or(b'T');
        self.calls += 1;
        match a {
            b'T' => true,
            b'F' => false,
            _ => panic!("scripted panic in callback"),
        }
    }
}

#[derive(Clone, Debug)]
enum Op {
    Push(char),
    PushStr(String),
    Insert(usize, char),
    InsertStr(usize, String),
    Remove(usize),
    Pop,
    Truncate(usize),
    Retain,
    Drain(usize, usize, usize, usize, bool),
    ReplaceRange(usize, usize, String),
    ExtendFromWithin(usize, usize),
    SplitOff(usize, usize),
}

impl Op {
    fn words(&self) -> String {
        match self {
            Op::Push(c) => format!("push {}", *c as u32),
            Op::PushStr(_) => "push_str".into(),
            Op::Insert(i, c) => format!("insert {i} {}", *c as u32),
            Op::InsertStr(i, _) => format!("insert_str {i}"),
            Op::Remove(i) => format!("remove {i}"),
            Op::Pop => "pop".into(),
            Op::Truncate(n) => format!("truncate {n}"),
            Op::Retain => "retain".into(),
            Op::Drain(a, b, kf, kb, fg) => format!("drain {a} {b} {kf} {kb} {}", *fg as u8),
            Op::ReplaceRange(a, b, _) => format!("replace_range {a} {b}"),
            Op::ExtendFromWithin(a, b) => format!("extend_from_within {a} {b}"),
            Op::SplitOff(a, b) => format!("split_off {a} {b}"),
        }
    }
    fn str_arg(&self) -> &str {
        match self {
            Op::PushStr(s) | Op::InsertStr(_, s) | Op::ReplaceRange(_, _, s) => s,
            _ => "",
        }
    }
}

#[derive(Default, PartialEq, Debug, Clone)]
struct Out {
    bytes: Vec<u8>,
    chars: Vec<u32>,
    off: Option<Vec<u8>>,
    panicked: bool,
    calls: usize,
}

/// the operations every string type has in common
macro_rules! common_ops {
    ($s:expr, $op:expr, $orc:expr, $chars:expr) => {
        match $op {
            Op::Remove(i) => { let c = $s.remove(*i); $chars.push(c as u32); true }
            Op::Pop => { if let Some(c) = $s.pop() { $chars.push(c as u32); } true }
            Op::Truncate(n) => { $s.truncate(*n); true }
            Op::Retain => { $s.retain(|_c| $orc.next()); true }
            Op::Drain(a, b, kf, kb, fg) => {
                let mut d = $s.drain(*a..*b);
                for _ in 0..*kf { if let Some(c) = d.next() { $chars.push(c as u32); } }
                for _ in 0..*kb { if let Some(c) = d.next_back() { $chars.push(c as u32); } }
                if *fg { core::mem::forget(d) } else { drop(d) }
                true
            }
            _ => false,
        }
    };
}
macro_rules! growing_ops {
    ($s:expr, $op:expr) => {
        match $op {
            Op::Push(c) => { $s.push(*c); true }
            Op::PushStr(t) => { $s.push_str(t); true }
            Op::Insert(i, c) => { $s.insert(*i, *c); true }
            Op::InsertStr(i, t) => { $s.insert_str(*i, t); true }
            Op::ReplaceRange(a, b, t) => { $s.replace_range(*a..*b, t); true }
            Op::ExtendFromWithin(a, b) => { $s.extend_from_within(*a..*b); true }
            _ => false,
        }
    };
}

/// the same operations through the `try_` twins; an error becomes the panic the twin would raise
macro_rules! growing_ops_try {
    ($s:expr, $op:expr) => {
        match $op {
            Op::Push(c) => { $s.try_push(*c).unwrap_or_else(|_| panic!("try_push failed")); true }
            Op::PushStr(t) => { $s.try_push_str(t).unwrap_or_else(|_| panic!("try_push_str failed")); true }
            Op::Insert(i, c) => { $s.try_insert(*i, *c).unwrap_or_else(|_| panic!("try_insert failed")); true }
            Op::InsertStr(i, t) => { $s.try_insert_str(*i, t).unwrap_or_else(|_| panic!("try_insert_str failed")); true }
            Op::ReplaceRange(a, b, t) => { $s.try_replace_range(*a..*b, t).unwrap_or_else(|_| panic!("try_replace_range failed")); true }
            Op::ExtendFromWithin(a, b) => { $s.try_extend_from_within(*a..*b).unwrap_or_else(|_| panic!("try_extend_from_within failed")); true }
            _ => false,
        }
    };
}

fn supports(kind: &str, op: &Op) -> bool {
    match (kind, op) {
        ("bb", Op::Push(_) | Op::PushStr(_) | Op::Insert(..) | Op::InsertStr(..) | Op::ReplaceRange(..) | Op::ExtendFromWithin(..)) => false,
        ("ms", Op::SplitOff(..)) => false,
        _ => true,
    }
}

fn run_std(input: &str, op: &Op, ans: &[u8]) -> Out {
    let mut orc = Oracle { ans: ans.to_vec(), calls: 0 };
    let mut s = String::from(input);
    let mut chars = vec![];
    let mut off = None;
    let r = catch_unwind(AssertUnwindSafe(|| {
        if !common_ops!(s, op, orc, chars) && !growing_ops!(s, op) {
            if let Op::SplitOff(a, b) = op {
                // std has no range split_off; draining the range is the same contract
                let o: String = s.drain(*a..*b).collect();
                off = Some(o.into_bytes());
            }
        }
    }));
    Out { bytes: s.into_bytes(), chars, off, panicked: r.is_err(), calls: orc.calls }
}

fn run_impl(kind: &str, input: &str, op: &Op, ans: &[u8], notes: &mut Vec<String>) -> Out {
    let mut orc = Oracle { ans: ans.to_vec(), calls: 0 };
    let mut chars = vec![];
    let mut off: Option<Vec<u8>> = None;
    let mut bump: Bump = Bump::new();
    let panicked;
    let bytes: Vec<u8>;
    let room = input.len() + op.str_arg().len() + input.len() + 8;
    // odd cases go through the try_ twins of the growing operations
    let alt = (ans.len() + input.len()) % 2 == 1;
    match kind {
        "bb" => {
            let mut s: BumpBox<str> = bump.alloc_str(input);
            let r = catch_unwind(AssertUnwindSafe(|| {
                if !common_ops!(s, op, orc, chars) {
                    if let Op::SplitOff(a, b) = op { off = Some(s.split_off(*a..*b).as_bytes().to_vec()); }
                }
            }));
            panicked = r.is_err();
            bytes = s.as_bytes().to_vec();
        }
        "fs" => {
            let mut s = FixedBumpString::with_capacity_in(room, &bump);
            s.push_str(input);
            let cap = s.capacity();
            let r = catch_unwind(AssertUnwindSafe(|| {
                if !common_ops!(s, op, orc, chars) && !(if alt { growing_ops_try!(s, op) } else { growing_ops!(s, op) }) {
                    if let Op::SplitOff(a, b) = op {
                        let o = s.split_off(*a..*b);
                        if o.capacity() + s.capacity() != cap { notes.push(format!("split_off capacities {}+{} != {}", o.capacity(), s.capacity(), cap)); }
                        off = Some(o.as_bytes().to_vec());
                    }
                }
            }));
            panicked = r.is_err();
            if s.capacity() < s.len() { notes.push("capacity < len".into()); }
            bytes = s.as_bytes().to_vec();
        }
        "bs" => {
            let mut s: BumpString<&Bump> = BumpString::from_str_in(input, &bump);
            let r = catch_unwind(AssertUnwindSafe(|| {
                if !common_ops!(s, op, orc, chars) && !(if alt { growing_ops_try!(s, op) } else { growing_ops!(s, op) }) {
                    if let Op::SplitOff(a, b) = op { off = Some(s.split_off(*a..*b).as_bytes().to_vec()); }
                }
            }));
            panicked = r.is_err();
            if s.capacity() < s.len() { notes.push("capacity < len".into()); }
            bytes = s.as_bytes().to_vec();
        }
        _ => {
            let mut s: MutBumpString<&mut Bump> = MutBumpString::from_str_in(input, &mut bump);
            let r = catch_unwind(AssertUnwindSafe(|| {
                let _ = common_ops!(s, op, orc, chars) || (if alt { growing_ops_try!(s, op) } else { growing_ops!(s, op) });
            }));
            panicked = r.is_err();
            if s.capacity() < s.len() { notes.push("capacity < len".into()); }
            bytes = s.as_bytes().to_vec();
        }
    }
    Out { bytes, chars, off, panicked, calls: orc.calls }
}

fn run_case(w: &mut impl std::io::Write, kind: &str, input: &str, op: &Op, ans: &[u8]) {
    let mut notes = vec![];
    // announce the case before it runs (flushed): a process that dies inside the crate is attributed to it
    writeln!(w, "SB {kind} {};in={};arg={};ans={}", op.words(), list(input.as_bytes()), list(op.str_arg().as_bytes()), String::from_utf8_lossy(ans)).unwrap();
    w.flush().unwrap();
    let o = run_impl(kind, input, op, ans, &mut notes);
    let offs = match &o.off { Some(b) => list(b), None => "-".into() };
    writeln!(w, "S {kind} {};in={};arg={};ans={};out={};ch={};off={};pn={};calls={}",
        op.words(), list(input.as_bytes()), list(op.str_arg().as_bytes()), String::from_utf8_lossy(ans),
        list(&o.bytes), list(&o.chars), offs, o.panicked as u8, o.calls).unwrap();
    let head = format!("X strs {kind} {} in={:?}", op.words(), input);
    if core::str::from_utf8(&o.bytes).is_err() {
        writeln!(w, "{head} :: contents are not valid UTF-8 after the operation{}: {:?}", if o.panicked { " (which panicked)" } else { "" }, o.bytes).unwrap();
    }
    if let Some(b) = &o.off { if core::str::from_utf8(b).is_err() { writeln!(w, "{head} :: the split-off string is not valid UTF-8: {b:?}").unwrap(); } }
    let s = run_std(input, op, ans);
    if s.panicked != o.panicked {
        writeln!(w, "{head} :: std::string::String {} but the bump string {}", if s.panicked { "panicked" } else { "did not panic" }, if o.panicked { "panicked" } else { "did not panic" }).unwrap();
    } else if !o.panicked || matches!(op, Op::Retain) {
        if s.bytes != o.bytes { writeln!(w, "{head} :: contents differ from std::string::String: {:?} vs {:?}", String::from_utf8_lossy(&o.bytes), String::from_utf8_lossy(&s.bytes)).unwrap(); }
        if s.chars != o.chars { writeln!(w, "{head} :: returned characters differ from std::string::String").unwrap(); }
        if s.off != o.off { writeln!(w, "{head} :: the split-off string differs from the drained range of std::string::String").unwrap(); }
        if s.calls != o.calls { writeln!(w, "{head} :: callback invoked {} times, std {} times", o.calls, s.calls).unwrap(); }
    } else if s.bytes != o.bytes {
        writeln!(w, "{head} :: contents after the panic differ from std::string::String").unwrap();
    }
    for n in notes { writeln!(w, "{head} :: {n}").unwrap(); }
}

// ---------------------------------------------------------------- conversions, C strings, formatting
fn conv_case(w: &mut impl std::io::Write, r: &mut Rng, which: u64) {
    let bump: Bump = Bump::new();
    match which {
        0 | 1 => {
            let v = gen_bytes(r);
            let head = format!("X strs cv from_utf8 in={v:?}");
            // from_utf8 (strict), through BumpVec<u8>
            let bv: BumpVec<u8, &Bump> = BumpVec::from_iter_in(v.iter().copied(), &bump);
            let res = BumpString::from_utf8(bv);
            let out = match &res { Ok(s) => list(s.as_bytes()), Err(_) => "ERR".into() };
            writeln!(w, "S cv from_utf8;in={};out={}", list(&v), out).unwrap();
            match (String::from_utf8(v.clone()), &res) {
                (Ok(a), Ok(b)) => if a.as_bytes() != b.as_bytes() { writeln!(w, "{head} :: differs from std").unwrap(); },
                (Err(e), Err(f)) => if e.utf8_error() != f.utf8_error() { writeln!(w, "{head} :: error differs from std").unwrap(); },
                _ => writeln!(w, "{head} :: accept/reject differs from std").unwrap(),
            }
            // lossy
            let l = BumpString::from_utf8_lossy_in(&v, &bump);
            writeln!(w, "S cv from_utf8_lossy;in={};out={}", list(&v), list(l.as_bytes())).unwrap();
            if core::str::from_utf8(l.as_bytes()).is_err() { writeln!(w, "{head} :: lossy result is not valid UTF-8").unwrap(); }
            if String::from_utf8_lossy(&v).as_bytes() != l.as_bytes() { writeln!(w, "{head} :: lossy result differs from std").unwrap(); }
            // the same strict conversion on the fixed string and on the boxed slice: same verdict, same error position,
            // and a rejected buffer comes back unchanged
            {
                let fv: bump_scope::FixedBumpVec<u8> = bump_scope::FixedBumpVec::from_iter_in(v.iter().copied(), &bump);
                let fr = bump_scope::FixedBumpString::from_utf8(fv);
                let bx: bump_scope::BumpBox<[u8]> = bump.alloc_slice_copy(&v);
                let br = bump_scope::BumpBox::<str>::from_utf8(bx);
                let std = String::from_utf8(v.clone());
                match (&std, &fr) {
                    (Ok(a), Ok(b)) => if a.as_bytes() != b.as_bytes() { writeln!(w, "{head} :: FixedBumpString::from_utf8 differs from std").unwrap(); },
                    (Err(e), Err(f)) => if e.utf8_error() != f.utf8_error() { writeln!(w, "{head} :: FixedBumpString::from_utf8 error differs from std").unwrap(); },
                    _ => writeln!(w, "{head} :: FixedBumpString::from_utf8 accept/reject differs from std").unwrap(),
                }
                match (&std, &br) {
                    (Ok(a), Ok(b)) => if a.as_bytes() != b.as_bytes() { writeln!(w, "{head} :: BumpBox<str>::from_utf8 differs from std").unwrap(); },
                    (Err(e), Err(f)) => if e.utf8_error() != f.utf8_error() { writeln!(w, "{head} :: BumpBox<str>::from_utf8 error differs from std").unwrap(); },
                    _ => writeln!(w, "{head} :: BumpBox<str>::from_utf8 accept/reject differs from std").unwrap(),
                }
                if let Err(f) = fr { if f.into_bytes().as_slice() != v.as_slice() { writeln!(w, "{head} :: FixedBumpString::from_utf8 returned other bytes with its error").unwrap(); } }
                if let Err(f) = br { if &*f.into_bytes() != v.as_slice() { writeln!(w, "{head} :: BumpBox<str>::from_utf8 returned other bytes with its error").unwrap(); } }
            }
            let mut b2: Bump = Bump::new();
            let l2 = MutBumpString::from_utf8_lossy_in(&v, &mut b2);
            if l2.as_bytes() != l.as_bytes() { writeln!(w, "{head} :: MutBumpString lossy result differs from BumpString's").unwrap(); }
        }
        2 => {
            let v = gen_units(r);
            let head = format!("X strs cv from_utf16 in={v:?}");
            let res = BumpString::from_utf16_in(&v, &bump);
            let out = match &res { Ok(s) => list(s.as_bytes()), Err(_) => "ERR".into() };
            writeln!(w, "S cv from_utf16;in={};out={}", list(&v), out).unwrap();
            match (String::from_utf16(&v), &res) {
                (Ok(a), Ok(b)) => if a.as_bytes() != b.as_bytes() { writeln!(w, "{head} :: differs from std").unwrap(); },
                (Err(_), Err(_)) => {}
                _ => writeln!(w, "{head} :: accept/reject differs from std").unwrap(),
            }
            let l = BumpString::from_utf16_lossy_in(&v, &bump);
            writeln!(w, "S cv from_utf16_lossy;in={};out={}", list(&v), list(l.as_bytes())).unwrap();
            if core::str::from_utf8(l.as_bytes()).is_err() { writeln!(w, "{head} :: lossy result is not valid UTF-8").unwrap(); }
            if String::from_utf16_lossy(&v).as_bytes() != l.as_bytes() { writeln!(w, "{head} :: lossy result differs from std").unwrap(); }
            let mut b2: Bump = Bump::new();
            let l2 = MutBumpString::from_utf16_lossy_in(&v, &mut b2);
            if l2.as_bytes() != l.as_bytes() { writeln!(w, "{head} :: MutBumpString lossy result differs from BumpString's").unwrap(); }
        }
        3 => {
            // C strings
            let mut s = gen_string(r, 8);
            if r.coin(1, 2) { let at = r.below(s.chars().count() as u64 + 1) as usize; let idx = s.char_indices().nth(at).map_or(s.len(), |x| x.0); s.insert(idx, '\0'); }
            if r.coin(1, 6) { s.push('\0'); }
            let head = format!("X strs cs cstr in={s:?}");
            let a = BumpString::from_str_in(&s, &bump).into_cstr().to_bytes_with_nul().to_vec();
            writeln!(w, "S cs into_cstr;in={};out={}", list(s.as_bytes()), list(&a)).unwrap();
            let b = bump.alloc_cstr_from_str(&s).to_bytes_with_nul().to_vec();
            writeln!(w, "S cs alloc_cstr_from_str;in={};out={}", list(s.as_bytes()), list(&b)).unwrap();
            let c = bump.alloc_cstr_fmt(format_args!("{}", s)).to_bytes_with_nul().to_vec();
            writeln!(w, "S cs alloc_cstr_fmt;in={};out={}", list(s.as_bytes()), list(&c)).unwrap();
            let mut b2: Bump = Bump::new();
            let d = MutBumpString::from_str_in(&s, &mut b2).into_cstr().to_bytes_with_nul().to_vec();
            writeln!(w, "S cs mut_into_cstr;in={};out={}", list(s.as_bytes()), list(&d)).unwrap();
            let mut b3: Bump = Bump::new();
            let e = b3.alloc_cstr_fmt_mut(format_args!("{}{}", s, "")).to_bytes_with_nul().to_vec();
            writeln!(w, "S cs alloc_cstr_fmt_mut;in={};out={}", list(s.as_bytes()), list(&e)).unwrap();
            let want: Vec<u8> = s.bytes().take_while(|&x| x != 0).chain(std::iter::once(0)).collect();
            for (n, got) in [("into_cstr", &a), ("alloc_cstr_from_str", &b), ("alloc_cstr_fmt", &c), ("MutBumpString::into_cstr", &d), ("alloc_cstr_fmt_mut", &e)] {
                if got != &want { writeln!(w, "{head} :: {n} is not the text up to the first NUL followed by one NUL: {got:?}").unwrap(); }
            }
        }
        6 | 7 => {
            // conversions between the string types and their raw views; std::string::String in lock-step
            let s = gen_string(r, 8);
            let t = gen_string(r, 6);
            let z = r.below(5) as usize;
            let head = format!("X strs cv convert in={s:?} arg={t:?} zeros={z}");
            let mut bad = |what: &str, got: &str, want: &str| { writeln!(w, "{head} :: {what}: {got:?} instead of {want:?}").unwrap(); };
            let guard_text = "sentinel \u{10FFFF}\u{7FF}";
            let sentinel = bump.alloc_str(guard_text);
            let mut want = s.clone();
            let mut a: BumpString<&Bump> = BumpString::from_str_in(&s, &bump);
            a.extend_zeroed(z);
            for _ in 0..z { want.push('\0'); }
            if a.as_str() != want { bad("BumpString::extend_zeroed", a.as_str(), &want); }
            let (fixed, alloc) = a.into_parts();
            if fixed.as_str() != want || fixed.capacity() < fixed.len() { bad("BumpString::into_parts", fixed.as_str(), &want); }
            let mut a = BumpString::from_parts(fixed, alloc);
            if which == 6 { a.push_str(&t) } else { a.try_push_str(&t).unwrap() }
            want.push_str(&t);
            a.as_mut_str().make_ascii_uppercase();
            want.make_ascii_uppercase();
            unsafe { a.as_mut_vec().extend_from_slice_copy(b"xy") };
            want.push_str("xy");
            if a.as_str() != want { bad("BumpString after from_parts / as_mut_str / as_mut_vec", a.as_str(), &want); }
            let f = a.into_fixed_string();
            if f.as_str() != want || f.capacity() < f.len() { bad("BumpString::into_fixed_string", f.as_str(), &want); }
            let mut a2 = f.into_string(&bump);
            a2.push_str(&t);
            a2.push_str(&s);
            want.push_str(&t);
            want.push_str(&s);
            if a2.as_str() != want { bad("FixedBumpString::into_string then growth", a2.as_str(), &want); }
            let bytes = a2.into_bytes();
            if bytes.as_slice() != want.as_bytes() { bad("BumpString::into_bytes", &String::from_utf8_lossy(bytes.as_slice()), &want); }
            let a3 = unsafe { BumpString::from_utf8_unchecked(bytes) };
            let bx = a3.into_boxed_str();
            if &*bx != want.as_str() { bad("BumpString::into_boxed_str", &bx, &want); }
            let mut f2 = FixedBumpString::from_init(bx);
            if f2.as_str() != want || f2.capacity() != want.len() { bad("FixedBumpString::from_init", f2.as_str(), &want); }
            // a full fixed string: extend_zeroed must fail and leave it alone
            if f2.try_extend_zeroed(1).is_ok() { bad("try_extend_zeroed on a full fixed string reported success", f2.as_str(), &want); }
            if f2.try_extend_zeroed(0).is_err() { bad("try_extend_zeroed(0) on a full fixed string failed", f2.as_str(), &want); }
            if f2.as_str() != want { bad("a failed try_extend_zeroed changed the contents", f2.as_str(), &want); }
            let popped = f2.pop();
            let wpopped = want.pop();
            if popped != wpopped { bad("pop after from_init", &format!("{popped:?}"), &format!("{wpopped:?}")); }
            let st: &mut str = f2.into_str();
            if st != want.as_str() { bad("FixedBumpString::into_str", st, &want); }
            // from_uninit: an empty string with that capacity
            let cap = want.len() + z;
            let mut f3 = FixedBumpString::from_uninit(bump.alloc_uninit_slice::<u8>(cap));
            if f3.len() != 0 || f3.capacity() != cap { bad("FixedBumpString::from_uninit", &format!("len {} cap {}", f3.len(), f3.capacity()), &format!("len 0 cap {cap}")); }
            f3.push_str(&want);
            f3.extend_zeroed(z);
            let mut w3 = want.clone();
            for _ in 0..z { w3.push('\0'); }
            if f3.as_str() != w3 { bad("FixedBumpString::extend_zeroed", f3.as_str(), &w3); }
            if f3.try_push('a').is_ok() { bad("try_push on a full fixed string reported success", f3.as_str(), &w3); }
            let b3 = f3.into_boxed_str();
            if &*b3 != w3.as_str() { bad("FixedBumpString::into_boxed_str", &b3, &w3); }
            let raw = b3.into_boxed_bytes();
            if &*raw != w3.as_bytes() { bad("BumpBox<str>::into_boxed_bytes", &String::from_utf8_lossy(&raw), &w3); }
            // MutBumpString
            let mut b2: Bump = Bump::new();
            let keep = b2.alloc_str(guard_text).into_ref() as *const str;
            let mut m = MutBumpString::from_str_in(&s, &mut b2);
            let mut wm = s.clone();
            m.extend_zeroed(z);
            for _ in 0..z { wm.push('\0'); }
            m.push_str(&t);
            wm.push_str(&t);
            m.as_mut_str().make_ascii_lowercase();
            wm.make_ascii_lowercase();
            unsafe { m.as_mut_vec().extend_from_slice_copy(b"q") };
            wm.push('q');
            if m.as_str() != wm { bad("MutBumpString extend_zeroed / as_mut_str / as_mut_vec", m.as_str(), &wm); }
            let mb = m.into_bytes();
            let m2 = unsafe { MutBumpString::from_utf8_unchecked(mb) };
            if which == 6 {
                let bx = m2.into_boxed_str();
                if &*bx != wm.as_str() { bad("MutBumpString::into_boxed_str", &bx, &wm); }
                if unsafe { &*keep } != guard_text { bad("an earlier allocation changed during MutBumpString conversions", unsafe { &*keep }, guard_text); }
            } else {
                let st = m2.into_str();
                if st != wm.as_str() { bad("MutBumpString::into_str", st, &wm); }
                if unsafe { &*keep } != guard_text { bad("an earlier allocation changed during MutBumpString conversions", unsafe { &*keep }, guard_text); }
            }
            if &*sentinel != guard_text { bad("an earlier allocation changed during the conversions", &sentinel, guard_text); }
            writeln!(w, "S fm convert;in={};out={}", list(s.as_bytes()), list(want.as_bytes())).unwrap();
        }
        8 | 9 => {
            // the trait surface of the string types against std::string::String
            use std::collections::hash_map::DefaultHasher;
            use std::hash::{Hash, Hasher};
            let a = gen_string(r, 7);
            let b = if r.coin(1, 4) { a.clone() } else { gen_string(r, 7) };
            let cs: Vec<char> = gen_string(r, 5).chars().collect();
            let head = format!("X strs tr traits a={a:?} b={b:?}");
            let mut bad = |what: &str, got: String, want: String| { if got != want { writeln!(w, "{head} :: {what}: {got:?} instead of std::string::String's {want:?}").unwrap(); } };
            let hash_of = |x: &dyn Fn(&mut DefaultHasher)| { let mut h = DefaultHasher::new(); x(&mut h); h.finish() };
            let mut b2: Bump = Bump::new();
            let mut want = a.clone();
            let mut bs: BumpString<&Bump> = BumpString::from_str_in(&a, &bump);
            let mut fs = FixedBumpString::with_capacity_in(16 * (a.len() + b.len() + 4 * cs.len()) + 256, &bump);
            fs.push_str(&a);
            {
                let mut ms: MutBumpString<&mut Bump> = MutBumpString::from_str_in(&a, &mut b2);
                // fmt::Write
                want.write_str(&b).unwrap(); bs.write_str(&b).unwrap(); fs.write_str(&b).unwrap(); ms.write_str(&b).unwrap();
                for c in &cs { want.write_char(*c).unwrap(); bs.write_char(*c).unwrap(); fs.write_char(*c).unwrap(); ms.write_char(*c).unwrap(); }
                write!(want, "{:>5}|{:?}", cs.len(), b).unwrap(); write!(bs, "{:>5}|{:?}", cs.len(), b).unwrap();
                write!(fs, "{:>5}|{:?}", cs.len(), b).unwrap(); write!(ms, "{:>5}|{:?}", cs.len(), b).unwrap();
                bad("fmt::Write (BumpString)", bs.as_str().into(), want.clone());
                bad("fmt::Write (FixedBumpString)", fs.as_str().into(), want.clone());
                bad("fmt::Write (MutBumpString)", ms.as_str().into(), want.clone());
                // Extend
                want.extend(cs.iter().copied()); bs.extend(cs.iter().copied()); fs.extend(cs.iter().copied()); ms.extend(cs.iter().copied());
                want.extend(cs.iter()); bs.extend(cs.iter()); fs.extend(cs.iter()); ms.extend(cs.iter());
                want.extend([a.as_str(), "", b.as_str()]); bs.extend([a.as_str(), "", b.as_str()]); fs.extend([a.as_str(), "", b.as_str()]); ms.extend([a.as_str(), "", b.as_str()]);
                bad("Extend<char> / Extend<&char> / Extend<&str> (BumpString)", bs.as_str().into(), want.clone());
                bad("Extend<char> / Extend<&char> / Extend<&str> (FixedBumpString)", fs.as_str().into(), want.clone());
                bad("Extend<char> / Extend<&char> / Extend<&str> (MutBumpString)", ms.as_str().into(), want.clone());
                bad("Display (MutBumpString)", format!("{ms}"), format!("{want}"));
                bad("Debug (MutBumpString)", format!("{ms:?}"), format!("{want:?}"));
                bad("Hash (MutBumpString)", hash_of(&|h| ms.hash(h)).to_string(), hash_of(&|h| want.hash(h)).to_string());
            }
            // += and +
            want += &b; bs += &b;
            let bs = bs + a.as_str(); want = want + a.as_str();
            bad("AddAssign<&str> / Add<&str>", bs.as_str().into(), want.clone());
            bad("Display", format!("{bs}|{fs}"), format!("{want}|{}", fs.as_str()));
            bad("Debug", format!("{bs:?}"), format!("{want:?}"));
            bad("Hash", hash_of(&|h| bs.hash(h)).to_string(), hash_of(&|h| want.hash(h)).to_string());
            let cl = bs.clone();
            bad("Clone", cl.as_str().into(), want.clone());
            if !want.is_empty() && cl.as_ptr() == bs.as_ptr() { bad("Clone shares the buffer", "same".into(), "different".into()); }
            let std_s: String = cl.into();
            bad("From<BumpString> for String", std_s, want.clone());
            // comparisons
            let xa: BumpString<&Bump> = BumpString::from_str_in(&a, &bump);
            let xb: BumpString<&Bump> = BumpString::from_str_in(&b, &bump);
            bad("PartialEq", format!("{} {} {}", xa == xb, xa != xb, xa == *b.as_str()), format!("{} {} {}", a == b, a != b, a == b));
            bad("Ord / PartialOrd", format!("{:?} {:?} {} {} {} {}", xa.cmp(&xb), xa.partial_cmp(&xb), xa < xb, xa <= xb, xa > xb, xa >= xb),
                format!("{:?} {:?} {} {} {} {}", a.cmp(&b), a.partial_cmp(&b), a < b, a <= b, a > b, a >= b));
            let fa = { let mut f = FixedBumpString::with_capacity_in(a.len(), &bump); f.push_str(&a); f };
            let fb = { let mut f = FixedBumpString::with_capacity_in(b.len(), &bump); f.push_str(&b); f };
            bad("PartialEq / Ord (FixedBumpString)", format!("{} {:?} {} {}", fa == fb, fa.cmp(&fb), fa < fb, fa >= fb), format!("{} {:?} {} {}", a == b, a.cmp(&b), a < b, a >= b));
            { let s: &str = xa.as_ref(); let t: &str = std::borrow::Borrow::borrow(&xa); bad("AsRef<str> / Borrow<str>", format!("{s}|{t}"), format!("{a}|{a}")); }
            if let Some((i, _)) = a.char_indices().nth(1) { bad("Index<RangeFrom>", xa[i..].into(), a[i..].into()); }
            // macros
            let n = r.next() as i32;
            bad("bump_format!", bump_scope::bump_format!(in &bump, "{a}/{n:+}/{:?}", cs).as_str().into(), format!("{a}/{n:+}/{:?}", cs));
            bad("bump_format!(try)", bump_scope::bump_format!(try in &bump, "{a}/{n:+}").unwrap().as_str().into(), format!("{a}/{n:+}"));
            bad("bump_format!(in)", bump_scope::bump_format!(in &bump).as_str().into(), String::new());
            bad("mut_bump_format!", bump_scope::mut_bump_format!(in &mut b2, "{a}/{n:+}/{:?}", cs).as_str().into(), format!("{a}/{n:+}/{:?}", cs));
            bad("mut_bump_format!(try)", bump_scope::mut_bump_format!(try in &mut b2, "{b}{n}").unwrap().as_str().into(), format!("{b}{n}"));
            writeln!(w, "S fm traits;in={};out={}", list(a.as_bytes()), list(want.as_bytes())).unwrap();
        }
        _ => {
            // formatting: the same Display/Debug output as std
            let s = gen_string(r, 6);
            let n = r.next() as i64;
            let f = f64::from_bits(r.next());
            let head = format!("X strs fm fmt in={s:?}");
            let want = format!("{s}|{n:>12}|{f:e}|{s:?}|{:#x}", n as u32);
            let a = bump.alloc_fmt(format_args!("{s}|{n:>12}|{f:e}|{s:?}|{:#x}", n as u32));
            if &*a != want.as_str() { writeln!(w, "{head} :: alloc_fmt differs from std format!").unwrap(); }
            let mut bs = BumpString::new_in(&bump);
            write!(bs, "{s}|{n:>12}|{f:e}|{s:?}|{:#x}", n as u32).unwrap();
            if bs.as_str() != want.as_str() { writeln!(w, "{head} :: BumpString write! differs from std format!").unwrap(); }
            let mut b2: Bump = Bump::new();
            let m = b2.alloc_fmt_mut(format_args!("{s}|{n:>12}|{f:e}|{s:?}|{:#x}", n as u32));
            if &*m != want.as_str() { writeln!(w, "{head} :: alloc_fmt_mut differs from std format!").unwrap(); }
            writeln!(w, "S fm fmt;in={};out={}", list(s.as_bytes()), list(a.as_bytes())).unwrap();
        }
    }
}

// ---------------------------------------------------------------- generators
const EDGE: [u32; 16] = [0x0, 0x1, 0x7F, 0x80, 0x7FF, 0x800, 0xFFF, 0x1000, 0xD7FF, 0xE000, 0xFFFD, 0xFFFF, 0x10000, 0x3FFFF, 0x40000, 0x10FFFF];

fn gen_char(r: &mut Rng) -> char {
    loop {
        let c = match r.below(10) {
            0..=2 => r.range(0x20, 0x7E) as u32,
            3..=4 => r.range(0x80, 0x7FF) as u32,
            5..=6 => r.range(0x800, 0xFFFF) as u32,
            7 => r.range(0x10000, 0x10FFFF) as u32,
            _ => EDGE[r.below(16) as usize],
        };
        if c == 0 && !r.coin(1, 4) { continue; }
        if let Some(ch) = char::from_u32(c) { return ch; }
    }
}
fn gen_string(r: &mut Rng, max: u64) -> String {
    let n = match r.below(8) { 0 => 0, 1 => 1, _ => r.range(2, max) };
    (0..n).map(|_| gen_char(r)).collect()
}
/// mostly well-formed text with ill-formed pieces in between
fn gen_bytes(r: &mut Rng) -> Vec<u8> {
    let mut v = vec![];
    let pieces = r.below(7);
    for _ in 0..pieces {
        match r.below(12) {
            0..=4 => { let mut b = [0u8; 4]; v.extend_from_slice(gen_char(r).encode_utf8(&mut b).as_bytes()); }
            5 => { let mut b = [0u8; 4]; let e = gen_char(r).encode_utf8(&mut b).as_bytes().to_vec(); let k = r.below(e.len() as u64 + 1) as usize; v.extend_from_slice(&e[..k]); } // truncated
            6 => v.push(r.range(0x80, 0xBF) as u8),                           // stray continuation
            7 => v.extend_from_slice(r.pick(&[&[0xC0u8, 0x80][..], &[0xC1, 0xBF], &[0xE0, 0x80, 0x80], &[0xE0, 0x9F, 0xBF], &[0xF0, 0x80, 0x80, 0x80], &[0xF0, 0x8F, 0xBF, 0xBF]])), // overlong
            8 => v.extend_from_slice(r.pick(&[&[0xEDu8, 0xA0, 0x80][..], &[0xED, 0xBF, 0xBF], &[0xED, 0x9F, 0xBF], &[0xEE, 0x80, 0x80]])),   // surrogates and neighbours
            9 => v.extend_from_slice(r.pick(&[&[0xF4u8, 0x90, 0x80, 0x80][..], &[0xF4, 0x8F, 0xBF, 0xBF], &[0xF5, 0x80, 0x80, 0x80], &[0xFF], &[0xFE], &[0xF8, 0x88, 0x80, 0x80, 0x80]])), // beyond U+10FFFF
            10 => { let lead = r.pick(&[0xC2u8, 0xDF, 0xE0, 0xE1, 0xEC, 0xED, 0xEE, 0xEF, 0xF0, 0xF1, 0xF3, 0xF4]); v.push(lead); for _ in 0..r.below(4) { v.push(r.pick(&[0x80u8, 0x8F, 0x90, 0x9F, 0xA0, 0xBF, 0x7F, 0xC0])); } }
            _ => v.push(r.below(256) as u8),
        }
    }
    v
}
fn gen_units(r: &mut Rng) -> Vec<u16> {
    let n = r.below(7);
    (0..n).map(|_| match r.below(8) {
        0..=2 => r.range(0x20, 0x7E) as u16,
        3 => r.range(0x80, 0xD7FF) as u16,
        4 => r.range(0xD800, 0xDBFF) as u16,
        5 => r.range(0xDC00, 0xDFFF) as u16,
        6 => r.pick(&[0u16, 0xD7FF, 0xD800, 0xDBFF, 0xDC00, 0xDFFF, 0xE000, 0xFFFF]),
        _ => r.range(0xE000, 0xFFFF) as u16,
    }).collect()
}

fn gen_index(r: &mut Rng, len: usize) -> usize {
    match r.below(10) { 0 => 0, 1 => len, 2 => len + 1 + r.below(2) as usize, _ => r.below(len as u64 + 1) as usize }
}

fn gen_op(r: &mut Rng, kind: &str, s: &str) -> Op {
    let len = s.len();
    loop {
        let (a0, b0) = (gen_index(r, len), gen_index(r, len));
        // ranges: mostly ordered, sometimes inverted, often empty
        let (a, b) = if r.coin(1, 10) { (a0, b0) } else if r.coin(1, 6) { (a0, a0) } else { (a0.min(b0), a0.max(b0)) };
        let op = match r.below(12) {
            0 => Op::Push(gen_char(r)),
            1 => Op::PushStr(gen_string(r, 4)),
            2 => Op::Insert(a0, gen_char(r)),
            3 => Op::InsertStr(a0, gen_string(r, 4)),
            4 => Op::Remove(a0),
            5 => Op::Pop,
            6 => Op::Truncate(a0),
            7 => Op::Retain,
            8 => Op::Drain(a, b, r.below(4) as usize, r.below(3) as usize, r.coin(1, 5)),
            9 => Op::ReplaceRange(a, b, gen_string(r, 4)),
            10 => Op::ExtendFromWithin(a, b),
            _ => Op::SplitOff(a, b),
        };
        if supports(kind, &op) { return op; }
    }
}

fn parse_case(l: &str) -> Option<(String, String, Op, Vec<u8>)> {
    let l = l.strip_prefix("S ")?;
    let mut fields = l.split(';');
    let head: Vec<&str> = fields.next()?.split(' ').collect();
    let mut kv = std::collections::HashMap::new();
    for f in fields { if let Some((k, v)) = f.split_once('=') { kv.insert(k.to_string(), v.to_string()); } }
    let input = String::from_utf8(parse_list::<u8>(kv.get("in")?)).ok()?;
    let sarg = String::from_utf8(parse_list::<u8>(kv.get("arg").map_or("", |s| s.as_str()))).ok()?;
    let ans = kv.get("ans").map_or(vec![], |s| s.as_bytes().to_vec());
    let n = |i: usize| -> Option<usize> { head.get(i)?.parse().ok() };
    let ch = |i: usize| -> Option<char> { char::from_u32(head.get(i)?.parse().ok()?) };
    let op = match *head.get(1)? {
        "push" => Op::Push(ch(2)?),
        "push_str" => Op::PushStr(sarg),
        "insert" => Op::Insert(n(2)?, ch(3)?),
        "insert_str" => Op::InsertStr(n(2)?, sarg),
        "remove" => Op::Remove(n(2)?),
        "pop" => Op::Pop,
        "truncate" => Op::Truncate(n(2)?),
        "retain" => Op::Retain,
        "drain" => Op::Drain(n(2)?, n(3)?, n(4)?, n(5)?, n(6)? != 0),
        "replace_range" => Op::ReplaceRange(n(2)?, n(3)?, sarg),
        "extend_from_within" => Op::ExtendFromWithin(n(2)?, n(3)?),
        "split_off" => Op::SplitOff(n(2)?, n(3)?),
        _ => return None,
    };
    Some((head[0].to_string(), input, op, ans))
}

fn main() {
    let seed: u64 = arg("--seed", 1);
    let cases: usize = arg("--cases", 20000);
    let verbose = arg("--verbose-panics", 0u8) != 0;
    std::panic::set_hook(Box::new(move |info| { if verbose { eprintln!("{info}"); } }));
    let mut r = Rng::new(seed ^ 0x5712);
    let out = std::io::stdout();
    let mut w = std::io::BufWriter::new(out.lock());
    let input_file: String = arg("--input", String::new());
    if !input_file.is_empty() {
        for l in std::fs::read_to_string(&input_file).expect("cannot read --input").lines() {
            if let Some((kind, input, op, ans)) = parse_case(l) { run_case(&mut w, &kind, &input, &op, &ans); }
        }
        return;
    }
    let kinds = ["bb", "fs", "bs", "ms"];
    for case in 0..cases {
        if case % 4 == 3 {
            let which = r.below(10);
            conv_case(&mut w, &mut r, which);
            continue;
        }
        let kind = r.pick(&kinds);
        let input = gen_string(&mut r, 8);
        let op = gen_op(&mut r, kind, &input);
        let n = input.chars().count();
        let mut ans: Vec<u8> = (0..n + 1).map(|_| if r.coin(1, 2) { b'T' } else { b'F' }).collect();
        if r.coin(1, 3) && !ans.is_empty() { let k = r.below(ans.len() as u64) as usize; ans[k] = b'P'; }
        run_case(&mut w, kind, &input, &op, &ans);
    }
}
