// Shared by colls.rs (include!): operations the slot model does not cover — into_iter, splice,
// map / map_in_place, append, extend with lying size hints, resize_with, dedup_by_key,
// into_flattened, conversions — on every vector type, with drop-counting elements and std Vec
// in lock-step.  Every element must end up dropped exactly once.
mod extras {
    use bump_scope::{Bump, BumpBox, BumpVec, FixedBumpVec, MutBumpVec, MutBumpVecRev};
    use std::cell::RefCell;
    use std::panic::{AssertUnwindSafe, catch_unwind};
    use verif_harness::Rng;

    thread_local! { static XDROPS: RefCell<Vec<u32>> = const { RefCell::new(Vec::new()) }; }

    #[derive(Debug, PartialEq)]
    pub struct D(pub u32);
    impl Drop for D { fn drop(&mut self) { XDROPS.with(|d| d.borrow_mut().push(self.0)); } }
    fn drops() -> Vec<u32> { XDROPS.with(|d| std::mem::take(&mut *d.borrow_mut())) }
    fn ids(s: &[D]) -> Vec<u32> { s.iter().map(|d| d.0).collect() }

    /// iterator whose size_hint lies
    struct Liar<I> { it: I, lo: usize, hi: Option<usize> }
    impl<I: Iterator> Iterator for Liar<I> {
        type Item = I::Item;
        fn next(&mut self) -> Option<I::Item> { self.it.next() }
        fn size_hint(&self) -> (usize, Option<usize>) { (self.lo, self.hi) }
    }

    /// returns (monitor notes, trace line for the Coq model when the operation is modelled)
    pub fn extras_probe(r: &mut Rng) -> (Vec<String>, Option<String>) {
        let mut notes: Vec<String> = vec![];
        let mut cline: Option<String> = None;
        let list = |v: &[u32]| v.iter().map(|x| x.to_string()).collect::<Vec<_>>().join(",");
        let minus = |all: Vec<u32>, gone: &[u32]| -> Vec<u32> { let mut a = all; for g in gone { if let Some(p) = a.iter().position(|x| x == g) { a.remove(p); } } a };
        drops();
        let n = r.range(0, 9) as usize;
        let base = r.below(1000) as u32 * 100;
        let input: Vec<u32> = (0..n as u32).map(|i| base + i).collect();
        let repl: Vec<u32> = (0..r.range(0, 5) as u32).map(|i| base + 50 + i).collect();
        let a = r.below(n as u64 + 1) as usize;
        let b = a + r.below((n - a) as u64 + 1) as usize;
        let kf = r.below(4) as usize;
        let kb = r.below(3) as usize;
        let panic_at = if r.coin(1, 3) { Some(r.below(n as u64 + 1) as usize) } else { None };
        let which = r.below(9);
        let kind = r.below(4);   // 0 BumpVec, 1 MutBumpVec, 2 FixedBumpVec, 3 BumpBox<[T]> where the operation exists
        let kname = match kind { 1 => "mv", 2 => "fv", _ => "bv" };
        let what = ["into_iter", "splice", "map_in_place", "map", "append", "extend(lying size_hint)", "resize_with", "dedup_by_key", "into_boxed_slice"][which as usize];
        let mut expect_all: Vec<u32> = input.clone();     // every identity that must be dropped exactly once by the end
        let mut fin: Option<Vec<u32>> = None;             // observed final contents (ids), when there is a std counterpart
        let mut want: Option<Vec<u32>> = None;
        let mut yielded: Vec<u32> = vec![];
        let mut bump: Bump = Bump::new();
        macro_rules! with_vec {
            ($v:ident, $body:block) => {{
                match kind {
                    0 | 3 => { let mut $v: BumpVec<D, &Bump> = BumpVec::new_in(&bump); for i in &input { $v.push(D(*i)); } $body }
                    1 => { let mut $v: MutBumpVec<D, &mut Bump> = MutBumpVec::new_in(&mut bump); for i in &input { $v.push(D(*i)); } $body }
                    _ => { let mut $v: FixedBumpVec<D> = FixedBumpVec::with_capacity_in(n + repl.len() + 4, &bump); for i in &input { $v.push(D(*i)); } $body }
                }
            }};
        }
        match which {
            0 => with_vec!(v, {
                // into_iter consumed from both ends, then dropped
                let mut it = v.into_iter();
                for _ in 0..kf { if let Some(d) = it.next() { yielded.push(d.0); } }
                for _ in 0..kb { if let Some(d) = it.next_back() { yielded.push(d.0); } }
                let left = it.len();
                drop(it);
                let dr = minus(drops(), &yielded);
                cline = Some(format!("C {kname} into_iter {kf} {kb};in={};ans=;dp=;ex=;fin=;yl={};dr={};uw=0;calls=0", list(&input), list(&yielded), list(&dr)));
                for x in &dr { XDROPS.with(|d| d.borrow_mut().push(*x)); }
                for x in &yielded { XDROPS.with(|d| d.borrow_mut().push(*x)); }
                let mut w: Vec<u32> = vec![];
                let mut sv: std::collections::VecDeque<u32> = input.iter().copied().collect();
                for _ in 0..kf { if let Some(x) = sv.pop_front() { w.push(x); } }
                for _ in 0..kb { if let Some(x) = sv.pop_back() { w.push(x); } }
                if w != yielded { notes.push(format!("{what}: yielded {yielded:?}, std yields {w:?}")); }
                if left != sv.len() { notes.push(format!("{what}: len() of the iterator is {left}, std {}", sv.len())); }
            }),
            1 => {
                // splice exists on BumpVec only
                let mut v: BumpVec<D, &Bump> = BumpVec::new_in(&bump);
                for i in &input { v.push(D(*i)); }
                expect_all.extend(repl.iter().copied());
                let take = r.below(4) as usize;
                {
                    let mut sp = v.splice(a..b, repl.iter().map(|i| D(*i)).collect::<Vec<D>>());
                    for _ in 0..take { if let Some(d) = sp.next() { yielded.push(d.0); } }
                }
                let dr = minus(drops(), &yielded);
                cline = Some(format!("C bv splice {a} {b} {take};in={};ans=;dp=;ex={};fin={};yl={};dr={};uw=0;calls=0", list(&input), list(&repl), list(&ids(&v)), list(&yielded), list(&dr)));
                for x in &dr { XDROPS.with(|d| d.borrow_mut().push(*x)); }
                for x in &yielded { XDROPS.with(|d| d.borrow_mut().push(*x)); }
                let mut sv = input.clone();
                let removed: Vec<u32> = sv.splice(a..b, repl.iter().copied()).collect();
                if yielded[..] != removed[..yielded.len().min(removed.len())] { notes.push(format!("{what}({a}..{b}): yielded {yielded:?}, std removes {removed:?}")); }
                fin = Some(ids(&v)); want = Some(sv);
            }
            2 => with_vec!(v, {
                // map_in_place with a closure that may panic at the k-th call
                let mut calls = 0usize;
                let res = catch_unwind(AssertUnwindSafe(|| {
                    let m = v.map_in_place(|d| { let k = calls; calls += 1; if Some(k) == panic_at { panic!("scripted") } let id = d.0; std::mem::forget(d); D(id) });
                    let f = ids(&m);
                    let during = drops();
                    (f, during)
                }));
                let pa = match panic_at { Some(k) => k as i64, None => -1 };
                match res {
                    Ok((f, during)) => {
                        let after = drops();   // the mapped vector went out of scope
                        cline = Some(format!("C {kname} map_in_place {pa};in={};ans=;dp=;ex=;fin={};yl=;dr={};uw=0;calls={calls}", list(&input), list(&f), list(&during)));
                        for x in during.iter().chain(after.iter()) { XDROPS.with(|d| d.borrow_mut().push(*x)); }
                        fin = Some(f); want = Some(input.clone());
                    }
                    Err(_) => {
                        let during = drops();
                        cline = Some(format!("C {kname} map_in_place {pa};in={};ans=;dp=;ex=;fin=;yl=;dr={};uw=1;calls={calls}", list(&input), list(&during)));
                        for x in &during { XDROPS.with(|d| d.borrow_mut().push(*x)); }
                    }
                }
            }),
            3 => {
                let mut v: BumpVec<D, &Bump> = BumpVec::new_in(&bump);
                for i in &input { v.push(D(*i)); }
                let m = v.map(|d| { let id = d.0; std::mem::forget(d); D(id) });
                fin = Some(ids(&m)); want = Some(input.clone());
            }
            4 => with_vec!(v, {
                // append from another owned slice: the elements move, nothing is dropped
                expect_all.extend(repl.iter().copied());
                let other_bump: Bump = Bump::new();
                match r.below(3) {
                    0 => { let o: Vec<D> = repl.iter().map(|i| D(*i)).collect(); v.append(o); }
                    1 => { let mut o: BumpVec<D, &Bump> = BumpVec::new_in(&other_bump); for i in &repl { o.push(D(*i)); } v.append(o); }
                    _ => { let o = other_bump.alloc_iter(repl.iter().map(|i| D(*i))); v.append(o); }
                }
                let during = drops();
                if !during.is_empty() { notes.push(format!("{what}: something was dropped while moving elements")); }
                cline = Some(format!("C {kname} append;in={};ans=;dp=;ex={};fin={};yl=;dr={};uw=0;calls=0", list(&input), list(&repl), list(&ids(&v)), list(&during)));
                for x in &during { XDROPS.with(|d| d.borrow_mut().push(*x)); }
                let mut sv = input.clone(); sv.extend(repl.iter().copied());
                fin = Some(ids(&v)); want = Some(sv);
            }),
            5 => with_vec!(v, {
                expect_all.extend(repl.iter().copied());
                let (lo, hi) = match r.below(4) { 0 => (0, None), 1 => (repl.len() + 3, Some(repl.len() + 3)), 2 => (0, Some(0)), _ => (repl.len(), Some(repl.len())) };
                // an upper bound smaller than the truth is a contract violation of the iterator; stay within "wrong but permitted": lower bound too low/high, no upper bound
                let hi = match hi { Some(h) if h < repl.len() => None, h => h };
                v.extend(Liar { it: repl.iter().map(|i| D(*i)), lo: lo.min(repl.len()), hi });
                let mut sv = input.clone(); sv.extend(repl.iter().copied());
                fin = Some(ids(&v)); want = Some(sv);
            }),
            6 => with_vec!(v, {
                let new_len = r.below(n as u64 + 4) as usize;
                let mut next = base + 70;
                let mut made: Vec<u32> = vec![];
                v.resize_with(new_len, || { next += 1; made.push(next); D(next) });
                expect_all.extend(made.iter().copied());
                let mut sv = input.clone(); let mut k = base + 70; sv.resize_with(new_len, || { k += 1; k });
                fin = Some(ids(&v)); want = Some(sv);
            }),
            7 => with_vec!(v, {
                v.dedup_by_key(|d| d.0 / 2);
                let mut sv = input.clone(); sv.dedup_by_key(|x| *x / 2);
                fin = Some(ids(&v)); want = Some(sv);
            }),
            _ => {
                let mut v: BumpVec<D, &Bump> = BumpVec::new_in(&bump);
                for i in &input { v.push(D(*i)); }
                let bx: BumpBox<[D]> = v.into_boxed_slice();
                fin = Some(ids(&bx)); want = Some(input.clone());
            }
        }
        if let (Some(f), Some(w)) = (&fin, &want) { if f != w { notes.push(format!("{what}: contents differ from std::vec::Vec: {f:?} vs {w:?}")); } }
        drop(bump);
        // everything is gone now: each identity dropped exactly once (yielded values were dropped when they went out of scope)
        let mut d = drops();
        d.sort();
        let mut e = expect_all.clone(); e.sort();
        if d != e {
            let twice: Vec<u32> = d.windows(2).filter(|w| w[0] == w[1]).map(|w| w[0]).collect();
            let lost: Vec<u32> = e.iter().filter(|x| !d.contains(x)).copied().collect();
            notes.push(format!("{what} (kind {kind}): drops do not match the elements: dropped twice {twice:?}, never dropped {lost:?}"));
        }
        (notes, cline)
    }
}
use extras::extras_probe;
