// Shared by colls.rs (include!): the allocation helpers built on the collections —
// alloc_slice_clone / alloc_slice_fill / alloc_slice_fill_with / alloc_slice_move / alloc_with /
// alloc_iter / alloc_iter_exact / alloc_iter_mut / alloc_iter_mut_rev — with drop-counting elements
// (sized and zero-sized), a panic injected at the k-th clone / closure call / iterator step, and
// iterators whose size hints or exact lengths lie.
//  * C06: whatever happens, every element that came into existence is dropped exactly once by the
//    time the result (or what was built before the panic) is gone — nothing lost, nothing twice;
//  * C08: on success the slice holds the expected elements in order (reversed for _mut_rev);
//  * C15: the _mut variants never move a bump position before they finish, in particular not when
//    the iterator panics.
mod helpx {
    use bump_scope::Bump;
    use std::cell::{Cell, RefCell};
    use std::panic::{AssertUnwindSafe, catch_unwind};
    use verif_harness::Rng;

    thread_local! {
        static HDROPS: RefCell<Vec<u32>> = const { RefCell::new(Vec::new()) };
        static BORN: RefCell<Vec<u32>> = const { RefCell::new(Vec::new()) };
        static FUSE: Cell<i64> = const { Cell::new(-1) };     // panic when it reaches 0; negative: never
        static NEXT: Cell<u32> = const { Cell::new(1) };
    }
    fn fresh() -> u32 { NEXT.with(|n| { let v = n.get(); n.set(v + 1); BORN.with(|b| b.borrow_mut().push(v)); v }) }
    fn tick() { FUSE.with(|f| { let v = f.get(); if v == 0 { f.set(-1); panic!("scripted"); } if v > 0 { f.set(v - 1); } }) }

    /// identity (unique, for the drop accounting) and value (kept by Clone, for the comparison with std)
    pub struct H(pub u32, pub u32);
    thread_local! { static VAL: Cell<u32> = const { Cell::new(0) }; }
    fn next_val() -> u32 { VAL.with(|v| { let x = v.get(); v.set(x + 1); x }) }
    impl H { pub fn new() -> H { H(fresh(), next_val()) } }
    impl Drop for H { fn drop(&mut self) { HDROPS.with(|d| d.borrow_mut().push(self.0)); } }
    impl Clone for H { fn clone(&self) -> H { tick(); H(fresh(), self.1) } }
    impl PartialEq for H { fn eq(&self, o: &H) -> bool { self.1 == o.1 } }
    // a one-byte element with a destructor (map_in_place to a smaller type); identity modulo 256 is
    // not unique, so it is counted like the zero-sized one
    pub struct Small(pub u8);
    impl Drop for Small { fn drop(&mut self) { ZDROP.with(|d| d.set(d.get() + 1)); } }
    fn fresh_small() -> u8 { ZBORN.with(|b| b.set(b.get() + 1)); 1 }
    pub trait Val { fn val(&self) -> u32; }
    impl Val for H { fn val(&self) -> u32 { self.1 } }
    impl Val for Z0 { fn val(&self) -> u32 { 0 } }
    thread_local! { static FINAL: RefCell<Option<Vec<u32>>> = const { RefCell::new(None) }; }
    fn record<T: Val>(s: &[T]) { FINAL.with(|f| *f.borrow_mut() = Some(s.iter().map(|e| e.val()).collect())); }
    pub trait Elem { type Smaller; fn smaller() -> Self::Smaller; }
    impl Elem for H { type Smaller = Small; fn smaller() -> Small { Small(fresh_small()) } }
    impl Elem for Z0 { type Smaller = Z0; fn smaller() -> Z0 { z0() } }
    // zero-sized twin: identity cannot be stored, births and drops are counted
    pub struct Z0;
    thread_local! { static ZBORN: Cell<u64> = const { Cell::new(0) }; static ZDROP: Cell<u64> = const { Cell::new(0) }; }
    impl Drop for Z0 { fn drop(&mut self) { ZDROP.with(|d| d.set(d.get() + 1)); } }
    impl Clone for Z0 { fn clone(&self) -> Z0 { tick(); ZBORN.with(|b| b.set(b.get() + 1)); Z0 } }
    fn z0() -> Z0 { ZBORN.with(|b| b.set(b.get() + 1)); Z0 }

    struct Lying<I> { it: I, lo: usize, hi: Option<usize> }
    impl<I: Iterator> Iterator for Lying<I> {
        type Item = I::Item;
        fn next(&mut self) -> Option<I::Item> { self.it.next() }
        fn size_hint(&self) -> (usize, Option<usize>) { (self.lo, self.hi) }
    }
    struct LyingExact<I> { it: I, len: usize }
    impl<I: Iterator> Iterator for LyingExact<I> {
        type Item = I::Item;
        fn next(&mut self) -> Option<I::Item> { self.it.next() }
        fn size_hint(&self) -> (usize, Option<usize>) { (self.len, Some(self.len)) }
    }
    impl<I: Iterator> ExactSizeIterator for LyingExact<I> {}

    fn positions(b: &Bump) -> Vec<(usize, usize)> {
        b.stats().small_to_big().map(|c| (c.chunk_start().as_ptr() as usize, c.bump_position().as_ptr() as usize)).collect()
    }

    /// the parameters of one probe; printed as an `HP` line so that a failing probe can be replayed
    #[derive(Clone, Debug)]
    pub struct Params { pub which: u64, pub n: usize, pub fuse: i64, pub zst: bool, pub chunk: usize, pub pre: u64, pub lo: usize, pub lie_len: usize }
    impl Params {
        pub fn line(&self) -> String { format!("HP {} {} {} {} {} {} {} {}", self.which, self.n, self.fuse, self.zst as u8, self.chunk, self.pre, self.lo, self.lie_len) }
        pub fn parse(l: &str) -> Option<Params> {
            let f: Vec<&str> = l.strip_prefix("HP ")?.split(' ').collect();
            if f.len() < 8 { return None; }
            Some(Params { which: f[0].parse().ok()?, n: f[1].parse().ok()?, fuse: f[2].parse().ok()?, zst: f[3] == "1", chunk: f[4].parse().ok()?, pre: f[5].parse().ok()?, lo: f[6].parse().ok()?, lie_len: f[7].parse().ok()? })
        }
    }

    pub fn gen_params(r: &mut Rng) -> Params {
        let n = match r.below(5) { 0 => 0usize, 1 => 1, _ => r.range(2, 40) as usize };
        let fuse: i64 = if r.coin(1, 2) { r.below(n as u64 + 2) as i64 } else { -1 };
        let which = r.below(24);
        let zst = r.coin(1, 4);
        let chunk = if r.coin(1, 2) { 512 } else { 4096 };
        let pre = r.below(5);
        let lo = match r.below(4) { 0 => 0, 1 => n / 2, 2 => n + 3, _ => n };
        let lie_len = match r.below(3) { 0 => n / 2, 1 => n + 2, _ => n };
        Params { which, n, fuse, zst, chunk, pre, lo, lie_len }
    }

    pub fn helpers_probe(p: &Params) -> Vec<String> {
        let mut notes: Vec<String> = vec![];
        HDROPS.with(|d| d.borrow_mut().clear()); BORN.with(|b| b.borrow_mut().clear());
        ZBORN.with(|b| b.set(0)); ZDROP.with(|d| d.set(0));
        let (n, fuse, which, zst, lo, lie_len) = (p.n, p.fuse, p.which.min(23), p.zst, p.lo, p.lie_len);
        let mut bump: Bump = Bump::with_size(p.chunk.max(64));
        // something allocated before, so that positions are not at the start
        for _ in 0..p.pre { bump.alloc(7u8); }
        let what = ["alloc_slice_clone", "alloc_slice_fill", "alloc_slice_fill_with", "alloc_slice_move(Vec)", "alloc_with", "alloc_iter", "alloc_iter(lying hint)",
                    "alloc_iter_exact", "alloc_iter_exact(lying len)", "alloc_iter_mut", "alloc_iter_mut_rev", "alloc_iter_mut(lying hint)",
                    "BumpBox::map_in_place(to zero-sized)", "BumpBox::map_in_place(same size)", "BumpBox::map_in_place(to smaller)", "BumpVec::map_in_place(to zero-sized)",
                    "BumpVec::map(to larger)", "FixedBumpVec::map_in_place(same size)",
                    "alloc_uninit_slice.init_fill_iter", "alloc_uninit_slice.init_fill_iter(too short)", "alloc_uninit_slice.init_move(Vec)", "alloc_uninit_slice.init_move(wrong length)",
                    "BumpVec::splice(lying size hint)", "BumpVec::extend(lying size hint)"][which as usize];
        let tag = format!("{what} n={n} fuse={fuse} zst={zst}");
        let before = positions(&bump);
        let is_mut = (9..=11).contains(&which);
        macro_rules! run {
            ($t:ty, $mk:expr, $idof:expr) => {{
                // $mk: fresh element; $idof: identity (0 for the zero-sized type)
                let src: Vec<_> = (0..n).map(|_| $mk).collect();
                let src_ids: Vec<u32> = src.iter().map($idof).collect();
                FUSE.with(|f| f.set(fuse));
                let res = catch_unwind(AssertUnwindSafe(|| -> (Vec<u32>, Vec<u32>) {
                    // returns (ids of the result in order, ids expected)
                    match which {
                        0 => { let b = bump.alloc_slice_clone(&src); let ids: Vec<u32> = b.iter().map($idof).collect(); (ids, vec![]) }
                        1 => { let v = $mk; let b = bump.alloc_slice_fill(n, v); (b.iter().map($idof).collect(), vec![]) }
                        2 => { let b = bump.alloc_slice_fill_with(n, || { tick(); $mk }); (b.iter().map($idof).collect(), vec![]) }
                        3 => { let v: Vec<_> = (0..n).map(|_| $mk).collect(); let want: Vec<u32> = v.iter().map($idof).collect(); let b = bump.alloc_slice_move(v); (b.iter().map($idof).collect(), want) }
                        4 => { let b = bump.alloc_with(|| { tick(); $mk }); (vec![($idof)(&*b)], vec![]) }
                        5 => { let mut want = vec![]; let b = bump.alloc_iter((0..n).map(|_| { tick(); let e = $mk; want.push(($idof)(&e)); e })); (b.iter().map($idof).collect(), want) }
                        6 => { let mut want = vec![]; let b = bump.alloc_iter(Lying { it: (0..n).map(|_| { tick(); let e = $mk; want.push(($idof)(&e)); e }), lo, hi: None }); (b.iter().map($idof).collect(), want) }
                        7 => { let mut want = vec![]; let b = bump.alloc_iter_exact((0..n).map(|_| { tick(); let e = $mk; want.push(($idof)(&e)); e })); (b.iter().map($idof).collect(), want) }
                        8 => { let mut want = vec![]; let b = bump.alloc_iter_exact(LyingExact { it: (0..n).map(|_| { tick(); let e = $mk; want.push(($idof)(&e)); e }), len: lie_len });
                               let got: Vec<u32> = b.iter().map($idof).collect(); want.truncate(got.len().max(if lie_len < n { lie_len } else { n })); (got, want) }
                        9 => { let mut want = vec![]; let b = bump.alloc_iter_mut((0..n).map(|_| { tick(); let e = $mk; want.push(($idof)(&e)); e })); (b.iter().map($idof).collect(), want) }
                        10 => { let mut want = vec![]; let b = bump.alloc_iter_mut_rev((0..n).map(|_| { tick(); let e = $mk; want.push(($idof)(&e)); e })); want.reverse(); (b.iter().map($idof).collect(), want) }
                        12..=17 => {
                            // map variants: the source elements are consumed one by one by the closure (which may panic
                            // before or after it made the new value); identities of the results are fresh
                            use bump_scope::{BumpVec, FixedBumpVec};
                            let srcb = bump.alloc_slice_fill_with(n, || $mk);
                            match which {
                                12 => { let b = srcb.map_in_place(|e| { drop(e); tick(); z0() }); (vec![0; b.len()], vec![]) }
                                13 => { let b = srcb.map_in_place(|e| { tick(); drop(e); $mk }); (b.iter().map($idof).collect(), vec![]) }
                                14 => { let b = srcb.map_in_place(|e| { tick(); drop(e); <$t as Elem>::smaller() }); (vec![0; b.len()], vec![]) }
                                15 => { let mut v: BumpVec<_, &Bump> = BumpVec::new_in(&bump); v.append(srcb); let w = v.map_in_place(|e| { drop(e); tick(); z0() }); (vec![0; w.len()], vec![]) }
                                16 => { let mut v: BumpVec<_, &Bump> = BumpVec::new_in(&bump); v.append(srcb); let w = v.map(|e| { tick(); (e, 7u64, $mk) }); (vec![0; w.len()], vec![]) }
                                _ => { let mut v: FixedBumpVec<_> = FixedBumpVec::with_capacity_in(n, &bump); v.append(srcb); let w = v.map_in_place(|e| { tick(); drop(e); $mk }); (w.iter().map($idof).collect(), vec![]) }
                            }
                        }
                        18 => { let mut want = vec![]; let b = bump.alloc_uninit_slice::<$t>(n).init_fill_iter((0..n + 3).map(|_| { tick(); let e = $mk; want.push(($idof)(&e)); e })); want.truncate(n); (b.iter().map($idof).collect(), want) }
                        19 => { let b = bump.alloc_uninit_slice::<$t>(n + 2).init_fill_iter((0..n).map(|_| { tick(); $mk })); (b.iter().map($idof).collect(), vec![]) }
                        20 => { let v: Vec<$t> = (0..n).map(|_| $mk).collect(); let want: Vec<u32> = v.iter().map($idof).collect(); let b = bump.alloc_uninit_slice::<$t>(n).init_move(v); (b.iter().map($idof).collect(), want) }
                        21 => { let v: Vec<$t> = (0..n + 1).map(|_| $mk).collect(); let b = bump.alloc_uninit_slice::<$t>(n).init_move(v); (b.iter().map($idof).collect(), vec![]) }
                        22 | 23 => {
                            // the same on std::vec::Vec: contents must agree (values; identities differ)
                            use bump_scope::BumpVec;
                            let (a, b2) = (lo.min(n), lie_len.min(n).max(lo.min(n)));
                            let k = (fuse.unsigned_abs() as usize) % 7;
                            let hint = match p.pre { 0 => 0, 1 => k / 2, 2 => k + 3, _ => k };
                            let mut v: BumpVec<$t, &Bump> = BumpVec::new_in(&bump);
                            for _ in 0..n { v.push($mk); }
                            if which == 22 { let sp = v.splice(a..b2, Lying { it: (0..k).map(|_| $mk), lo: hint, hi: None }); drop(sp); }
                            else { v.extend(Lying { it: (0..k).map(|_| $mk), lo: hint, hi: if p.pre == 4 { Some(hint) } else { None } }); }
                            (v.iter().map($idof).collect(), vec![n as u32, a as u32, b2 as u32, k as u32])
                        }
                        _ => { let mut want = vec![]; let b = bump.alloc_iter_mut(Lying { it: (0..n).map(|_| { tick(); let e = $mk; want.push(($idof)(&e)); e }), lo, hi: Some(lo) }); (b.iter().map($idof).collect(), want) }
                    }
                }));
                FUSE.with(|f| f.set(-1));
                match &res {
                    Ok((got, want)) => {
                        if which == 19 || which == 21 { notes.push(format!("helpers: {tag} did not panic although the source has the wrong number of elements")); }
                        if which >= 22 {
                            let (n_, a_, b_, k_) = (want[0] as usize, want[1] as usize, want[2] as usize, want[3] as usize);
                            let expect = if which == 22 { n_ - (b_ - a_) + k_ } else { n_ + k_ };
                            if got.len() != expect { notes.push(format!("helpers: contents of {tag}: {} elements after the operation, expected {expect} (n {n_}, range {a_}..{b_}, {k_} new)", got.len())); }
                        } else
                        if !want.is_empty() && !zst && got != want { notes.push(format!("helpers: contents of {tag}: got {got:?}, expected {want:?}")); }
                        if matches!(which, 0 | 1 | 2) && got.len() != n { notes.push(format!("helpers: {tag} returned {} elements", got.len())); }
                        // a lying ExactSizeIterator: a sized element type gets at most the claimed length; for a zero-sized
                        // type (capacity usize::MAX) everything the iterator yields is taken — both are within the contract
                        if which == 8 && !zst && got.len() != lie_len.min(n) { notes.push(format!("helpers: {tag} with claimed length {lie_len} returned {} elements", got.len())); }
                        if which == 8 && zst && got.len() > n { notes.push(format!("helpers: {tag} returned {} elements from an iterator that yields {n}", got.len())); }
                    }
                    Err(_) => {
                        if fuse < 0 && which != 19 && which != 21 { notes.push(format!("helpers: {tag} panicked although nothing was scripted to")); }
                        if is_mut && positions(&bump) != before { notes.push(format!("helpers: position moved: {tag} unwound and left a bump position changed ({:?} -> {:?})", before, positions(&bump))); }
                    }
                }
                drop(src);
                let _ = src_ids;
            }};
        }
        if zst { run!(Z0, z0(), |_e: &Z0| 0u32); } else { run!(H, H::new(), |e: &H| e.0); }
        // everything that was born has been dropped exactly once by now
        if zst {
            let (b, d) = (ZBORN.with(|x| x.get()), ZDROP.with(|x| x.get()));
            if b != d { notes.push(format!("helpers: {tag}: {b} zero-sized elements came into existence, {d} were dropped (lost or dropped twice)")); }
        } else {
            let (zb, zd) = (ZBORN.with(|x| x.get()), ZDROP.with(|x| x.get()));
            if zb != zd { notes.push(format!("helpers: {tag}: {zb} mapped (zero-sized / one-byte) elements came into existence, {zd} were dropped (lost or dropped twice)")); }
            let mut born = BORN.with(|b| b.borrow().clone()); born.sort();
            let mut dropped = HDROPS.with(|d| d.borrow().clone()); dropped.sort();
            if born != dropped {
                let lost: Vec<u32> = born.iter().filter(|x| !dropped.contains(x)).copied().collect();
                let mut twice = vec![]; for w in dropped.windows(2) { if w[0] == w[1] { twice.push(w[0]); } }
                notes.push(format!("helpers: {tag}: elements lost {lost:?}, dropped twice {twice:?} ({} born, {} drops)", born.len(), dropped.len()));
            }
        }
        notes
    }

    // ---------------------------------------------------------------- zero-sized elements in the collections
    // C06 quantifies over zero-sized element types too.  Their identity cannot be tracked, births and
    // drops are counted: after a random sequence of operations (with a panic injected into the k-th
    // Clone / closure / predicate call overall) and after the vector is gone, both counts are equal.
    #[derive(Clone, Copy, Debug)]
    pub enum ZsOp { Push, Resize(usize), ResizeWith(usize), ExtendClone(usize), WithinClone(usize), Truncate(usize), Pop, Remove(usize), SwapRemove(usize),
                    Insert(usize), Retain(u32), DedupBy(u32), Drain(usize, usize, usize), ExtractIf(u32, usize), Clear, IntoIter(usize), MapInPlace,
                    AppendVec(usize), AppendDrain(usize), AppendArray, SpliceVec(usize, usize, usize), SplitOff(usize, usize),
                    PushWith, PopIf(u32), InsertMut(usize) }

    fn zs_name(op: &ZsOp) -> String { format!("{op:?}").replace(' ', "") }
    pub fn zs_parse(t: &str) -> Option<ZsOp> {
        let t = t.trim_end_matches(')');
        let (name, args) = match t.split_once('(') { Some((a, b)) => (a, b), None => (t, "") };
        let a: Vec<usize> = args.split(',').filter(|x| !x.is_empty()).filter_map(|x| x.parse().ok()).collect();
        let g = |i: usize| a.get(i).copied().unwrap_or(0);
        Some(match name { "Push" => ZsOp::Push, "Resize" => ZsOp::Resize(g(0)), "ResizeWith" => ZsOp::ResizeWith(g(0)), "ExtendClone" => ZsOp::ExtendClone(g(0)), "WithinClone" => ZsOp::WithinClone(g(0)),
            "Truncate" => ZsOp::Truncate(g(0)), "Pop" => ZsOp::Pop, "Remove" => ZsOp::Remove(g(0)), "SwapRemove" => ZsOp::SwapRemove(g(0)), "Insert" => ZsOp::Insert(g(0)),
            "Retain" => ZsOp::Retain(g(0) as u32), "DedupBy" => ZsOp::DedupBy(g(0) as u32), "Drain" => ZsOp::Drain(g(0), g(1), g(2)), "ExtractIf" => ZsOp::ExtractIf(g(0) as u32, g(1)),
            "Clear" => ZsOp::Clear, "IntoIter" => ZsOp::IntoIter(g(0)), "MapInPlace" => ZsOp::MapInPlace,
            "AppendVec" => ZsOp::AppendVec(g(0)), "AppendDrain" => ZsOp::AppendDrain(g(0)), "AppendArray" => ZsOp::AppendArray,
            "SpliceVec" => ZsOp::SpliceVec(g(0), g(1), g(2)), "SplitOff" => ZsOp::SplitOff(g(0), g(1)),
            "PushWith" => ZsOp::PushWith, "PopIf" => ZsOp::PopIf(g(0) as u32), "InsertMut" => ZsOp::InsertMut(g(0)), _ => return None })
    }

    /// how the vector comes into existence / how it ends
    #[derive(Clone, Copy, Debug)]
    pub struct Frame { pub sized: bool, pub ctor: u8, pub carg: usize, pub fin: u8 }
    pub fn gen_frame(r: &mut Rng) -> Frame {
        Frame { sized: r.coin(1, 2), ctor: r.below(6) as u8, carg: r.below(9) as usize, fin: r.below(5) as u8 }
    }

    pub fn gen_zs(r: &mut Rng) -> (u8, i64, Vec<ZsOp>) {
        let kind = r.below(4) as u8;
        let k = r.range(1, 9) as usize;
        let ops: Vec<ZsOp> = (0..k).map(|i| {
            let small = |r: &mut Rng| r.below(12) as usize;
            match r.below(if i + 1 == k { 26 } else { 24 }) {
                23 => ZsOp::PushWith, 22 => ZsOp::PopIf(r.below(4) as u32), 21 => ZsOp::InsertMut(small(r)),
                16 => ZsOp::AppendVec(small(r)), 17 => ZsOp::AppendDrain(small(r)), 18 => ZsOp::AppendArray,
                19 => { let a = small(r); ZsOp::SpliceVec(a, a + small(r), small(r)) } 20 => { let a = small(r); ZsOp::SplitOff(a, a + small(r)) }
                0 | 1 => ZsOp::Push, 2 => ZsOp::Resize(small(r)), 3 => ZsOp::ResizeWith(small(r)), 4 => ZsOp::ExtendClone(small(r)), 5 => ZsOp::WithinClone(small(r)),
                6 => ZsOp::Truncate(small(r)), 7 => ZsOp::Pop, 8 => ZsOp::Remove(small(r)), 9 => ZsOp::SwapRemove(small(r)), 10 => ZsOp::Insert(small(r)),
                11 => ZsOp::Retain(r.below(256) as u32), 12 => ZsOp::DedupBy(r.below(256) as u32), 13 => { let a = small(r); ZsOp::Drain(a, a + small(r), small(r)) }
                14 => ZsOp::ExtractIf(r.below(256) as u32, small(r)), 15 => ZsOp::Clear, 24 => ZsOp::IntoIter(small(r)), _ => ZsOp::MapInPlace }
        }).collect();
        let fuse: i64 = if r.coin(2, 3) { r.below(30) as i64 } else { -1 };
        (kind, fuse, ops)
    }

    pub fn zs_line(kind: u8, fuse: i64, ops: &[ZsOp]) -> String {
        format!("HZ {kind} {fuse} {}", ops.iter().map(zs_name).collect::<Vec<_>>().join(";"))
    }
    pub fn hh_line(fr: &Frame, kind: u8, fuse: i64, ops: &[ZsOp]) -> String {
        format!("HH {} {} {} {} {kind} {fuse} {}", fr.sized as u8, fr.ctor, fr.carg, fr.fin, ops.iter().map(zs_name).collect::<Vec<_>>().join(";"))
    }
    pub fn hh_parse(l: &str) -> Option<(Frame, u8, i64, Vec<ZsOp>)> {
        let f: Vec<&str> = l.strip_prefix("HH ")?.splitn(7, ' ').collect();
        if f.len() < 6 { return None; }
        let ops = if f.len() == 7 { f[6].split(';').filter_map(zs_parse).collect() } else { vec![] };
        Some((Frame { sized: f[0] == "1", ctor: f[1].parse().ok()?, carg: f[2].parse().ok()?, fin: f[3].parse().ok()? }, f[4].parse().ok()?, f[5].parse().ok()?, ops))
    }

    pub fn zs_probe(kind: u8, fuse: i64, ops: &[ZsOp]) -> Vec<String> {
        use bump_scope::{BumpVec, FixedBumpVec, MutBumpVec, MutBumpVecRev};
        let mut notes: Vec<String> = vec![];
        ZBORN.with(|b| b.set(0)); ZDROP.with(|d| d.set(0));
        FUSE.with(|f| f.set(fuse));
        let mut bump: Bump = Bump::new();
        macro_rules! rich {
            ($v:ident, $op:expr, $len:expr) => {{ let len = $len; match *$op {
                ZsOp::Retain(mask) => { let mut k = 0u32; $v.retain(|_| { tick(); k += 1; (mask >> (k % 8)) & 1 == 1 }); }
                ZsOp::DedupBy(mask) => { let mut k = 0u32; $v.dedup_by(|_, _| { tick(); k += 1; (mask >> (k % 8)) & 1 == 1 }); }
                ZsOp::Drain(a, b, take) => { let (a, b) = (a.min(len), b.min(len)); let mut d = $v.drain(a..b); for _ in 0..take { if d.next().is_none() { break; } } }
                ZsOp::ExtractIf(mask, take) => { let mut k = 0u32; let mut it = $v.extract_if(|_| { tick(); k += 1; (mask >> (k % 8)) & 1 == 1 }); for _ in 0..take { if it.next().is_none() { break; } } }
                _ => {}
            } }};
        }
        // BumpVec only
        macro_rules! richest {
            ($v:ident, $op:expr, $len:expr) => {{ let len = $len; match *$op {
                ZsOp::SpliceVec(a, b, n) => { let (a, b) = (a.min(len), b.min(len)); let repl: Vec<Z0> = (0..n).map(|_| z0()).collect(); let sp = $v.splice(a..b, repl); drop(sp); }
                ZsOp::SplitOff(a, b) => { let (a, b) = (a.min(len), b.min(len)); let off = $v.split_off(a..b); drop(off); }
                _ => rich!($v, $op, len),
            } }};
        }
        macro_rules! poor { ($v:ident, $op:expr, $len:expr) => {{ let _ = ($op, $len); }}; }
        macro_rules! drive {
            ($v:ident, $rich:ident, $last:expr) => {{
                for op in ops.iter() {
                    let len = $v.len();
                    match *op {
                        ZsOp::Push => { $v.push(z0()); }
                        ZsOp::Resize(n) => { $v.resize(n, z0()); }
                        ZsOp::ResizeWith(n) => { $v.resize_with(n, || { tick(); z0() }); }
                        ZsOp::ExtendClone(n) => { let src: Vec<Z0> = (0..n).map(|_| z0()).collect(); $v.extend_from_slice_clone(&src); }
                        ZsOp::WithinClone(n) => { $v.extend_from_within_clone(0..n.min(len)); }
                        ZsOp::Truncate(n) => { $v.truncate(n); }
                        ZsOp::Pop => { $v.pop(); }
                        ZsOp::Remove(i) => { if i < len { $v.remove(i); } }
                        ZsOp::SwapRemove(i) => { if i < len { $v.swap_remove(i); } }
                        ZsOp::Insert(i) => { $v.insert(i.min(len), z0()); }
                        ZsOp::Retain(..) | ZsOp::DedupBy(..) | ZsOp::Drain(..) | ZsOp::ExtractIf(..) => { $rich!($v, op, len); }
                        ZsOp::Clear => { $v.clear(); }
                        ZsOp::AppendVec(n) => { let src: Vec<Z0> = (0..n).map(|_| z0()).collect(); $v.append(src); }
                        ZsOp::AppendDrain(n) => { let mut src: Vec<Z0> = (0..n + 2).map(|_| z0()).collect(); $v.append(src.drain(1..n + 1)); }
                        ZsOp::AppendArray => { $v.append([z0(), z0(), z0()]); }
                        ZsOp::SpliceVec(..) | ZsOp::SplitOff(..) => { $rich!($v, op, len); }
                        ZsOp::PushWith => { $v.push_with(|| { tick(); z0() }); }
                        ZsOp::PopIf(m) => { let _ = $v.pop_if(|_| { tick(); m % 2 == 0 }); }
                        ZsOp::InsertMut(i) => { let _ = $v.insert_mut(i.min(len), z0()); }
                        ZsOp::IntoIter(_) | ZsOp::MapInPlace => {}     // consuming: handled after the loop
                    }
                }
                $last
            }};
        }
        let last = ops.last().copied();
        let res = catch_unwind(AssertUnwindSafe(|| {
            match kind {
                0 => { let mut v: BumpVec<Z0, &Bump> = BumpVec::new_in(&bump); drive!(v, richest, { match last { Some(ZsOp::IntoIter(t)) => { let mut it = v.into_iter(); for _ in 0..t { if it.next().is_none() { break; } } } Some(ZsOp::MapInPlace) => { let w = v.map_in_place(|z| { tick(); z }); drop(w); } _ => drop(v) } }); }
                1 => { let mut v: FixedBumpVec<Z0> = FixedBumpVec::with_capacity_in(64, &bump); drive!(v, rich, { match last { Some(ZsOp::IntoIter(t)) => { let mut it = v.into_iter(); for _ in 0..t { if it.next().is_none() { break; } } } _ => drop(v) } }); }
                2 => { let mut v: MutBumpVec<Z0, &mut Bump> = MutBumpVec::new_in(&mut bump); drive!(v, rich, { match last { Some(ZsOp::IntoIter(t)) => { let mut it = v.into_iter(); for _ in 0..t { if it.next().is_none() { break; } } } _ => drop(v) } }); }
                _ => { let mut v: MutBumpVecRev<Z0, &mut Bump> = MutBumpVecRev::new_in(&mut bump); drive!(v, poor, { match last { Some(ZsOp::IntoIter(t)) => { let mut it = v.into_iter(); for _ in 0..t { if it.next().is_none() { break; } } } _ => drop(v) } }); }
            }
        }));
        let exploded = FUSE.with(|f| { let v = f.get(); f.set(-1); v }) == -1 && fuse >= 0;
        if res.is_err() && !exploded { notes.push(format!("helpers: zero-sized collection history (kind {kind}) panicked although the scripted panic did not fire")); }
        let (b, d) = (ZBORN.with(|x| x.get()), ZDROP.with(|x| x.get()));
        if b != d { notes.push(format!("helpers: zero-sized elements of a collection lost or dropped twice: {b} came into existence, {d} were dropped (kind {kind}, fuse {fuse}, ops {})", ops.iter().map(zs_name).collect::<Vec<_>>().join(";"))); }
        notes
    }

    // ---------------------------------------------------------------- BumpBox<[T]> of zero-sized elements
    /// `HB n fuse ops`: a boxed slice of n zero-sized elements, a sequence of the slice operations of
    /// BumpBox<[T]> (incl. dividing and merging), the box(es) dropped: births = drops.
    pub fn zs_box_probe(n: usize, fuse: i64, ops: &[ZsOp]) -> Vec<String> {
        use bump_scope::BumpBox;
        let mut notes: Vec<String> = vec![];
        ZBORN.with(|b| b.set(0)); ZDROP.with(|d| d.set(0));
        let bump: Bump = Bump::new();
        FUSE.with(|f| f.set(-1));
        let res = catch_unwind(AssertUnwindSafe(|| {
            let mut v: BumpBox<[Z0]> = bump.alloc_slice_fill_with(n, z0);
            FUSE.with(|f| f.set(fuse));
            let mut parts: Vec<BumpBox<[Z0]>> = vec![];
            for op in ops.iter() {
                let len = v.len();
                match *op {
                    ZsOp::Truncate(k) => { v.truncate(k); }
                    ZsOp::Pop => { v.pop(); }
                    ZsOp::Remove(i) => { if i < len { v.remove(i); } }
                    ZsOp::SwapRemove(i) => { if i < len { v.swap_remove(i); } }
                    ZsOp::Retain(mask) => { let mut k = 0u32; v.retain(|_| { tick(); k += 1; (mask >> (k % 8)) & 1 == 1 }); }
                    ZsOp::DedupBy(mask) => { let mut k = 0u32; v.dedup_by(|_, _| { tick(); k += 1; (mask >> (k % 8)) & 1 == 1 }); }
                    ZsOp::Drain(a, b, take) => { let (a, b) = (a.min(len), b.min(len)); let mut d = v.drain(a..b); for _ in 0..take { if d.next().is_none() { break; } } }
                    ZsOp::ExtractIf(mask, take) => { let mut k = 0u32; let mut it = v.extract_if(|_| { tick(); k += 1; (mask >> (k % 8)) & 1 == 1 }); for _ in 0..take { if it.next().is_none() { break; } } }
                    ZsOp::SplitOff(a, b) => { let (a, b) = (a.min(len), b.min(len)); parts.push(v.split_off(a..b)); }
                    ZsOp::SpliceVec(a, _, _) => { // split_at + merge
                        let (l, rr) = core::mem::take(&mut v).split_at(a.min(len)); v = l.merge(rr); }
                    ZsOp::MapInPlace => { // partition, keep both parts
                        let mut k = 0u32; let (t, f) = core::mem::take(&mut v).partition(|_| { tick(); k += 1; k % 3 != 0 }); v = t; parts.push(f); }
                    ZsOp::Clear => { v.clear(); }
                    _ => {}
                }
            }
            if let Some(ZsOp::IntoIter(t)) = ops.last() { let mut it = v.into_iter(); for _ in 0..*t { if it.next().is_none() { break; } } }
            drop(parts);
        }));
        let exploded = FUSE.with(|f| { let v = f.get(); f.set(-1); v }) == -1 && fuse >= 0;
        if res.is_err() && !exploded { notes.push(format!("helpers: a BumpBox<[T]> history of zero-sized elements panicked although the scripted panic did not fire (n {n}, ops {})", ops.iter().map(zs_name).collect::<Vec<_>>().join(";"))); }
        let (b, d) = (ZBORN.with(|x| x.get()), ZDROP.with(|x| x.get()));
        if b != d { notes.push(format!("helpers: zero-sized elements of a collection lost or dropped twice: {b} came into existence, {d} were dropped (BumpBox<[T]>, n {n}, fuse {fuse}, ops {})", ops.iter().map(zs_name).collect::<Vec<_>>().join(";"))); }
        notes
    }

    // ---------------------------------------------------------------- framed histories, sized and zero-sized
    /// like zs_probe, for a sized (H) or zero-sized (Z0) element type, with the constructors
    /// (new / from_elem_in / from_iter_in / from_iter_exact_in / from_owned_slice_in) and the ways a
    /// vector can end (drop / into_boxed_slice / into_fixed_vec + into_vec / into_parts + from_parts /
    /// into_iter) around the history, and push_with / pop_if / insert_mut inside it.
    pub fn hh_probe(fr: &Frame, kind: u8, fuse: i64, ops: &[ZsOp]) -> Vec<String> {
        use bump_scope::{BumpVec, FixedBumpVec, MutBumpVec, MutBumpVecRev};
        let mut notes: Vec<String> = vec![];
        HDROPS.with(|d| d.borrow_mut().clear()); BORN.with(|b| b.borrow_mut().clear());
        ZBORN.with(|b| b.set(0)); ZDROP.with(|d| d.set(0));
        FUSE.with(|f| f.set(fuse));
        VAL.with(|v| v.set(0)); FINAL.with(|f| *f.borrow_mut() = None);
        let mut bump: Bump = Bump::new();
        let n = fr.carg;
        macro_rules! body {
            ($t:ty, $mk:expr) => {{
                macro_rules! ops_on {
                    ($v:ident, $rich:ident) => {{
                        for op in ops.iter() {
                            let len = $v.len();
                            match *op {
                                ZsOp::Push => { $v.push($mk); }
                                ZsOp::PushWith => { $v.push_with(|| { tick(); $mk }); }
                                ZsOp::PopIf(m) => { let _ = $v.pop_if(|_| { tick(); m % 2 == 0 }); }
                                ZsOp::InsertMut(i) => { let _ = $v.insert_mut(i.min(len), $mk); }
                                ZsOp::Resize(k) => { $v.resize(k, $mk); }
                                ZsOp::ResizeWith(k) => { $v.resize_with(k, || { tick(); $mk }); }
                                ZsOp::ExtendClone(k) => { let src: Vec<$t> = (0..k).map(|_| $mk).collect(); $v.extend_from_slice_clone(&src); }
                                ZsOp::WithinClone(k) => { $v.extend_from_within_clone(0..k.min(len)); }
                                ZsOp::Truncate(k) => { $v.truncate(k); }
                                ZsOp::Pop => { $v.pop(); }
                                ZsOp::Remove(i) => { if i < len { $v.remove(i); } }
                                ZsOp::SwapRemove(i) => { if i < len { $v.swap_remove(i); } }
                                ZsOp::Insert(i) => { $v.insert(i.min(len), $mk); }
                                ZsOp::Clear => { $v.clear(); }
                                ZsOp::AppendVec(k) => { let src: Vec<$t> = (0..k).map(|_| $mk).collect(); $v.append(src); }
                                ZsOp::AppendDrain(k) => { let mut src: Vec<$t> = (0..k + 2).map(|_| $mk).collect(); $v.append(src.drain(1..k + 1)); }
                                ZsOp::AppendArray => { $v.append([$mk, $mk, $mk]); }
                                ZsOp::Retain(..) | ZsOp::DedupBy(..) | ZsOp::Drain(..) | ZsOp::ExtractIf(..) | ZsOp::SpliceVec(..) | ZsOp::SplitOff(..) => { $rich!($v, op, len); }
                                ZsOp::IntoIter(_) | ZsOp::MapInPlace => {}
                            }
                        }
                    }};
                }
                macro_rules! rich {
                    ($v:ident, $op:expr, $len:expr) => {{ let len = $len; match *$op {
                        ZsOp::Retain(mask) => { let mut k = 0u32; $v.retain(|_| { tick(); k += 1; (mask >> (k % 8)) & 1 == 1 }); }
                        ZsOp::DedupBy(mask) => { let mut k = 0u32; $v.dedup_by(|_, _| { tick(); k += 1; (mask >> (k % 8)) & 1 == 1 }); }
                        ZsOp::Drain(a, b, take) => { let (a, b) = (a.min(len), b.min(len)); let mut d = $v.drain(a..b); for _ in 0..take { if d.next().is_none() { break; } } }
                        ZsOp::ExtractIf(mask, take) => { let mut k = 0u32; let mut it = $v.extract_if(|_| { tick(); k += 1; (mask >> (k % 8)) & 1 == 1 }); for _ in 0..take { if it.next().is_none() { break; } } }
                        _ => {}
                    } }};
                }
                macro_rules! poor { ($v:ident, $op:expr, $len:expr) => {{ let _ = ($op, $len); }}; }
                // BumpVec only
                macro_rules! richest {
                    ($v:ident, $op:expr, $len:expr) => {{ let len = $len; match *$op {
                        ZsOp::SpliceVec(a, b, k) => { let (a, b) = (a.min(len), b.min(len)); let repl: Vec<$t> = (0..k).map(|_| $mk).collect(); let sp = $v.splice(a..b, repl); drop(sp); }
                        ZsOp::SplitOff(a, b) => { let (a, b) = (a.min(len), b.min(len)); let off = $v.split_off(a..b); drop(off); }
                        _ => rich!($v, $op, len),
                    } }};
                }
                // the constructors take an iterator / a value / an owned slice
                macro_rules! construct {
                    ($ty:ident, $alloc:expr) => {{
                        match fr.ctor {
                            0 => $ty::from_elem_in($mk, n, $alloc),
                            1 => $ty::from_iter_in((0..n).map(|_| { tick(); $mk }), $alloc),
                            2 => $ty::from_iter_exact_in((0..n).map(|_| { tick(); $mk }), $alloc),
                            3 => { let src: Vec<$t> = (0..n).map(|_| $mk).collect(); $ty::from_owned_slice_in(src, $alloc) }
                            4 => $ty::from_owned_slice_in([$mk, $mk], $alloc),
                            _ => $ty::new_in($alloc),
                        }
                    }};
                }
                match kind {
                    0 => {
                        let mut v: BumpVec<$t, &Bump> = construct!(BumpVec, &bump);
                        ops_on!(v, richest);
                        record(&v);
                        match fr.fin {
                            0 => drop(v),
                            1 => { let b = v.into_boxed_slice(); drop(b); }
                            2 => { let f = v.into_fixed_vec(); let w = f.into_vec(&bump); drop(w); }
                            3 => { let (f, a) = v.into_parts(); let w = BumpVec::from_parts(f, a); drop(w); }
                            _ => { let mut it = v.into_iter(); for _ in 0..n { if it.next().is_none() { break; } } }
                        }
                    }
                    1 => {
                        let mut v: FixedBumpVec<$t> = match fr.ctor {
                            1 => FixedBumpVec::from_iter_in((0..n).map(|_| { tick(); $mk }), &bump),
                            2 => FixedBumpVec::from_iter_exact_in((0..n).map(|_| { tick(); $mk }), &bump),
                            _ => FixedBumpVec::with_capacity_in(256, &bump),
                        };
                        // a fixed vector made from an iterator is full: only shrinking operations apply
                        let full = matches!(fr.ctor, 1 | 2);
                        if !full { ops_on!(v, rich); } else { for op in ops.iter() { let len = v.len(); match *op { ZsOp::Pop => { v.pop(); } ZsOp::Truncate(k) => v.truncate(k), ZsOp::Remove(i) => { if i < len { v.remove(i); } }
                            ZsOp::Retain(..) | ZsOp::DedupBy(..) | ZsOp::Drain(..) | ZsOp::ExtractIf(..) => { rich!(v, op, len); } ZsOp::PopIf(m) => { let _ = v.pop_if(|_| { tick(); m % 2 == 0 }); } _ => {} } } }
                        record(&v);
                        match fr.fin {
                            1 => { let b = v.into_boxed_slice(); drop(b); }
                            2 => { let w = v.into_vec(&bump); drop(w); }
                            3 => { let (init, spare) = v.split_at_spare(); drop(spare); drop(init); }
                            4 => { let mut it = v.into_iter(); for _ in 0..n { if it.next().is_none() { break; } } }
                            _ => drop(v),
                        }
                    }
                    2 => {
                        let mut v: MutBumpVec<$t, &mut Bump> = construct!(MutBumpVec, &mut bump);
                        ops_on!(v, rich);
                        record(&v);
                        match fr.fin { 1 => { let b = v.into_boxed_slice(); drop(b); } 4 => { let mut it = v.into_iter(); for _ in 0..n { if it.next().is_none() { break; } } } _ => drop(v) }
                    }
                    _ => {
                        let mut v: MutBumpVecRev<$t, &mut Bump> = construct!(MutBumpVecRev, &mut bump);
                        ops_on!(v, poor);
                        record(&v);
                        match fr.fin { 1 => { let b = v.into_boxed_slice(); drop(b); } 4 => { let mut it = v.into_iter(); for _ in 0..n { if it.next().is_none() { break; } } } _ => drop(v) }
                    }
                }
            }};
        }
        let res = catch_unwind(AssertUnwindSafe(|| { if fr.sized { body!(H, H::new()); } else { body!(Z0, z0()); } }));
        let exploded = FUSE.with(|f| { let v = f.get(); f.set(-1); v }) == -1 && fuse >= 0;
        let desc = format!("{}", hh_line(fr, kind, fuse, ops));
        if res.is_err() && !exploded { notes.push(format!("helpers: a framed collection history panicked although the scripted panic did not fire ({desc})")); }
        let (b, d) = (ZBORN.with(|x| x.get()), ZDROP.with(|x| x.get()));
        if b != d { notes.push(format!("helpers: zero-sized elements of a collection lost or dropped twice: {b} came into existence, {d} were dropped ({desc})")); }
        let mut born = BORN.with(|b| b.borrow().clone()); born.sort();
        let mut dropped = HDROPS.with(|d| d.borrow().clone()); dropped.sort();
        if born != dropped {
            let lost: Vec<u32> = born.iter().filter(|x| !dropped.contains(x)).copied().collect();
            let mut twice = vec![]; for w in dropped.windows(2) { if w[0] == w[1] { twice.push(w[0]); } }
            notes.push(format!("helpers: elements of a collection lost {lost:?} / dropped twice {twice:?} ({} born, {} drops; {desc})", born.len(), dropped.len()));
        }
        // C08 over sequences: the same history on std::vec::Vec (forward vectors, sized elements, no panic)
        if fr.sized && res.is_ok() {
            let got = FINAL.with(|f| f.borrow_mut().take());
            match (got, shadow_run(fr, kind, fuse, ops)) {
                (Some(g), Some(w)) => { if g != w { notes.push(format!("helpers: contents differ from std::vec::Vec after a history: {g:?} vs {w:?} ({desc})")); } }
                (Some(_), None) => notes.push(format!("helpers: std::vec::Vec panics on this history, the bump vector did not ({desc})")),
                _ => {}
            }
        }
        notes
    }

    /// the same framed history on std::vec::Vec<H>; None when it panicked
    fn shadow_run(fr: &Frame, kind: u8, fuse: i64, ops: &[ZsOp]) -> Option<Vec<u32>> {
        FUSE.with(|f| f.set(fuse)); VAL.with(|v| v.set(0));
        let n = fr.carg;
        if kind == 3 { return shadow_rev(fr, fuse, ops); }
        let r = catch_unwind(AssertUnwindSafe(|| -> Vec<u32> {
            let mut v: Vec<H> = if kind == 1 {
                match fr.ctor { 1 | 2 => (0..n).map(|_| { tick(); H::new() }).collect(), _ => Vec::new() }
            } else {
                match fr.ctor {
                    0 => vec![H::new(); n],
                    1 | 2 => (0..n).map(|_| { tick(); H::new() }).collect(),
                    3 => (0..n).map(|_| H::new()).collect(),
                    4 => vec![H::new(), H::new()],
                    _ => Vec::new(),
                }
            };
            let full = kind == 1 && matches!(fr.ctor, 1 | 2);
            for op in ops.iter() {
                let len = v.len();
                let shrinking = matches!(op, ZsOp::Pop | ZsOp::Truncate(_) | ZsOp::Remove(_) | ZsOp::Retain(..) | ZsOp::DedupBy(..) | ZsOp::Drain(..) | ZsOp::ExtractIf(..) | ZsOp::PopIf(_));
                if full && !shrinking { continue; }
                match *op {
                    ZsOp::Push => v.push(H::new()),
                    ZsOp::PushWith => { tick(); v.push(H::new()); }
                    ZsOp::PopIf(m) => { let _ = v.pop_if(|_| { tick(); m % 2 == 0 }); }
                    ZsOp::InsertMut(i) | ZsOp::Insert(i) => v.insert(i.min(len), H::new()),
                    ZsOp::Resize(k) => v.resize(k, H::new()),
                    ZsOp::ResizeWith(k) => v.resize_with(k, || { tick(); H::new() }),
                    ZsOp::ExtendClone(k) => { let src: Vec<H> = (0..k).map(|_| H::new()).collect(); v.extend_from_slice(&src); }
                    ZsOp::WithinClone(k) => v.extend_from_within(0..k.min(len)),
                    ZsOp::Truncate(k) => v.truncate(k),
                    ZsOp::Pop => { v.pop(); }
                    ZsOp::Remove(i) => { if i < len { v.remove(i); } }
                    ZsOp::SwapRemove(i) => { if i < len { v.swap_remove(i); } }
                    ZsOp::Clear => v.clear(),
                    ZsOp::AppendVec(k) => { let mut src: Vec<H> = (0..k).map(|_| H::new()).collect(); v.append(&mut src); }
                    ZsOp::AppendDrain(k) => { let mut src: Vec<H> = (0..k + 2).map(|_| H::new()).collect(); v.extend(src.drain(1..k + 1)); }
                    ZsOp::AppendArray => v.extend([H::new(), H::new(), H::new()]),
                    ZsOp::Retain(mask) => { let mut k = 0u32; v.retain(|_| { tick(); k += 1; (mask >> (k % 8)) & 1 == 1 }); }
                    ZsOp::DedupBy(mask) => { let mut k = 0u32; v.dedup_by(|_, _| { tick(); k += 1; (mask >> (k % 8)) & 1 == 1 }); }
                    ZsOp::Drain(a, b, take) => { let (a, b) = (a.min(len), b.min(len)); let mut d = v.drain(a..b); for _ in 0..take { if d.next().is_none() { break; } } }
                    ZsOp::ExtractIf(mask, take) => { let mut k = 0u32; let mut it = v.extract_if(.., |_| { tick(); k += 1; (mask >> (k % 8)) & 1 == 1 }); for _ in 0..take { if it.next().is_none() { break; } } }
                    // BumpVec only (kind 0); on the other kinds they do nothing
                    ZsOp::SpliceVec(a, b, k) => { if kind == 0 { let (a, b) = (a.min(len), b.min(len)); let repl: Vec<H> = (0..k).map(|_| H::new()).collect(); let sp = v.splice(a..b, repl); drop(sp); } }
                    ZsOp::SplitOff(a, b) => { if kind == 0 { let (a, b) = (a.min(len), b.min(len)); let off: Vec<H> = v.drain(a..b).collect(); drop(off); } }
                    ZsOp::IntoIter(_) | ZsOp::MapInPlace => {}
                }
            }
            v.iter().map(|e| e.1).collect()
        }));
        FUSE.with(|f| f.set(-1));
        r.ok()
    }

    /// MutBumpVecRev: every operation acts at the front, i.e. the vector is a std Vec read backwards
    fn shadow_rev(fr: &Frame, fuse: i64, ops: &[ZsOp]) -> Option<Vec<u32>> {
        FUSE.with(|f| f.set(fuse)); VAL.with(|v| v.set(0));
        let n = fr.carg;
        let r = catch_unwind(AssertUnwindSafe(|| -> Vec<u32> {
            let mut v: Vec<H> = match fr.ctor {
                0 => vec![H::new(); n],
                1 | 2 => (0..n).map(|_| { tick(); H::new() }).collect(),
                3 => { let mut s: Vec<H> = (0..n).map(|_| H::new()).collect(); s.reverse(); s }
                4 => { let a = H::new(); let b = H::new(); vec![b, a] }
                _ => Vec::new(),
            };
            for op in ops.iter() {
                let len = v.len();
                match *op {
                    ZsOp::Push => v.push(H::new()),
                    ZsOp::PushWith => { tick(); v.push(H::new()); }
                    ZsOp::PopIf(m) => { let _ = v.pop_if(|_| { tick(); m % 2 == 0 }); }
                    ZsOp::InsertMut(i) | ZsOp::Insert(i) => { let i = i.min(len); v.insert(len - i, H::new()); }
                    ZsOp::Resize(k) => v.resize(k, H::new()),
                    ZsOp::ResizeWith(k) => v.resize_with(k, || { tick(); H::new() }),
                    ZsOp::ExtendClone(k) => { let src: Vec<H> = (0..k).map(|_| H::new()).collect(); v.extend(src.iter().rev().cloned()); }
                    ZsOp::WithinClone(k) => { let m = k.min(len); v.extend_from_within(len - m..len); }
                    ZsOp::Truncate(k) => v.truncate(k),
                    ZsOp::Pop => { v.pop(); }
                    ZsOp::Remove(i) => { if i < len { v.remove(len - 1 - i); } }
                    ZsOp::SwapRemove(i) => { if i < len { v.swap_remove(len - 1 - i); } }
                    ZsOp::Clear => v.clear(),
                    ZsOp::AppendVec(k) => { let src: Vec<H> = (0..k).map(|_| H::new()).collect(); v.extend(src.into_iter().rev()); }
                    ZsOp::AppendDrain(k) => { let mut src: Vec<H> = (0..k + 2).map(|_| H::new()).collect(); let d: Vec<H> = src.drain(1..k + 1).collect(); v.extend(d.into_iter().rev()); }
                    ZsOp::AppendArray => { let (a, b, c) = (H::new(), H::new(), H::new()); v.extend([c, b, a]); }
                    _ => {}
                }
            }
            v.iter().rev().map(|e| e.1).collect()
        }));
        FUSE.with(|f| f.set(-1));
        r.ok()
    }
}
