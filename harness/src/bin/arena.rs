//! Arena correspondence harness: drives the REAL crate through its public API over the
//! instrumented base allocator and writes a trace that the extracted Coq model replays.
#![allow(dead_code, unused, clippy::all)]
use bump_scope::alloc::{AllocError, Allocator};
use bump_scope::settings::BumpSettings;
use bump_scope::traits::{BumpAllocator, BumpAllocatorCore, BumpAllocatorScope, BumpAllocatorTyped, BumpAllocatorTypedScope};
use bump_scope::{Bump, BumpBox, BumpScope, WithoutDealloc, WithoutShrink};
use core::alloc::Layout;
use core::ptr::NonNull;
use std::fmt::Write as _;
use std::io::Write as _;
use std::panic::{AssertUnwindSafe, catch_unwind};
use verif_harness::arena_core::*;
use verif_harness::pool::{Ev, P32, P64, TA, with_pool};
use verif_harness::{Rng, arg};

/// runs operations on `scope` until a ScopeExit / End; returns true if the exit is by panic
fn run_scope<A, S>(st: &mut St, scope: &mut BumpScope<'_, A, S>) -> bool
where
    A: bump_scope::BaseAllocator<S::GuaranteedAllocated>,
    S: bump_scope::settings::BumpAllocatorSettings,
{
    loop {
        let (fail, op) = st.next_op(false);
        match op {
            Op::End => return false,
            Op::ScopeExit { panic } => return panic,
            Op::ScopeEnter => scope_enter(st, scope),
            Op::Reset | Op::ResetToStart => {}
            Op::TryErr { mutable, ty } => try_err(st, scope, fail, mutable, ty),
            other => guarded_exec(st, scope, fail, &other),
        }
        if st.dead { return false; }
    }
}

fn scope_enter<A, S>(st: &mut St, scope: &mut BumpScope<'_, A, S>)
where
    A: bump_scope::BaseAllocator<S::GuaranteedAllocated>,
    S: bump_scope::settings::BumpAllocatorSettings,
{
    let _ = writeln!(st.out, "O SC {}", st.h);
    st.epoch += 1;
    let ep = st.epoch;
    let ncp = st.cp_store.len();
    let _ = writeln!(st.out, "R U");
    stats_line(st, scope);
    st.depth += 1;
    let alloc_before = scope.stats().allocated();
    let pos_before = scope.stats().current_chunk().map(|c| c.bump_position().as_ptr() as usize);
    let count_before = scope.stats().count();
    let stp: *mut St = st;
    let r = catch_unwind(AssertUnwindSafe(|| {
        scope.scoped(|inner| {
            let st = unsafe { &mut *stp };
            if run_scope(st, inner) {
                panic!("scripted panic inside scope");
            }
        })
    }));
    st.depth -= 1;
    if st.dead { return; }
    let _ = writeln!(st.out, "O SX {} {}", st.h, r.is_err() as u8);
    st.epoch += 1;
    st.cp_store.truncate(ncp);
    st.blocks.retain(|b| b.born < ep);
    events_lines(st);
    let _ = writeln!(st.out, "R U");
    // C03 on the implementation's own numbers
    let alloc_after = scope.stats().allocated();
    let pos_after = scope.stats().current_chunk().map(|c| c.bump_position().as_ptr() as usize);
    if alloc_after != alloc_before && pos_before.is_some() {
        st.x("scope-exit-did-not-restore-allocated", &format!("before={alloc_before} after={alloc_after}"));
    }
    if pos_before.is_some() && pos_after != pos_before {
        st.x("scope-exit-did-not-restore-position", &format!("before={pos_before:?} after={pos_after:?}"));
    }
    if scope.stats().count() < count_before {
        st.x("scope-exit-released-a-chunk", "");
    }
    stats_line(st, scope);
    monitors(st);
}

fn run_one<A, S>(st: &mut St, init: u8, init_arg: (usize, usize), unalloc: Option<fn() -> Bump<A, S>>)
where
    A: bump_scope::BaseAllocator<S::GuaranteedAllocated> + Default,
    S: bump_scope::settings::BumpAllocatorSettings,
{
    use bump_scope::settings::BumpAllocatorSettings as BS;
    let _ = writeln!(st.out, "CFG {} {} {} {} {} {} {} {}", S::UP as u8, S::MIN_ALIGN, S::GUARANTEED_ALLOCATED as u8,
                     S::DEALLOCATES as u8, S::SHRINKS as u8, S::MINIMUM_CHUNK_SIZE, header_size::<A>(), header_align::<A>());
    // initial state
    let bump: Option<Bump<A, S>> = match init {
        1 => {
            let _ = writeln!(st.out, "INIT S {}", init_arg.0);
            Bump::<A, S>::try_with_size_in(init_arg.0, A::default()).ok()
        }
        2 => {
            let _ = writeln!(st.out, "INIT C {} {}", init_arg.0, init_arg.1);
            Bump::<A, S>::try_with_capacity_in(Layout::from_size_align(init_arg.0, init_arg.1).unwrap(), A::default()).ok()
        }
        3 if unalloc.is_some() => {
            let _ = writeln!(st.out, "INIT U");
            Some((unalloc.unwrap())())
        }
        _ => {
            let _ = writeln!(st.out, "INIT N");
            Bump::<A, S>::try_new_in(A::default()).ok()
        }
    };
    events_lines(st);
    let Some(mut bump) = bump else {
        let _ = writeln!(st.out, "R E");
        let _ = writeln!(st.out, "END");
        return;
    };
    let _ = writeln!(st.out, "R U");
    stats_line(st, bump.as_scope());
    loop {
        let (fail, op) = st.next_op(true);
        match op {
            Op::End => break,
            Op::ScopeExit { .. } => {}
            Op::ScopeEnter => scope_enter(st, bump.as_mut_scope()),
            Op::Reset => {
                let _ = writeln!(st.out, "O RS");
                let before: Vec<usize> = bump.stats().small_to_big().map(|c| c.size()).collect();
                bump.reset();
                st.epoch += 1;
                st.cp_store.clear();
                st.blocks.clear();
                events_lines(st);
                let _ = writeln!(st.out, "R U");
                let after: Vec<usize> = bump.stats().small_to_big().map(|c| c.size()).collect();
                if !before.is_empty() && (after.len() != 1 || after[0] != *before.iter().max().unwrap()) {
                    st.x("reset-did-not-keep-exactly-the-largest-chunk", &format!("before={before:?} after={after:?}"));
                }
                if bump.stats().allocated() != 0 {
                    st.x("reset-left-bytes-allocated", "");
                }
                stats_line(st, bump.as_scope());
            }
            Op::ResetToStart => {
                let _ = writeln!(st.out, "O R0");
                let calls = with_pool(|p| p.calls);
                bump.reset_to_start();
                st.epoch += 1;
                st.cp_store.clear();
                st.blocks.clear();
                events_lines(st);
                let _ = writeln!(st.out, "R U");
                if with_pool(|p| p.calls) != calls {
                    st.x("reset-to-start-called-the-base-allocator", "");
                }
                {
                    // everything is free again and the FIRST chunk is the current one
                    let stats = bump.stats();
                    let first = stats.small_to_big().next().map(|c| c.chunk_start().as_ptr() as usize);
                    let cur = stats.current_chunk().map(|c| c.chunk_start().as_ptr() as usize);
                    if stats.allocated() != 0 || first != cur {
                        st.x("reset-to-start-did-not-rewind-to-the-first-chunk", &format!("allocated={} after reset_to_start", stats.allocated()));
                    }
                }
                stats_line(st, bump.as_scope());
            }
            Op::TryErr { mutable, ty } => try_err(st, bump.as_mut_scope(), fail, mutable, ty),
            other => guarded_exec(st, bump.as_scope(), fail, &other),
        }
        if st.dead { break; }
    }
    if st.dead {
        // state unknown after a panic inside the crate: do not touch the arena again
        core::mem::forget(bump);
        let _ = writeln!(st.out, "END");
        return;
    }
    // drop: every chunk goes back exactly once
    let _ = writeln!(st.out, "O DROP");
    st.blocks.clear();
    drop(bump);
    events_lines(st);
    let _ = writeln!(st.out, "R U");
    let (live, allocs, deallocs) = with_pool(|p| { p.final_check(); (p.live.len(), p.total_allocs, p.total_deallocs) });
    if live != 0 || allocs != deallocs {
        st.x("chunks-not-released-exactly-once-by-drop", &format!("outstanding={live} allocs={allocs} deallocs={deallocs}"));
    }
    let errs: Vec<String> = with_pool(|p| std::mem::take(&mut p.errors));
    for e in errs {
        st.x("base-allocator-ledger", &e);
    }
    let _ = writeln!(st.out, "END");
}

// ------------------------------------------------------------------ settings x allocator matrix
macro_rules! cfg_run {
    ($st:expr, $init:expr, $ia:expr, $ma:literal, $up:literal, false, $de:literal, $sh:literal, $mc:literal, $p:ty) => {
        run_one::<TA<$p>, BumpSettings<$ma, $up, false, true, $de, $sh, $mc>>($st, $init, $ia,
            Some(Bump::<TA<$p>, BumpSettings<$ma, $up, false, true, $de, $sh, $mc>>::unallocated as fn() -> _))
    };
    ($st:expr, $init:expr, $ia:expr, $ma:literal, $up:literal, true, $de:literal, $sh:literal, $mc:literal, $p:ty) => {
        run_one::<TA<$p>, BumpSettings<$ma, $up, true, true, $de, $sh, $mc>>($st, $init, $ia, None)
    };
}

macro_rules! matrix {
    ($idx:expr, $st:expr, $init:expr, $ia:expr; $( $n:literal => ($ma:literal, $up:literal, $ga:tt, $de:literal, $sh:literal, $mc:literal, $p:ty) ),* $(,)?) => {
        match $idx {
            $( $n => cfg_run!($st, $init, $ia, $ma, $up, $ga, $de, $sh, $mc, $p), )*
            _ => unreachable!(),
        }
    };
}

const NCFG: usize = 40;

fn dispatch(idx: usize, st: &mut St, init: u8, ia: (usize, usize)) {
    matrix!(idx, st, init, ia;
        0 => (1, true, true, true, true, 512, ()),
        1 => (1, false, true, true, true, 512, ()),
        2 => (8, true, true, true, true, 512, u64),
        3 => (8, false, true, true, true, 512, u64),
        4 => (16, true, true, true, true, 64, P32),
        5 => (16, false, true, true, true, 64, P32),
        6 => (4, true, true, true, true, 4096, P64),
        7 => (4, false, true, true, true, 4096, P64),
        8 => (2, true, false, true, true, 512, ()),
        9 => (2, false, false, true, true, 512, ()),
        10 => (1, true, true, false, true, 64, u64),
        11 => (1, false, true, false, true, 64, u64),
        12 => (8, true, true, true, false, 64, ()),
        13 => (8, false, true, true, false, 64, ()),
        14 => (16, true, true, false, false, 512, ()),
        15 => (16, false, true, false, false, 512, ()),
        16 => (4, true, false, true, true, 64, u64),
        17 => (4, false, false, true, true, 64, u64),
        18 => (2, true, true, true, true, 64, P32),
        19 => (2, false, true, true, true, 64, P32),
        20 => (1, true, false, false, true, 4096, P64),
        21 => (1, false, false, false, true, 4096, P64),
        22 => (8, true, false, true, false, 512, P32),
        23 => (8, false, false, true, false, 512, P32),
        24 => (16, true, false, true, true, 4096, u64),
        25 => (16, false, false, true, true, 4096, u64),
        26 => (4, true, true, false, false, 4096, P32),
        27 => (4, false, true, false, false, 4096, P32),
        28 => (2, true, true, false, true, 4096, ()),
        29 => (2, false, true, false, true, 4096, ()),
        30 => (1, true, true, true, false, 512, P64),
        31 => (1, false, true, true, false, 512, P64),
        32 => (8, true, true, false, true, 512, P64),
        33 => (8, false, true, false, true, 512, P64),
        34 => (16, true, false, false, false, 64, P64),
        35 => (16, false, false, false, false, 64, P64),
        36 => (4, true, false, false, true, 512, ()),
        37 => (4, false, false, false, true, 512, ()),
        38 => (2, true, false, true, false, 64, u64),
        39 => (2, false, false, true, false, 64, u64),
    );
}

fn parse_script(path: &str) -> Vec<(usize, u64, u8, u8, (usize, usize), Vec<(bool, Op)>)> {
    // replays the O-lines of a trace: RUN idx seed overgrant ; INIT ... ; FAIL ; O ...
    let text = std::fs::read_to_string(path).expect("cannot read script");
    let mut runs = vec![];
    let mut fail = false;
    for l in text.lines() {
        let f: Vec<&str> = l.split_whitespace().collect();
        if f.is_empty() { continue; }
        let n = |i: usize| f[i].parse::<usize>().unwrap();
        match f[0] {
            "RUN" => runs.push((n(2), f[3].parse::<u64>().unwrap(), n(4) as u8, 0u8, (0usize, 0usize), vec![])),
            "INIT" => {
                let r = runs.last_mut().unwrap();
                match f[1] { "S" => { r.3 = 1; r.4 = (n(2), 0); } "C" => { r.3 = 2; r.4 = (n(2), n(3)); } "U" => { r.3 = 3; } _ => { r.3 = 0; } }
            }
            "FAIL" => fail = true,
            "O" => {
                let r = runs.last_mut().unwrap();
                let op = match f[1] {
                    "A" => Some(Op::Alloc { w: n(3) as u8, size: n(4), align: n(5), cls: match n(7) { 1 | 2 => 0, 5 => 4, x => x as u8 }, ty: 0, len: 0 }),
                    "D" => Some(Op::Dealloc { w: n(3) as u8, b: n(4) }),
                    "G" => Some(Op::Grow { w: n(3) as u8, b: n(4), size: n(5), align: n(6), zeroed: n(7) == 1 }),
                    "S" => Some(Op::Shrink { w: n(3) as u8, b: n(4), size: n(5), align: n(6) }),
                    "SP" => Some(Op::Split { b: n(3), mid: n(4) }),
                    "CP" => Some(Op::Checkpoint),
                    "RT" => Some(Op::ResetTo { cp: n(3) }),
                    "SC" => Some(Op::ScopeEnter),
                    "SX" => Some(Op::ScopeExit { panic: n(3) == 1 }),
                    "RS" => Some(Op::Reset),
                    "R0" => Some(Op::ResetToStart),
                    "RV" => Some(Op::Reserve { n: n(3) }),
                    "TW" => Some(Op::TryErr { mutable: n(3) == 1, ty: match n(4) { x if x <= 8 => 0, x if x <= 32 => 1, x if x <= 104 => 2, x if x <= 1004 => 3, x if x <= 5608 => 4, _ => 5 } }),
                    _ => None, // F and DROP are issued by the harness itself
                };
                if let Some(op) = op { r.5.push((fail, op)); }
                fail = false;
            }
            _ => {}
        }
    }
    runs
}

fn main() {
    assert_eq!(core::mem::size_of::<usize>(), 8);
    let seed: u64 = arg("--seed", 1);
    let runs: usize = arg("--runs", 40);
    let ops: usize = arg("--ops", 60);
    let script: String = arg("--script", String::new());
    let only: i64 = arg("--cfg", -1);
    let verbose = arg("--verbose-panics", 0u8) != 0;
    std::panic::set_hook(Box::new(move |info| {
        LAST_PANIC.with(|m| *m.borrow_mut() = format!("{info}"));
        if verbose { eprintln!("{info}"); }
    }));
    let mut mk = |rng: Rng, script: Option<Vec<(bool, Op)>>, ops: usize, fail_rate: u64, big: bool| St {
        out: String::new(), rng, script: script.map(|v| v.into()), blocks: vec![], next_id: 0, seed_ctr: 0, epoch: 0,
        cp_store: vec![], next_cp: 0, ops_left: ops, depth: 0, max_depth: 6, fail_rate, big, xlines: 0, dead: false, second_newest: 0, h: 0,
    };
    if !script.is_empty() {
        for (idx, sd, og, init, ia, opsv) in parse_script(&script) {
            with_pool(|p| p.reset(sd, og));
            let mut st = mk(Rng::new(sd), Some(opsv), 0, 0, false);
            let _ = writeln!(st.out, "RUN 0 {idx} {sd} {og}");
            dispatch(idx, &mut st, init, ia);
            flush(&mut st);
        }
        return;
    }
    let mut master = Rng::new(seed);
    for i in 0..runs {
        let idx = if only >= 0 { only as usize } else { (i + seed as usize) % NCFG };
        let sd = master.next();
        let og = (master.below(4)) as u8;
        with_pool(|p| p.reset(sd, og));
        let mut r = Rng::new(sd ^ 0x5555);
        let init = r.below(4) as u8;
        let ia = match init {
            1 => (r.pick(&[0usize, 1, 100, 512, 1000, 4096, 10000]), 0),
            2 => (r.pick(&[0usize, 1, 17, 400, 401, 4000, 70000]), 1usize << r.below(9)),
            _ => (0, 0),
        };
        let fail_rate = r.pick(&[0u64, 0, 3, 10]);
        let big = r.coin(1, 5);
        let nops = if r.coin(1, 6) { ops * 3 } else { ops };
        let mut st = mk(r, None, nops, fail_rate, big);
        let _ = writeln!(st.out, "RUN {i} {idx} {sd} {og}");
        dispatch(idx, &mut st, init, ia);
        flush(&mut st);
    }
}
