//! Arena correspondence harness: drives the REAL crate through its public API over the
//! instrumented base allocator and writes a trace (operation, base-allocator events, result,
//! statistics, block contents) that the extracted Coq model replays.  Property monitors run on
//! the implementation's own observations and print `X <kind> ...` lines.
#![allow(dead_code, unused, clippy::all)]
use bump_scope::alloc::{AllocError, Allocator};
use bump_scope::settings::BumpSettings;
use bump_scope::traits::{BumpAllocator, BumpAllocatorCore, BumpAllocatorScope, BumpAllocatorTyped, BumpAllocatorTypedScope};
use bump_scope::{Bump, BumpBox, BumpScope, WithoutDealloc, WithoutShrink};
use core::alloc::Layout;
use core::ptr::NonNull;
use std::fmt::Write as _;
use std::io::Write as _;
use std::panic::{AssertUnwindSafe, catch_unwind};
use verif_harness::pool::{Ev, P32, P64, TA, with_pool};
use verif_harness::{Rng, arg};

// ------------------------------------------------------------------ scripted operations
#[derive(Clone, Debug)]
enum Op {
    /// cls: 0 Allocator::allocate, 1 typed slice, 2 typed sized, 3 allocate_zeroed
    Alloc { w: u8, size: usize, align: usize, cls: u8, ty: u8, len: usize },
    Dealloc { w: u8, b: usize },
    Grow { w: u8, b: usize, size: usize, align: usize, zeroed: bool },
    Shrink { w: u8, b: usize, size: usize, align: usize },
    Checkpoint,
    ResetTo { cp: usize },
    ScopeEnter,
    ScopeExit { panic: bool },
    Reset,
    ResetToStart,
    Reserve { n: usize },
    /// alloc_try_with(_mut) whose closure returns Err; ty selects the payload size
    TryErr { mutable: bool, ty: u8 },
    End,
}

struct Blk {
    id: usize,
    ptr: usize,
    size: usize,
    align: usize,
    shadow: Vec<u8>,
    born: u64,
}

struct St {
    out: String,
    rng: Rng,
    script: Option<std::collections::VecDeque<(bool, Op)>>,
    blocks: Vec<Blk>,
    next_id: usize,
    seed_ctr: u64,
    epoch: u64,
    cp_store: Vec<(usize, u64, bump_scope::Checkpoint)>, // (cp id, epoch, Checkpoint)
    next_cp: usize,
    ops_left: usize,
    depth: usize,
    max_depth: usize,
    fail_rate: u64,
    big: bool,
    xlines: usize,
    dead: bool,
}

fn pattern(seed: u64, i: usize) -> u8 {
    ((seed.wrapping_mul(31).wrapping_add((i as u64).wrapping_mul(7)).wrapping_add(1)) % 251 + 1) as u8
}

const TY_SIZED: &[(usize, usize)] = &[(1, 1), (3, 1), (2, 2), (4, 4), (13, 1), (8, 8), (16, 16), (40, 8), (32, 32), (128, 64), (20, 4), (17, 1)];
const TY_SLICE: &[(usize, usize)] = &[(1, 1), (2, 2), (4, 4), (8, 8), (16, 16), (32, 32), (12, 4)];

#[derive(Clone, Copy)] #[repr(align(32))] struct T32([u8; 32]);
#[derive(Clone, Copy)] #[repr(align(64))] struct T64([u8; 128]);

impl St {
    fn x(&mut self, kind: &str, detail: &str) {
        if self.xlines < 50 {
            let _ = writeln!(self.out, "X {kind} {detail}");
        }
        self.xlines += 1;
    }

    /// choose the next operation (online generation, or the next line of a replay script)
    fn next_op(&mut self, top_level: bool) -> (bool, Op) {
        if let Some(s) = &mut self.script {
            return s.pop_front().unwrap_or((false, Op::End));
        }
        if self.ops_left == 0 {
            return (false, if self.depth > 0 { Op::ScopeExit { panic: false } } else { Op::End });
        }
        self.ops_left -= 1;
        let fail = self.rng.below(100) < self.fail_rate;
        let r = &mut self.rng;
        let nb = self.blocks.len();
        loop {
            let k = r.below(100);
            let w = if r.coin(3, 4) { 0 } else { r.range(1, 4) as u8 };
            let op = match k {
                0..=37 => {
                    let cls = match r.below(10) { 0..=4 => 0, 5..=6 => 1, 7..=8 => 2, _ => 3 };
                    match cls {
                        1 => {
                            let ty = r.below(TY_SLICE.len() as u64) as u8;
                            let (es, ea) = TY_SLICE[ty as usize];
                            let len = match r.below(6) { 0 => 0, 1..=3 => r.range(1, 12) as usize, 4 => r.range(10, 200) as usize, _ => r.range(100, 3000) as usize };
                            Op::Alloc { w: 0, size: es * len, align: ea, cls, ty, len }
                        }
                        2 => {
                            let ty = r.below(TY_SIZED.len() as u64) as u8;
                            let (s, a) = TY_SIZED[ty as usize];
                            Op::Alloc { w: 0, size: s, align: a, cls, ty, len: 0 }
                        }
                        _ => {
                            let align = 1usize << match r.below(10) { 0..=5 => r.below(5), 6..=8 => r.below(8), _ => r.below(13) };
                            let size = match r.below(12) {
                                0 => 0,
                                1..=4 => r.below(40) as usize,
                                5..=7 => r.below(400) as usize,
                                8..=9 => r.below(3000) as usize,
                                10 => r.below(20000) as usize,
                                _ => if self.big { r.below(300000) as usize } else { r.below(5000) as usize },
                            };
                            Op::Alloc { w, size, align, cls, ty: 0, len: 0 }
                        }
                    }
                }
                38..=49 if nb > 0 => {
                    // bias towards the newest block (the one that can be reclaimed)
                    let b = if r.coin(2, 3) { self.blocks[nb - 1].id } else { self.blocks[r.below(nb as u64) as usize].id };
                    Op::Dealloc { w, b }
                }
                50..=61 if nb > 0 => {
                    let i = if r.coin(2, 3) { nb - 1 } else { r.below(nb as u64) as usize };
                    let blk = &self.blocks[i];
                    let add = match r.below(6) { 0 => 0, 1..=3 => r.below(64) as usize, 4 => r.below(2000) as usize, _ => r.below(20000) as usize };
                    let align = if r.coin(3, 4) { blk.align } else { 1usize << r.below(8) };
                    Op::Grow { w, b: blk.id, size: blk.size + add, align, zeroed: r.coin(1, 3) }
                }
                62..=73 if nb > 0 => {
                    let i = if r.coin(2, 3) { nb - 1 } else { r.below(nb as u64) as usize };
                    let blk = &self.blocks[i];
                    let size = if blk.size == 0 { 0 } else { r.below(blk.size as u64 + 1) as usize };
                    let align = if r.coin(2, 3) { blk.align } else { 1usize << r.below(8) };
                    Op::Shrink { w, b: blk.id, size, align }
                }
                74..=78 => Op::Checkpoint,
                79..=83 if !self.cp_store.is_empty() => {
                    let i = r.below(self.cp_store.len() as u64) as usize;
                    Op::ResetTo { cp: self.cp_store[i].0 }
                }
                84..=88 if self.depth < self.max_depth => Op::ScopeEnter,
                89..=92 if self.depth > 0 => Op::ScopeExit { panic: r.coin(1, 4) },
                93..=94 if top_level => Op::Reset,
                95 if top_level => Op::ResetToStart,
                96..=97 => Op::TryErr { mutable: r.coin(1, 2), ty: r.below(6) as u8 },
                98..=99 => Op::Reserve { n: match r.below(4) { 0 => r.below(64) as usize, 1 => r.below(5000) as usize, 2 => r.below(100000) as usize, _ => r.below(2000) as usize } },
                _ => continue,
            };
            return (fail, op);
        }
    }
}

// ------------------------------------------------------------------ the generic driver
trait Cfg {
    type A: bump_scope::BaseAllocator<<Self::S as bump_scope::settings::BumpAllocatorSettings>::GuaranteedAllocated> + Clone + Default + 'static;
    type S: bump_scope::settings::BumpAllocatorSettings + 'static;
}

fn stats_line<A, S>(st: &mut St, scope: &BumpScope<'_, A, S>)
where
    A: bump_scope::BaseAllocator<S::GuaranteedAllocated>,
    S: bump_scope::settings::BumpAllocatorSettings,
{
    let s = scope.stats();
    let a = scope.any_stats();
    let mut line = String::new();
    let cur_start = s.current_chunk().map(|c| c.chunk_start().as_ptr() as usize);
    let mut cur_idx: i64 = if scope.is_claimed() { -2 } else { -1 };
    let mut chunks = vec![];
    for (i, c) in s.small_to_big().enumerate() {
        let start = c.chunk_start().as_ptr() as usize;
        if Some(start) == cur_start {
            cur_idx = i as i64;
        }
        chunks.push((start, c.size(), c.bump_position().as_ptr() as usize, c.capacity(), c.allocated(), c.remaining(),
                     c.content_start().as_ptr() as usize, c.content_end().as_ptr() as usize, c.chunk_end().as_ptr() as usize));
    }
    let _ = write!(line, "T {} {} {} {} {} {}", s.count(), s.size(), s.capacity(), s.allocated(), s.remaining(), cur_idx);
    for c in &chunks {
        let _ = write!(line, " {}:{}:{}", c.0, c.1, c.2);
    }
    let _ = writeln!(st.out, "{line}");
    flush(st);
    // ---- C10 monitors on the implementation's own numbers
    if s.allocated() + s.remaining() != s.capacity() || s.capacity() > s.size() || s.count() != chunks.len() {
        st.x("stats-identity", &format!("count={} size={} capacity={} allocated={} remaining={} chunks={}", s.count(), s.size(), s.capacity(), s.allocated(), s.remaining(), chunks.len()));
    }
    // forwards == backwards
    let back: Vec<usize> = s.big_to_small().map(|c| c.chunk_start().as_ptr() as usize).collect();
    let fwd: Vec<usize> = chunks.iter().map(|c| c.0).collect();
    if back.iter().rev().copied().collect::<Vec<_>>() != fwd {
        st.x("chunk-list-forward-backward-differ", "");
    }
    for w in chunks.windows(2) {
        if w[1].1 <= w[0].1 {
            st.x("chunk-not-larger-than-predecessor", &format!("{} then {}", w[0].1, w[1].1));
        }
    }
    for c in &chunks {
        if c.1 % 16 != 0 {
            st.x("chunk-size-not-multiple-of-16", &format!("{}", c.1));
        }
        if !(c.6 <= c.2 && c.2 <= c.7) {
            st.x("position-outside-content-range", &format!("pos={} content={}..{}", c.2, c.6, c.7));
        }
        if !with_pool(|p| p.owns(c.0, c.1)) {
            st.x("chunk-outside-granted-block", &format!("start={} size={}", c.0, c.1));
        }
    }
    if let Some(i) = (cur_idx >= 0).then_some(cur_idx as usize) {
        let m = <S as bump_scope::settings::BumpAllocatorSettings>::MIN_ALIGN;
        if chunks[i].2 % m != 0 {
            st.x("position-not-multiple-of-min-align", &format!("pos={} min_align={m}", chunks[i].2));
        }
    }
    // type-erased statistics must report the same numbers and ranges
    let any: Vec<(usize, usize, usize, usize, usize, usize, usize, usize, usize)> = a
        .small_to_big()
        .map(|c| (c.chunk_start().as_ptr() as usize, c.size(), c.bump_position().as_ptr() as usize, c.capacity(), c.allocated(), c.remaining(),
                  c.content_start().as_ptr() as usize, c.content_end().as_ptr() as usize, c.chunk_end().as_ptr() as usize))
        .collect();
    if (a.count(), a.size(), a.capacity(), a.allocated(), a.remaining()) != (s.count(), s.size(), s.capacity(), s.allocated(), s.remaining()) || any != chunks {
        st.x("any-stats-differ-from-typed-stats",
             &format!("typed=({},{},{},{},{}) any=({},{},{},{},{}) header_size={}", s.count(), s.size(), s.capacity(), s.allocated(), s.remaining(),
                      a.count(), a.size(), a.capacity(), a.allocated(), a.remaining(), header_size::<A>()));
    }
}

fn flush(st: &mut St) {
    let so = std::io::stdout();
    let mut l = so.lock();
    let _ = l.write_all(st.out.as_bytes());
    let _ = l.flush();
    st.out.clear();
}

fn header_size<A>() -> usize {
    #[repr(C, align(16))]
    struct H<A> { a: [usize; 4], b: A }
    core::mem::size_of::<H<A>>()
}
fn header_align<A>() -> usize {
    #[repr(C, align(16))]
    struct H<A> { a: [usize; 4], b: A }
    core::mem::align_of::<H<A>>()
}

fn events_lines(st: &mut St) {
    let evs: Vec<Ev> = with_pool(|p| std::mem::take(&mut p.events));
    for e in evs {
        match e {
            Ev::Alloc { size, align, addr, granted } => { let _ = writeln!(st.out, "E A {size} {align} {addr} {granted}"); }
            Ev::Dealloc { addr, size, align } => { let _ = writeln!(st.out, "E D {addr} {size} {align}"); }
        }
    }
    let errs: Vec<String> = with_pool(|p| std::mem::take(&mut p.errors));
    for e in errs {
        st.x("base-allocator-ledger", &e);
    }
}

fn mem_line(st: &mut St, ptr: usize, size: usize) {
    if size > 0 && size <= 512 {
        let s = unsafe { core::slice::from_raw_parts(ptr as *const u8, size) };
        let mut line = String::with_capacity(2 * size + 4);
        line.push_str("M ");
        for b in s {
            let _ = write!(line, "{b:02x}");
        }
        let _ = writeln!(st.out, "{line}");
    }
}

/// C01 / C02 monitors: every live block is inside owned memory, aligned, disjoint from the
/// others, and still holds the bytes its owner wrote.
fn monitors(st: &mut St) {
    let mut msgs = vec![];
    for b in &st.blocks {
        if b.size > 0 && !with_pool(|p| p.owns(b.ptr, b.size)) {
            msgs.push(("block-outside-owned-memory", format!("id={} ptr={} size={}", b.id, b.ptr, b.size)));
        }
        if b.ptr % b.align != 0 {
            msgs.push(("block-misaligned", format!("id={} ptr={} align={}", b.id, b.ptr, b.align)));
        }
        let cur = unsafe { core::slice::from_raw_parts(b.ptr as *const u8, b.size) };
        if cur != &b.shadow[..] {
            let at = cur.iter().zip(b.shadow.iter()).position(|(x, y)| x != y).unwrap_or(0);
            msgs.push(("block-contents-changed", format!("id={} ptr={} size={} first_diff_at={} expected={} found={}", b.id, b.ptr, b.size, at, b.shadow[at], cur[at])));
        }
    }
    let mut iv: Vec<(usize, usize, usize)> = st.blocks.iter().filter(|b| b.size > 0).map(|b| (b.ptr, b.ptr + b.size, b.id)).collect();
    iv.sort();
    for w in iv.windows(2) {
        if w[1].0 < w[0].1 {
            msgs.push(("live-blocks-overlap", format!("id={} [{}..{}) and id={} [{}..{})", w[0].2, w[0].0, w[0].1, w[1].2, w[1].0, w[1].1)));
        }
    }
    for (k, d) in msgs {
        st.x(k, &d);
    }
}

fn fill_new<A, S>(st: &mut St, scope: &BumpScope<'_, A, S>, ptr: usize, size: usize, align: usize, keep_prefix: Option<Vec<u8>>)
where
    A: bump_scope::BaseAllocator<S::GuaranteedAllocated>,
    S: bump_scope::settings::BumpAllocatorSettings,
{
    let id = st.next_id;
    st.next_id += 1;
    // contents right after the operation (prefix preserved / zero tail) are checked by the caller
    st.seed_ctr += 1;
    let seed = st.seed_ctr;
    let _ = writeln!(st.out, "O F {id} {seed}");
    let mut shadow = vec![0u8; size];
    for i in 0..size {
        shadow[i] = pattern(seed, i);
    }
    unsafe { core::ptr::copy_nonoverlapping(shadow.as_ptr(), ptr as *mut u8, size) };
    let _ = writeln!(st.out, "R U");
    st.blocks.push(Blk { id, ptr, size, align, shadow, born: st.epoch });
    st.epoch += 1; // the fill is an operation of its own in the model
    stats_line(st, scope);
}

macro_rules! with_wrapper {
    ($w:expr, $scope:expr, |$a:ident| $body:expr) => {
        match $w {
            0 => { let $a = $scope; $body }
            1 => { let $a = WithoutDealloc($scope); $body }
            2 => { let $a = WithoutShrink($scope); $body }
            3 => { let $a = WithoutDealloc(WithoutShrink($scope)); $body }
            _ => { let $a = WithoutShrink(WithoutDealloc($scope)); $body }
        }
    };
}

fn typed_sized<A, S>(scope: &BumpScope<'_, A, S>, ty: u8) -> Result<usize, AllocError>
where
    A: bump_scope::BaseAllocator<S::GuaranteedAllocated>,
    S: bump_scope::settings::BumpAllocatorSettings,
{
    macro_rules! go { ($t:ty) => { scope.try_alloc_uninit::<$t>().map(|b| BumpBox::into_raw(b).as_ptr() as *mut u8 as usize) }; }
    match ty {
        0 => go!(u8), 1 => go!([u8; 3]), 2 => go!(u16), 3 => go!(u32), 4 => go!([u8; 13]), 5 => go!(u64),
        6 => go!(u128), 7 => go!([u64; 5]), 8 => go!(T32), 9 => go!(T64), 10 => go!([u32; 5]), _ => go!([u8; 17]),
    }
}

fn typed_slice<A, S>(scope: &BumpScope<'_, A, S>, ty: u8, len: usize) -> Result<usize, AllocError>
where
    A: bump_scope::BaseAllocator<S::GuaranteedAllocated>,
    S: bump_scope::settings::BumpAllocatorSettings,
{
    macro_rules! go { ($t:ty) => { scope.try_alloc_uninit_slice::<$t>(len).map(|b| BumpBox::into_raw(b).as_ptr() as *mut u8 as usize) }; }
    match ty {
        0 => go!(u8), 1 => go!(u16), 2 => go!(u32), 3 => go!(u64), 4 => go!(u128), 5 => go!(T32), _ => go!([u32; 3]),
    }
}

/// executes one non-structural operation on the active scope
fn exec<A, S>(st: &mut St, scope: &BumpScope<'_, A, S>, fail: bool, op: &Op)
where
    A: bump_scope::BaseAllocator<S::GuaranteedAllocated>,
    S: bump_scope::settings::BumpAllocatorSettings,
{
    flush(st);
    if fail {
        let _ = writeln!(st.out, "FAIL");
        with_pool(|p| p.fail_next = true);
    }
    let find = |st: &St, id: usize| st.blocks.iter().position(|b| b.id == id);
    match op {
        Op::Alloc { w, size, align, cls, ty, len } => {
            let _ = writeln!(st.out, "O A 0 {w} {size} {align} {} {cls}", (*cls == 3) as u8);
            let layout = Layout::from_size_align(*size, *align).unwrap();
            let res: Result<usize, AllocError> = match cls {
                1 => typed_slice(scope, *ty, *len),
                2 => typed_sized(scope, *ty),
                3 => with_wrapper!(*w, scope, |a| a.allocate_zeroed(layout).map(|p| p.as_ptr() as *mut u8 as usize)),
                _ => with_wrapper!(*w, scope, |a| a.allocate(layout).map(|p| p.as_ptr() as *mut u8 as usize)),
            };
            st.epoch += 1;
            events_lines(st);
            match res {
                Ok(ptr) => {
                    let _ = writeln!(st.out, "R B {ptr} {size}");
                    if *cls == 3 {
                        mem_line(st, ptr, *size);
                        let s = unsafe { core::slice::from_raw_parts(ptr as *const u8, *size) };
                        if s.iter().any(|x| *x != 0) {
                            st.x("zeroed-allocation-not-zero", &format!("ptr={ptr} size={size}"));
                        }
                    }
                    stats_line(st, scope);
                    monitors(st);
                    // blocks of size 0 with typed zero-length slices may be dangling: still tracked
                    fill_new(st, scope, ptr, *size, *align, None);
                }
                Err(_) => {
                    let _ = writeln!(st.out, "R E");
                    stats_line(st, scope);
                    monitors(st);
                }
            }
        }
        Op::Dealloc { w, b } => {
            let Some(i) = find(st, *b) else { return };
            let blk = st.blocks.remove(i);
            let _ = writeln!(st.out, "O D 0 {w} {}", blk.id);
            let layout = Layout::from_size_align(blk.size, blk.align).unwrap();
            let before = scope.stats().allocated();
            with_wrapper!(*w, scope, |a| unsafe { a.deallocate(NonNull::new(blk.ptr as *mut u8).unwrap(), layout) });
            st.epoch += 1;
            events_lines(st);
            let _ = writeln!(st.out, "R U");
            let after = scope.stats().allocated();
            // C13: opt-outs are honoured
            let dealloc_off = !<S as bump_scope::settings::BumpAllocatorSettings>::DEALLOCATES || matches!(*w, 1 | 3 | 4);
            if dealloc_off && after != before {
                st.x("deallocate-changed-allocated-although-deallocation-is-off", &format!("before={before} after={after}"));
            }
            stats_line(st, scope);
            monitors(st);
        }
        Op::Grow { w, b, size, align, zeroed } => {
            let Some(i) = find(st, *b) else { return };
            let (id, ptr, osize, oalign) = { let k = &st.blocks[i]; (k.id, k.ptr, k.size, k.align) };
            let _ = writeln!(st.out, "O G 0 {w} {id} {size} {align} {}", *zeroed as u8);
            let old = Layout::from_size_align(osize, oalign).unwrap();
            let new = Layout::from_size_align(*size, *align).unwrap();
            let p = NonNull::new(ptr as *mut u8).unwrap();
            let res = with_wrapper!(*w, scope, |a| unsafe { if *zeroed { a.grow_zeroed(p, old, new) } else { a.grow(p, old, new) } });
            st.epoch += 1;
            events_lines(st);
            match res {
                Ok(np) => {
                    let blk = st.blocks.remove(i);
                    let (nptr, nlen) = (np.as_ptr() as *mut u8 as usize, np.len());
                    let _ = writeln!(st.out, "R B {nptr} {nlen}");
                    mem_line(st, nptr, nlen);
                    let cur = unsafe { core::slice::from_raw_parts(nptr as *const u8, nlen) };
                    if cur[..osize] != blk.shadow[..] {
                        st.x("grow-lost-contents", &format!("id={id} old_ptr={ptr} new_ptr={nptr} old_size={osize} new_size={nlen}"));
                    }
                    if *zeroed && cur[osize..*size].iter().any(|x| *x != 0) {
                        st.x("grow-zeroed-tail-not-zero", &format!("id={id} new_ptr={nptr} old_size={osize} new_size={nlen} wrapper={w}"));
                    }
                    if nlen < *size {
                        st.x("block-smaller-than-requested", &format!("requested={size} got={nlen}"));
                    }
                    stats_line(st, scope);
                    monitors(st);
                    fill_new(st, scope, nptr, nlen, *align, None);
                }
                Err(_) => {
                    let _ = writeln!(st.out, "R E");
                    stats_line(st, scope);
                    monitors(st);
                }
            }
        }
        Op::Shrink { w, b, size, align } => {
            let Some(i) = find(st, *b) else { return };
            let (id, ptr, osize, oalign) = { let k = &st.blocks[i]; (k.id, k.ptr, k.size, k.align) };
            let _ = writeln!(st.out, "O S 0 {w} {id} {size} {align}");
            let old = Layout::from_size_align(osize, oalign).unwrap();
            let new = Layout::from_size_align(*size, *align).unwrap();
            let p = NonNull::new(ptr as *mut u8).unwrap();
            let before = scope.stats().allocated();
            let res = with_wrapper!(*w, scope, |a| unsafe { a.shrink(p, old, new) });
            st.epoch += 1;
            events_lines(st);
            match res {
                Ok(np) => {
                    let blk = st.blocks.remove(i);
                    let (nptr, nlen) = (np.as_ptr() as *mut u8 as usize, np.len());
                    let _ = writeln!(st.out, "R B {nptr} {nlen}");
                    mem_line(st, nptr, nlen);
                    let cur = unsafe { core::slice::from_raw_parts(nptr as *const u8, nlen) };
                    let keep = (*size).min(osize);
                    if cur[..keep] != blk.shadow[..keep] {
                        st.x("shrink-lost-contents", &format!("id={id} old_ptr={ptr} new_ptr={nptr} old_size={osize} new_size={size}"));
                    }
                    if nlen < *size {
                        st.x("block-smaller-than-requested", &format!("requested={size} got={nlen}"));
                    }
                    let after = scope.stats().allocated();
                    let shrink_off = !<S as bump_scope::settings::BumpAllocatorSettings>::SHRINKS || matches!(*w, 2 | 3 | 4);
                    if shrink_off && after < before {
                        st.x("shrink-decreased-allocated-although-shrinking-is-off", &format!("before={before} after={after} wrapper={w}"));
                    }
                    stats_line(st, scope);
                    monitors(st);
                    fill_new(st, scope, nptr, nlen, *align, None);
                }
                Err(_) => {
                    let _ = writeln!(st.out, "R E");
                    stats_line(st, scope);
                    monitors(st);
                }
            }
        }
        Op::Checkpoint => {
            let _ = writeln!(st.out, "O CP 0");
            let cp = scope.checkpoint();
            st.epoch += 1;
            let id = st.next_cp;
            st.next_cp += 1;
            st.cp_store.push((id, st.epoch, cp));
            events_lines(st);
            let _ = writeln!(st.out, "R C {id}");
            stats_line(st, scope);
        }
        Op::ResetTo { cp } => {
            let Some(i) = st.cp_store.iter().position(|c| c.0 == *cp) else { return };
            let _ = writeln!(st.out, "O RT 0 {cp}");
            let ep = st.cp_store[i].1;
            let before_chunks = scope.stats().count();
            let c = st.cp_store[i].2;
            unsafe { scope.reset_to(c) };
            st.epoch += 1;
            // checkpoints taken later are no longer valid; this one stays valid
            st.cp_store.truncate(i + 1);
            st.blocks.retain(|b| b.born < ep);
            events_lines(st);
            let _ = writeln!(st.out, "R U");
            if scope.stats().count() < before_chunks {
                st.x("scope-exit-released-a-chunk", "");
            }
            stats_line(st, scope);
            monitors(st);
        }
        Op::Reserve { n } => {
            let _ = writeln!(st.out, "O RV 0 {n}");
            let res = scope.try_reserve(*n);
            st.epoch += 1;
            events_lines(st);
            match res {
                Ok(()) => {
                    let _ = writeln!(st.out, "R U");
                    if scope.stats().remaining() < *n {
                        st.x("reserve-did-not-provide-capacity", &format!("n={n} remaining={}", scope.stats().remaining()));
                    }
                }
                Err(_) => { let _ = writeln!(st.out, "R E"); }
            }
            stats_line(st, scope);
            monitors(st);
        }
        _ => {}
    }
}

fn try_err<A, S>(st: &mut St, scope: &mut BumpScope<'_, A, S>, fail: bool, mutable: bool, ty: u8)
where
    A: bump_scope::BaseAllocator<S::GuaranteedAllocated>,
    S: bump_scope::settings::BumpAllocatorSettings,
{
    flush(st);
    if fail {
        let _ = writeln!(st.out, "FAIL");
        with_pool(|p| p.fail_next = true);
    }
    let before_alloc = scope.stats().allocated();
    let before_pos = scope.stats().current_chunk().map(|c| c.bump_position().as_ptr() as usize);
    let before_count = scope.stats().count();
    macro_rules! go {
        ($t:ty) => {{
            let (sz, al) = (core::mem::size_of::<Result<$t, u32>>(), core::mem::align_of::<Result<$t, u32>>());
            let _ = writeln!(st.out, "O TW 0 {} {sz} {al}", mutable as u8);
            let r: Result<Result<(), u32>, AllocError> = if mutable {
                scope.try_alloc_try_with_mut::<$t, u32>(|| Err(7)).map(|r| r.map(|_| ()))
            } else {
                scope.try_alloc_try_with::<$t, u32>(|| Err(7)).map(|r| r.map(|_| ()))
            };
            r
        }};
    }
    let r = match ty {
        0 => go!(u32),
        1 => go!([u64; 3]),
        2 => go!([u8; 100]),
        3 => go!([u8; 1000]),
        4 => go!([u64; 700]),
        _ => go!([u8; 40000]),
    };
    st.epoch += 1;
    events_lines(st);
    match r {
        Ok(Err(7)) => {
            let _ = writeln!(st.out, "R U");
            // C03: an Err from the closure leaves allocated bytes and position exactly as before
            let after_alloc = scope.stats().allocated();
            let after_pos = scope.stats().current_chunk().map(|c| c.bump_position().as_ptr() as usize);
            if before_pos.is_some() && (after_alloc != before_alloc || after_pos != before_pos) {
                st.x("scope-exit-did-not-restore-position", &format!("alloc_try_with{} returning Err: allocated {before_alloc} -> {after_alloc}, position {before_pos:?} -> {after_pos:?}", if mutable { "_mut" } else { "" }));
            }
            if scope.stats().count() < before_count {
                st.x("scope-exit-released-a-chunk", "");
            }
        }
        Ok(_) => { st.x("panic", "alloc_try_with returned Ok although the closure returned Err"); }
        Err(_) => { let _ = writeln!(st.out, "R E"); }
    }
    stats_line(st, scope);
    monitors(st);
}

/// runs operations on `scope` until a ScopeExit / End; returns true if the exit is by panic
fn run_scope<A, S>(st: &mut St, scope: &mut BumpScope<'_, A, S>) -> bool
where
    A: bump_scope::BaseAllocator<S::GuaranteedAllocated>,
    S: bump_scope::settings::BumpAllocatorSettings,
{
    loop {
        let (fail, op) = st.next_op(false);
        match op {
            Op::End => return false,
            Op::ScopeExit { panic } => return panic,
            Op::ScopeEnter => scope_enter(st, scope),
            Op::Reset | Op::ResetToStart => {}
            Op::TryErr { mutable, ty } => try_err(st, scope, fail, mutable, ty),
            other => guarded_exec(st, scope, fail, &other),
        }
        if st.dead { return false; }
    }
}

fn guarded_exec<A, S>(st: &mut St, scope: &BumpScope<'_, A, S>, fail: bool, op: &Op)
where
    A: bump_scope::BaseAllocator<S::GuaranteedAllocated>,
    S: bump_scope::settings::BumpAllocatorSettings,
{
    let stp: *mut St = st;
    let r = catch_unwind(AssertUnwindSafe(|| exec(unsafe { &mut *stp }, scope, fail, op)));
    if r.is_err() {
        let msg = LAST_PANIC.with(|m| m.borrow().clone());
        st.x("panic", &msg.replace('\n', " "));
        st.dead = true;
        st.script = Some(Default::default());
        st.ops_left = 0;
    }
}

thread_local! { static LAST_PANIC: std::cell::RefCell<String> = const { std::cell::RefCell::new(String::new()) }; }

fn scope_enter<A, S>(st: &mut St, scope: &mut BumpScope<'_, A, S>)
where
    A: bump_scope::BaseAllocator<S::GuaranteedAllocated>,
    S: bump_scope::settings::BumpAllocatorSettings,
{
    let _ = writeln!(st.out, "O SC 0");
    st.epoch += 1;
    let ep = st.epoch;
    let ncp = st.cp_store.len();
    let _ = writeln!(st.out, "R U");
    stats_line(st, scope);
    st.depth += 1;
    let alloc_before = scope.stats().allocated();
    let pos_before = scope.stats().current_chunk().map(|c| c.bump_position().as_ptr() as usize);
    let count_before = scope.stats().count();
    let stp: *mut St = st;
    let r = catch_unwind(AssertUnwindSafe(|| {
        scope.scoped(|inner| {
            let st = unsafe { &mut *stp };
            if run_scope(st, inner) {
                panic!("scripted panic inside scope");
            }
        })
    }));
    st.depth -= 1;
    if st.dead { return; }
    let _ = writeln!(st.out, "O SX 0 {}", r.is_err() as u8);
    st.epoch += 1;
    st.cp_store.truncate(ncp);
    st.blocks.retain(|b| b.born < ep);
    events_lines(st);
    let _ = writeln!(st.out, "R U");
    // C03 on the implementation's own numbers
    let alloc_after = scope.stats().allocated();
    let pos_after = scope.stats().current_chunk().map(|c| c.bump_position().as_ptr() as usize);
    if alloc_after != alloc_before && pos_before.is_some() {
        st.x("scope-exit-did-not-restore-allocated", &format!("before={alloc_before} after={alloc_after}"));
    }
    if pos_before.is_some() && pos_after != pos_before {
        st.x("scope-exit-did-not-restore-position", &format!("before={pos_before:?} after={pos_after:?}"));
    }
    if scope.stats().count() < count_before {
        st.x("scope-exit-released-a-chunk", "");
    }
    stats_line(st, scope);
    monitors(st);
}

fn run_one<A, S>(st: &mut St, init: u8, init_arg: (usize, usize))
where
    A: bump_scope::BaseAllocator<S::GuaranteedAllocated> + Default,
    S: bump_scope::settings::BumpAllocatorSettings,
{
    use bump_scope::settings::BumpAllocatorSettings as BS;
    let _ = writeln!(st.out, "CFG {} {} {} {} {} {} {} {}", S::UP as u8, S::MIN_ALIGN, S::GUARANTEED_ALLOCATED as u8,
                     S::DEALLOCATES as u8, S::SHRINKS as u8, S::MINIMUM_CHUNK_SIZE, header_size::<A>(), header_align::<A>());
    // initial state
    let bump: Option<Bump<A, S>> = match init {
        1 => {
            let _ = writeln!(st.out, "INIT S {}", init_arg.0);
            Bump::<A, S>::try_with_size_in(init_arg.0, A::default()).ok()
        }
        2 => {
            let _ = writeln!(st.out, "INIT C {} {}", init_arg.0, init_arg.1);
            Bump::<A, S>::try_with_capacity_in(Layout::from_size_align(init_arg.0, init_arg.1).unwrap(), A::default()).ok()
        }
        _ => {
            let _ = writeln!(st.out, "INIT N");
            Bump::<A, S>::try_new_in(A::default()).ok()
        }
    };
    events_lines(st);
    let Some(mut bump) = bump else {
        let _ = writeln!(st.out, "R E");
        let _ = writeln!(st.out, "END");
        return;
    };
    let _ = writeln!(st.out, "R U");
    stats_line(st, bump.as_scope());
    loop {
        let (fail, op) = st.next_op(true);
        match op {
            Op::End => break,
            Op::ScopeExit { .. } => {}
            Op::ScopeEnter => scope_enter(st, bump.as_mut_scope()),
            Op::Reset => {
                let _ = writeln!(st.out, "O RS");
                let before: Vec<usize> = bump.stats().small_to_big().map(|c| c.size()).collect();
                bump.reset();
                st.epoch += 1;
                st.cp_store.clear();
                st.blocks.clear();
                events_lines(st);
                let _ = writeln!(st.out, "R U");
                let after: Vec<usize> = bump.stats().small_to_big().map(|c| c.size()).collect();
                if !before.is_empty() && (after.len() != 1 || after[0] != *before.iter().max().unwrap()) {
                    st.x("reset-did-not-keep-exactly-the-largest-chunk", &format!("before={before:?} after={after:?}"));
                }
                if bump.stats().allocated() != 0 {
                    st.x("reset-left-bytes-allocated", "");
                }
                stats_line(st, bump.as_scope());
            }
            Op::ResetToStart => {
                let _ = writeln!(st.out, "O R0");
                let calls = with_pool(|p| p.calls);
                bump.reset_to_start();
                st.epoch += 1;
                st.cp_store.clear();
                st.blocks.clear();
                events_lines(st);
                let _ = writeln!(st.out, "R U");
                if with_pool(|p| p.calls) != calls {
                    st.x("reset-to-start-called-the-base-allocator", "");
                }
                stats_line(st, bump.as_scope());
            }
            Op::TryErr { mutable, ty } => try_err(st, bump.as_mut_scope(), fail, mutable, ty),
            other => guarded_exec(st, bump.as_scope(), fail, &other),
        }
        if st.dead { break; }
    }
    if st.dead {
        // state unknown after a panic inside the crate: do not touch the arena again
        core::mem::forget(bump);
        let _ = writeln!(st.out, "END");
        return;
    }
    // drop: every chunk goes back exactly once
    let _ = writeln!(st.out, "O DROP");
    st.blocks.clear();
    drop(bump);
    events_lines(st);
    let _ = writeln!(st.out, "R U");
    let (live, allocs, deallocs) = with_pool(|p| { p.final_check(); (p.live.len(), p.total_allocs, p.total_deallocs) });
    if live != 0 || allocs != deallocs {
        st.x("chunks-not-released-exactly-once-by-drop", &format!("outstanding={live} allocs={allocs} deallocs={deallocs}"));
    }
    let errs: Vec<String> = with_pool(|p| std::mem::take(&mut p.errors));
    for e in errs {
        st.x("base-allocator-ledger", &e);
    }
    let _ = writeln!(st.out, "END");
}

// ------------------------------------------------------------------ settings x allocator matrix
macro_rules! matrix {
    ($idx:expr, $st:expr, $init:expr, $ia:expr; $( $n:literal => ($ma:literal, $up:literal, $ga:literal, $de:literal, $sh:literal, $mc:literal, $p:ty) ),* $(,)?) => {
        match $idx {
            $( $n => run_one::<TA<$p>, BumpSettings<$ma, $up, $ga, true, $de, $sh, $mc>>($st, $init, $ia), )*
            _ => unreachable!(),
        }
    };
}

const NCFG: usize = 40;

fn dispatch(idx: usize, st: &mut St, init: u8, ia: (usize, usize)) {
    matrix!(idx, st, init, ia;
        0 => (1, true, true, true, true, 512, ()),
        1 => (1, false, true, true, true, 512, ()),
        2 => (8, true, true, true, true, 512, u64),
        3 => (8, false, true, true, true, 512, u64),
        4 => (16, true, true, true, true, 64, P32),
        5 => (16, false, true, true, true, 64, P32),
        6 => (4, true, true, true, true, 4096, P64),
        7 => (4, false, true, true, true, 4096, P64),
        8 => (2, true, false, true, true, 512, ()),
        9 => (2, false, false, true, true, 512, ()),
        10 => (1, true, true, false, true, 64, u64),
        11 => (1, false, true, false, true, 64, u64),
        12 => (8, true, true, true, false, 64, ()),
        13 => (8, false, true, true, false, 64, ()),
        14 => (16, true, true, false, false, 512, ()),
        15 => (16, false, true, false, false, 512, ()),
        16 => (4, true, false, true, true, 64, u64),
        17 => (4, false, false, true, true, 64, u64),
        18 => (2, true, true, true, true, 64, P32),
        19 => (2, false, true, true, true, 64, P32),
        20 => (1, true, false, false, true, 4096, P64),
        21 => (1, false, false, false, true, 4096, P64),
        22 => (8, true, false, true, false, 512, P32),
        23 => (8, false, false, true, false, 512, P32),
        24 => (16, true, false, true, true, 4096, u64),
        25 => (16, false, false, true, true, 4096, u64),
        26 => (4, true, true, false, false, 4096, P32),
        27 => (4, false, true, false, false, 4096, P32),
        28 => (2, true, true, false, true, 4096, ()),
        29 => (2, false, true, false, true, 4096, ()),
        30 => (1, true, true, true, false, 512, P64),
        31 => (1, false, true, true, false, 512, P64),
        32 => (8, true, true, false, true, 512, P64),
        33 => (8, false, true, false, true, 512, P64),
        34 => (16, true, false, false, false, 64, P64),
        35 => (16, false, false, false, false, 64, P64),
        36 => (4, true, false, false, true, 512, ()),
        37 => (4, false, false, false, true, 512, ()),
        38 => (2, true, false, true, false, 64, u64),
        39 => (2, false, false, true, false, 64, u64),
    );
}

fn parse_script(path: &str) -> Vec<(usize, u64, u8, u8, (usize, usize), Vec<(bool, Op)>)> {
    // replays the O-lines of a trace: RUN idx seed overgrant ; INIT ... ; FAIL ; O ...
    let text = std::fs::read_to_string(path).expect("cannot read script");
    let mut runs = vec![];
    let mut fail = false;
    for l in text.lines() {
        let f: Vec<&str> = l.split_whitespace().collect();
        if f.is_empty() { continue; }
        let n = |i: usize| f[i].parse::<usize>().unwrap();
        match f[0] {
            "RUN" => runs.push((n(2), f[3].parse::<u64>().unwrap(), n(4) as u8, 0u8, (0usize, 0usize), vec![])),
            "INIT" => {
                let r = runs.last_mut().unwrap();
                match f[1] { "S" => { r.3 = 1; r.4 = (n(2), 0); } "C" => { r.3 = 2; r.4 = (n(2), n(3)); } _ => { r.3 = 0; } }
            }
            "FAIL" => fail = true,
            "O" => {
                let r = runs.last_mut().unwrap();
                let op = match f[1] {
                    "A" => Some(Op::Alloc { w: n(3) as u8, size: n(4), align: n(5), cls: if n(7) == 1 || n(7) == 2 { 0 } else { n(7) as u8 }, ty: 0, len: 0 }),
                    "D" => Some(Op::Dealloc { w: n(3) as u8, b: n(4) }),
                    "G" => Some(Op::Grow { w: n(3) as u8, b: n(4), size: n(5), align: n(6), zeroed: n(7) == 1 }),
                    "S" => Some(Op::Shrink { w: n(3) as u8, b: n(4), size: n(5), align: n(6) }),
                    "CP" => Some(Op::Checkpoint),
                    "RT" => Some(Op::ResetTo { cp: n(3) }),
                    "SC" => Some(Op::ScopeEnter),
                    "SX" => Some(Op::ScopeExit { panic: n(3) == 1 }),
                    "RS" => Some(Op::Reset),
                    "R0" => Some(Op::ResetToStart),
                    "RV" => Some(Op::Reserve { n: n(3) }),
                    "TW" => Some(Op::TryErr { mutable: n(3) == 1, ty: match n(4) { x if x <= 8 => 0, x if x <= 32 => 1, x if x <= 104 => 2, x if x <= 1004 => 3, x if x <= 5608 => 4, _ => 5 } }),
                    _ => None, // F and DROP are issued by the harness itself
                };
                if let Some(op) = op { r.5.push((fail, op)); }
                fail = false;
            }
            _ => {}
        }
    }
    runs
}

fn main() {
    assert_eq!(core::mem::size_of::<usize>(), 8);
    let seed: u64 = arg("--seed", 1);
    let runs: usize = arg("--runs", 40);
    let ops: usize = arg("--ops", 60);
    let script: String = arg("--script", String::new());
    let only: i64 = arg("--cfg", -1);
    let verbose = arg("--verbose-panics", 0u8) != 0;
    std::panic::set_hook(Box::new(move |info| {
        LAST_PANIC.with(|m| *m.borrow_mut() = format!("{info}"));
        if verbose { eprintln!("{info}"); }
    }));
    let mut mk = |rng: Rng, script: Option<Vec<(bool, Op)>>, ops: usize, fail_rate: u64, big: bool| St {
        out: String::new(), rng, script: script.map(|v| v.into()), blocks: vec![], next_id: 0, seed_ctr: 0, epoch: 0,
        cp_store: vec![], next_cp: 0, ops_left: ops, depth: 0, max_depth: 6, fail_rate, big, xlines: 0, dead: false,
    };
    if !script.is_empty() {
        for (idx, sd, og, init, ia, opsv) in parse_script(&script) {
            with_pool(|p| p.reset(sd, og));
            let mut st = mk(Rng::new(sd), Some(opsv), 0, 0, false);
            let _ = writeln!(st.out, "RUN 0 {idx} {sd} {og}");
            dispatch(idx, &mut st, init, ia);
            flush(&mut st);
        }
        return;
    }
    let mut master = Rng::new(seed);
    for i in 0..runs {
        let idx = if only >= 0 { only as usize } else { (i + seed as usize) % NCFG };
        let sd = master.next();
        let og = (master.below(4)) as u8;
        with_pool(|p| p.reset(sd, og));
        let mut r = Rng::new(sd ^ 0x5555);
        let init = r.below(4) as u8;
        let ia = match init {
            1 => (r.pick(&[0usize, 1, 100, 512, 1000, 4096, 10000]), 0),
            2 => (r.pick(&[0usize, 1, 17, 400, 401, 4000, 70000]), 1usize << r.below(9)),
            _ => (0, 0),
        };
        let fail_rate = r.pick(&[0u64, 0, 3, 10]);
        let big = r.coin(1, 5);
        let nops = if r.coin(1, 6) { ops * 3 } else { ops };
        let mut st = mk(r, None, nops, fail_rate, big);
        let _ = writeln!(st.out, "RUN {i} {idx} {sd} {og}");
        dispatch(idx, &mut st, init, ia);
        flush(&mut st);
    }
}
