// Unmodelled probes of arena_x (plain `Global` arenas, no trace for the model): properties of
// single calls that the operation trace does not carry.
//  * C15: alloc_try_with_mut whose closure PANICS leaves every bump position where it was (at most
//    a later, still empty chunk becomes current), also when the value does not fit the chunk;
//  * C17: the shared-reference and the exclusive-reference entry points (and their try_ twins) of
//    alloc_try_with return the value at the same offset and leave the same number of bytes
//    allocated, for Ok and for Err, started from equal states.
//  * C03: a fixed workload run in a `reset()` loop (the statements of coq/ArenaLoop.v, on the code):
//    a round that starts with capacity >= need(w) obtains no chunk (loop_quiet_forever); the chunk
//    that survives reset() never shrinks and is at least 16 bytes larger after a round that
//    obtained a chunk (round_progress); the number of obtaining rounds respects the proved bound
//    (reset_loop_converges); and once a round obtained nothing, no later round obtains anything.
mod probes {
    use bump_scope::alloc::Global;
    use bump_scope::settings::BumpSettings;
    use bump_scope::Bump;
    use std::panic::{AssertUnwindSafe, catch_unwind};
    use verif_harness::Rng;

    fn positions<S: bump_scope::settings::BumpAllocatorSettings>(b: &Bump<Global, S>) -> (Vec<(usize, usize)>, usize, usize)
    where Global: bump_scope::BaseAllocator<S::GuaranteedAllocated> {
        let st = b.stats();
        let v: Vec<(usize, usize)> = st.small_to_big().map(|c| (c.chunk_start().as_ptr() as usize, c.bump_position().as_ptr() as usize)).collect();
        let cur = st.current_chunk().map_or(0, |c| c.chunk_start().as_ptr() as usize);
        (v, cur, st.allocated())
    }

    macro_rules! with_settings {
        ($ma:literal, $up:literal, $notes:ident, $r:ident) => {{
            type B = Bump<Global, BumpSettings<$ma, $up>>;
            let tag = format!("MIN_ALIGN={} UP={}", $ma, $up);
            // a prefix of allocations that leaves an odd position and (sometimes) little room
            let fill = match $r.below(4) { 0 => 0usize, 1 => $r.range(1, 40) as usize, 2 => $r.range(300, 480) as usize, _ => $r.range(1, 2000) as usize };
            let odd = $r.range(0, 7) as usize;
            let make = || -> B { let b: B = Bump::with_size(512); if fill > 0 { b.alloc_slice_fill(fill, 0xABu8); } for _ in 0..odd { b.alloc(1u8); } b };
            // ---- C15: a panicking closure
            macro_rules! panic_case {
                ($t:ty, $e:ty) => {{
                    let mut b = make();
                    let (before, cur, alloc) = positions(&b);
                    let r_ = catch_unwind(AssertUnwindSafe(|| { let _ = b.alloc_try_with_mut(|| -> Result<$t, $e> { panic!("scripted") }); }));
                    let (after, cur2, alloc2) = positions(&b);
                    if r_.is_ok() { $notes.push(format!("try-with-mut-panic: the panic of the closure was swallowed ({tag})")); }
                    for (x, y) in before.iter().zip(after.iter()) {
                        if x != y { $notes.push(format!("try-with-mut-panic-moved-a-position: chunk {:#x} position {:#x} -> {:#x} after a panicking alloc_try_with_mut::<{}> ({tag})", x.0, x.1, y.1, stringify!($t))); }
                    }
                    if cur2 != cur {
                        // a later chunk became current: it must still be empty
                        let used = b.stats().current_chunk().map_or(0, |c| c.allocated());
                        if used != 0 { $notes.push(format!("try-with-mut-panic-moved-a-position: the chunk that became current holds {used} allocated bytes after a panicking alloc_try_with_mut::<{}> ({tag}, fill {fill})", stringify!($t))); }
                    } else if alloc2 != alloc {
                        $notes.push(format!("try-with-mut-panic-moved-a-position: allocated {alloc} -> {alloc2} after a panicking alloc_try_with_mut::<{}> ({tag}, fill {fill})", stringify!($t)));
                    }
                }};
            }
            match $r.below(3) { 0 => panic_case!(u64, u8), 1 => panic_case!([u64; 40], u32), _ => panic_case!([u8; 700], [u64; 4]) }
            // ---- C17: twins from equal states
            macro_rules! twins {
                ($t:ty, $e:ty, $val:expr) => {{
                    let val: Result<$t, $e> = $val;
                    let mut outs: Vec<(String, Option<usize>, usize, bool)> = vec![];
                    // (entry point, offset of the value in its chunk, allocated afterwards, ok)
                    let mut record = |name: &str, b: &B, p: Option<usize>, ok: bool| {
                        let st = b.stats();
                        let off = p.map(|p| { let c = st.small_to_big().find(|c| (c.chunk_start().as_ptr() as usize) <= p && p <= c.chunk_end().as_ptr() as usize).map_or(0, |c| c.chunk_start().as_ptr() as usize); p - c });
                        outs.push((name.to_string(), off, st.allocated(), ok));
                    };
                    { let b = make(); let r0 = b.alloc_try_with(|| val.clone()); let (p, ok) = match &r0 { Ok(x) => (Some(&**x as *const $t as usize), true), Err(_) => (None, false) }; core::mem::forget(r0); record("alloc_try_with", &b, p, ok); }
                    { let mut b = make(); let r0 = b.alloc_try_with_mut(|| val.clone()); let (p, ok) = match &r0 { Ok(x) => (Some(&**x as *const $t as usize), true), Err(_) => (None, false) }; core::mem::forget(r0); record("alloc_try_with_mut", &b, p, ok); }
                    { let b = make(); let r0 = b.try_alloc_try_with(|| val.clone()).unwrap(); let (p, ok) = match &r0 { Ok(x) => (Some(&**x as *const $t as usize), true), Err(_) => (None, false) }; core::mem::forget(r0); record("try_alloc_try_with", &b, p, ok); }
                    { let mut b = make(); let r0 = b.try_alloc_try_with_mut(|| val.clone()).unwrap(); let (p, ok) = match &r0 { Ok(x) => (Some(&**x as *const $t as usize), true), Err(_) => (None, false) }; core::mem::forget(r0); record("try_alloc_try_with_mut", &b, p, ok); }
                    { let mut b = make(); let s = b.as_mut_scope(); let r0 = s.alloc_try_with_mut(|| val.clone()); let (p, ok) = match &r0 { Ok(x) => (Some(&**x as *const $t as usize), true), Err(_) => (None, false) }; core::mem::forget(r0); record("BumpScope::alloc_try_with_mut", &b, p, ok); }
                    { let b = make(); let s = b.as_scope(); let r0 = s.alloc_try_with(|| val.clone()); let (p, ok) = match &r0 { Ok(x) => (Some(&**x as *const $t as usize), true), Err(_) => (None, false) }; core::mem::forget(r0); record("BumpScope::alloc_try_with", &b, p, ok); }
                    let first = outs[0].clone();
                    for o in &outs[1..] {
                        if o.1 != first.1 || o.2 != first.2 || o.3 != first.3 {
                            $notes.push(format!("entry-points-differ: {} gives (offset {:?}, allocated {}), {} gives (offset {:?}, allocated {}) for Result<{}, {}> {} ({tag}, fill {fill}, odd {odd})",
                                first.0, first.1, first.2, o.0, o.1, o.2, stringify!($t), stringify!($e), if first.3 { "Ok" } else { "Err" }));
                        }
                    }
                }};
            }
            // ---- C17: try_ / panicking twins whose callback itself allocates from the same arena
            {
                let inner = $r.range(1, 9) as usize;
                let mut outs: Vec<(String, usize, usize)> = vec![];   // (entry point, offset of the result in its chunk, allocated afterwards)
                let mut rec = |name: &str, b: &B, p: usize| {
                    let st = b.stats();
                    let c = st.small_to_big().find(|c| (c.chunk_start().as_ptr() as usize) <= p && p <= c.chunk_end().as_ptr() as usize).map_or(0, |c| c.chunk_start().as_ptr() as usize);
                    outs.push((name.to_string(), p - c, st.allocated()));
                };
                match $r.below(4) {
                    0 => {
                        { let b = make(); let x = b.alloc_with(|| { b.alloc_slice_fill(inner, 1u8); 7u64 }); let p = &*x as *const u64 as usize; core::mem::forget(x); rec("alloc_with", &b, p); }
                        { let b = make(); let x = b.try_alloc_with(|| { b.alloc_slice_fill(inner, 1u8); 7u64 }).unwrap(); let p = &*x as *const u64 as usize; core::mem::forget(x); rec("try_alloc_with", &b, p); }
                    }
                    1 => {
                        { let b = make(); let x = b.alloc_slice_fill_with(3, || { b.alloc_slice_fill(inner, 1u8); 7u32 }); let p = x.as_ptr() as usize; core::mem::forget(x); rec("alloc_slice_fill_with", &b, p); }
                        { let b = make(); let x = b.try_alloc_slice_fill_with(3, || { b.alloc_slice_fill(inner, 1u8); 7u32 }).unwrap(); let p = x.as_ptr() as usize; core::mem::forget(x); rec("try_alloc_slice_fill_with", &b, p); }
                    }
                    2 => {
                        { let b = make(); let x = b.alloc_iter((0..3u32).map(|i| { b.alloc_slice_fill(inner, 1u8); i })); let p = x.as_ptr() as usize; core::mem::forget(x); rec("alloc_iter", &b, p); }
                        { let b = make(); let x = b.try_alloc_iter((0..3u32).map(|i| { b.alloc_slice_fill(inner, 1u8); i })).unwrap(); let p = x.as_ptr() as usize; core::mem::forget(x); rec("try_alloc_iter", &b, p); }
                    }
                    _ => {
                        { let b = make(); let x = b.alloc_default::<u64>(); let p = &*x as *const u64 as usize; core::mem::forget(x); rec("alloc_default", &b, p); }
                        { let b = make(); let x = b.try_alloc_default::<u64>().unwrap(); let p = &*x as *const u64 as usize; core::mem::forget(x); rec("try_alloc_default", &b, p); }
                    }
                }
                if outs.len() == 2 && (outs[0].1 != outs[1].1 || outs[0].2 != outs[1].2) {
                    $notes.push(format!("entry-points-differ: {} gives (offset {}, allocated {}), {} gives (offset {}, allocated {}) when the callback allocates {inner} bytes from the same arena ({tag}, fill {fill}, odd {odd})",
                        outs[0].0, outs[0].1, outs[0].2, outs[1].0, outs[1].1, outs[1].2));
                }
            }
            // ---- C17: different routes to the same allocation end at the same offset with the same bytes
            //      allocated and the same contents: value vs uninit+init, slice vs uninit-slice+init_*,
            //      C strings from a CStr and from a str; C03: an explicit scope guard, reset and dropped
            {
                let len = $r.range(0, 9) as usize;
                let data: Vec<u32> = (0..len as u32).map(|i| 0x0101_0101u32.wrapping_mul(i + 1)).collect();
                // (group, route, offset, allocated afterwards, bytes): routes of one group carry the same request
                // (a method, its try_ twin, the same method on the BumpScope / through a reference)
                let mut outs: Vec<(u32, String, usize, usize, Vec<u8>)> = vec![];
                let mut rec = |g: u32, name: &str, b: &B, p: usize, n: usize| {
                    let st = b.stats();
                    let c = st.small_to_big().find(|c| (c.chunk_start().as_ptr() as usize) <= p && p <= c.chunk_end().as_ptr() as usize).map_or(0, |c| c.chunk_start().as_ptr() as usize);
                    let bytes = unsafe { core::slice::from_raw_parts(p as *const u8, n) }.to_vec();
                    // the address of an empty allocation carries no information (it may dangle)
                    outs.push((g, name.to_string(), if n == 0 { 0 } else { p - c }, st.allocated(), bytes));
                };
                let expected: Vec<u8>;
                match $r.below(4) {
                    0 => {
                        expected = 0x1122_3344_5566_7788u64.to_ne_bytes().to_vec();
                        { let b = make(); let x = b.alloc(0x1122_3344_5566_7788u64); let p = &*x as *const u64 as usize; rec(0, "alloc", &b, p, 8); }
                        { let b = make(); let x = b.try_alloc(0x1122_3344_5566_7788u64).unwrap(); let p = &*x as *const u64 as usize; rec(0, "try_alloc", &b, p, 8); }
                        { let b = make(); let x = b.as_scope().alloc(0x1122_3344_5566_7788u64); let p = &*x as *const u64 as usize; rec(0, "BumpScope::alloc", &b, p, 8); }
                        { let b = make(); let x = b.alloc_uninit::<u64>().init(0x1122_3344_5566_7788u64); let p = &*x as *const u64 as usize; rec(1, "alloc_uninit + init", &b, p, 8); }
                        { let b = make(); let x = b.try_alloc_uninit::<u64>().unwrap().init(0x1122_3344_5566_7788u64); let p = &*x as *const u64 as usize; rec(1, "try_alloc_uninit + init", &b, p, 8); }
                        { let b = make(); let x = b.as_scope().alloc_uninit::<u64>().init(0x1122_3344_5566_7788u64); let p = &*x as *const u64 as usize; rec(1, "BumpScope::alloc_uninit + init", &b, p, 8); }
                        { let b = make(); let x = b.alloc_with(|| 0x1122_3344_5566_7788u64); let p = &*x as *const u64 as usize; rec(2, "alloc_with", &b, p, 8); }
                        { let b = make(); let x = b.try_alloc_with(|| 0x1122_3344_5566_7788u64).unwrap(); let p = &*x as *const u64 as usize; rec(2, "try_alloc_with", &b, p, 8); }
                    }
                    1 => {
                        expected = data.iter().flat_map(|x| x.to_ne_bytes()).collect();
                        { let b = make(); let x = b.alloc_slice_copy(&data); let p = x.as_ptr() as usize; rec(0, "alloc_slice_copy", &b, p, 4 * len); }
                        { let b = make(); let x = b.try_alloc_slice_copy(&data).unwrap(); let p = x.as_ptr() as usize; rec(0, "try_alloc_slice_copy", &b, p, 4 * len); }
                        { let b = make(); let x = b.as_scope().alloc_slice_copy(&data); let p = x.as_ptr() as usize; rec(0, "BumpScope::alloc_slice_copy", &b, p, 4 * len); }
                        { let b = make(); let x = b.alloc_slice_clone(&data); let p = x.as_ptr() as usize; rec(1, "alloc_slice_clone", &b, p, 4 * len); }
                        { let b = make(); let x = b.try_alloc_slice_clone(&data).unwrap(); let p = x.as_ptr() as usize; rec(1, "try_alloc_slice_clone", &b, p, 4 * len); }
                        { let b = make(); let x = b.alloc_uninit_slice::<u32>(len).init_copy(&data); let p = x.as_ptr() as usize; rec(2, "alloc_uninit_slice + init_copy", &b, p, 4 * len); }
                        { let b = make(); let x = b.try_alloc_uninit_slice::<u32>(len).unwrap().init_clone(&data); let p = x.as_ptr() as usize; rec(2, "try_alloc_uninit_slice + init_clone", &b, p, 4 * len); }
                        { let b = make(); let x = b.alloc_uninit_slice_for(&data).init_clone(&data); let p = x.as_ptr() as usize; rec(3, "alloc_uninit_slice_for + init_clone", &b, p, 4 * len); }
                        { let b = make(); let x = b.try_alloc_uninit_slice_for(&data).unwrap().init_copy(&data); let p = x.as_ptr() as usize; rec(3, "try_alloc_uninit_slice_for + init_copy", &b, p, 4 * len); }
                        { let b = make(); let mut i = 0; let x = b.alloc_uninit_slice::<u32>(len).init_fill_with(|| { i += 1; data[i - 1] }); let p = x.as_ptr() as usize; rec(2, "alloc_uninit_slice + init_fill_with", &b, p, 4 * len); }
                        { let b = make(); let x = b.alloc_slice_move(data.clone()); let p = x.as_ptr() as usize; rec(4, "alloc_slice_move", &b, p, 4 * len); }
                        { let b = make(); let x = b.try_alloc_slice_move(data.clone()).unwrap(); let p = x.as_ptr() as usize; rec(4, "try_alloc_slice_move", &b, p, 4 * len); }
                        { let b = make(); let x = b.alloc_iter_exact(data.iter().copied()); let p = x.as_ptr() as usize; rec(5, "alloc_iter_exact", &b, p, 4 * len); }
                        { let b = make(); let x = b.try_alloc_iter_exact(data.iter().copied()).unwrap(); let p = x.as_ptr() as usize; rec(5, "try_alloc_iter_exact", &b, p, 4 * len); }
                    }
                    2 => {
                        expected = (0..len).flat_map(|_| 0xA1B2_C3D4u32.to_ne_bytes()).collect();
                        { let b = make(); let x = b.alloc_slice_fill(len, 0xA1B2_C3D4u32); let p = x.as_ptr() as usize; rec(0, "alloc_slice_fill", &b, p, 4 * len); }
                        { let b = make(); let x = b.try_alloc_slice_fill(len, 0xA1B2_C3D4u32).unwrap(); let p = x.as_ptr() as usize; rec(0, "try_alloc_slice_fill", &b, p, 4 * len); }
                        { let b = make(); let x = b.alloc_uninit_slice::<u32>(len).init_fill(0xA1B2_C3D4u32); let p = x.as_ptr() as usize; rec(1, "alloc_uninit_slice + init_fill", &b, p, 4 * len); }
                        { let b = make(); let x = b.alloc_slice_fill_with(len, || 0xA1B2_C3D4u32); let p = x.as_ptr() as usize; rec(2, "alloc_slice_fill_with", &b, p, 4 * len); }
                        { let b = make(); let x = b.try_alloc_slice_fill_with(len, || 0xA1B2_C3D4u32).unwrap(); let p = x.as_ptr() as usize; rec(2, "try_alloc_slice_fill_with", &b, p, 4 * len); }
                    }
                    _ => {
                        let text: String = (0..len).map(|i| if i == 5 { '\0' } else { char::from(b'a' + i as u8) }).collect();
                        let upto: Vec<u8> = text.bytes().take_while(|&x| x != 0).collect();
                        let c = std::ffi::CString::new(upto.clone()).unwrap();
                        expected = c.as_bytes_with_nul().to_vec();
                        { let b = make(); let x = b.alloc_cstr(&c); let p = x.as_ptr() as usize; rec(0, "alloc_cstr", &b, p, upto.len() + 1); }
                        { let b = make(); let x = b.try_alloc_cstr(&c).unwrap(); let p = x.as_ptr() as usize; rec(0, "try_alloc_cstr", &b, p, upto.len() + 1); }
                        { let b = make(); let x = b.alloc_cstr_from_str(&text); let p = x.as_ptr() as usize; rec(1, "alloc_cstr_from_str", &b, p, upto.len() + 1); }
                        { let b = make(); let x = b.try_alloc_cstr_from_str(&text).unwrap(); let p = x.as_ptr() as usize; rec(1, "try_alloc_cstr_from_str", &b, p, upto.len() + 1); }
                        { let b = make(); let x = b.as_scope().alloc_cstr_from_str(&text); let p = x.as_ptr() as usize; rec(1, "BumpScope::alloc_cstr_from_str", &b, p, upto.len() + 1); }
                    }
                }
                for (k, o) in outs.iter().enumerate() {
                    if o.4 != expected {
                        $notes.push(format!("entry-points-differ: {} produced the bytes {:?}, the request was for {:?} (len {len}, {tag}, fill {fill}, odd {odd})", o.1, o.4, expected));
                    }
                    if let Some(first) = outs[..k].iter().find(|f| f.0 == o.0) {
                        if o.2 != first.2 || o.3 != first.3 {
                            $notes.push(format!("entry-points-differ: {} gives (offset {}, allocated {}), {} gives (offset {}, allocated {}) (len {len}, {tag}, fill {fill}, odd {odd})",
                                first.1, first.2, first.3, o.1, o.2, o.3));
                        }
                    }
                }
                // dealloc of the newest box gives its bytes back (when the settings deallocate) and drops the value once
                {
                    struct Cnt<'a>(&'a core::cell::Cell<u32>, [u8; 24]);
                    impl Drop for Cnt<'_> { fn drop(&mut self) { self.0.set(self.0.get() + 1); } }
                    let drops = core::cell::Cell::new(0u32);
                    let b = make();
                    let before = positions(&b);
                    let x = b.alloc(Cnt(&drops, [7; 24]));
                    b.dealloc(x);
                    let after = positions(&b);
                    if drops.get() != 1 { $notes.push(format!("entry-points-differ: dealloc dropped the value {} times ({tag})", drops.get())); }
                    // same chunk: the bytes are back (up to alignment padding); a chunk switch: the new chunk is empty again
                    let used_now = b.stats().current_chunk().map_or(0, |c| c.allocated());
                    if (after.1 == before.1 && after.2 > before.2 + 16) || (after.1 != before.1 && used_now > 16) {
                        $notes.push(format!("entry-points-differ: dealloc of the newest box left {} bytes allocated ({} in the current chunk), {} before the allocation ({tag}, fill {fill}, odd {odd})", after.2, used_now, before.2));
                    }
                }
                // an explicit scope guard: reset() and drop both return to the entry state, earlier data survives
                {
                    let mut b = make();
                    let keep = b.alloc_slice_fill(5, 0x5Au8).as_ptr() as usize;
                    let before = positions(&b);
                    {
                        let mut g = b.scope_guard();
                        { let s = g.scope(); s.alloc_slice_fill(len * 40, 0xEEu8); s.alloc(3u64); }
                        g.reset();
                        let mid = { let s = g.scope(); let st = s.stats(); (st.allocated(), st.current_chunk().map_or(0, |c| c.bump_position().as_ptr() as usize)) };
                        let cur_before = before.0.iter().find(|c| c.0 == before.1).map_or(0, |c| c.1);
                        if mid.0 != before.2 || mid.1 != cur_before { $notes.push(format!("scope-exit-did-not-restore-position: BumpScopeGuard::reset left allocated {} position {:#x}, at entry {} {:#x} ({tag}, fill {fill})", mid.0, mid.1, before.2, cur_before)); }
                        { let s = g.scope(); s.alloc_slice_fill(len * 7 + 1, 0xDDu8); }
                    }
                    let after = positions(&b);
                    let cur_b = before.0.iter().find(|c| c.0 == before.1).map_or(0, |c| c.1);
                    let cur_a = after.0.iter().find(|c| c.0 == after.1).map_or(0, |c| c.1);
                    if after.2 != before.2 || after.1 != before.1 || cur_a != cur_b { $notes.push(format!("scope-exit-did-not-restore-position: dropping a BumpScopeGuard left allocated {} position {:#x}, at entry {} {:#x} ({tag}, fill {fill})", after.2, cur_a, before.2, cur_b)); }
                    if unsafe { core::slice::from_raw_parts(keep as *const u8, 5) } != [0x5Au8; 5] { $notes.push(format!("block-contents-changed: data allocated before a scope guard changed ({tag})")); }
                }
            }
            let ok = $r.coin(2, 3);
            match $r.below(5) {
                0 => twins!(u8, u64, if ok { Ok(7u8) } else { Err(9u64) }),
                1 => twins!(u32, u32, if ok { Ok(7u32) } else { Err(9u32) }),
                2 => twins!(u64, u8, if ok { Ok(7u64) } else { Err(9u8) }),
                3 => twins!([u8; 3], [u64; 5], if ok { Ok([1u8; 3]) } else { Err([2u64; 5]) }),
                _ => twins!([u64; 70], u16, if ok { Ok([1u64; 70]) } else { Err(3u16) }),
            }
        }};
    }

    macro_rules! loop_with_settings {
        ($ma:literal, $up:literal, $notes:ident, $r:ident) => {{
            type B = Bump<Global, BumpSettings<$ma, $up>>;
            let tag = format!("MIN_ALIGN={} UP={}", $ma, $up);
            let first = match $r.below(4) { 0 => 64usize, 1 => 512, 2 => $r.range(64, 4096) as usize, _ => $r.range(64, 20000) as usize };
            let n = $r.range(1, 12) as usize;
            let w: Vec<(usize, usize)> = (0..n).map(|_| {
                let size = match $r.below(5) { 0 => 0usize, 1 => $r.range(1, 16) as usize, 2 => $r.range(1, 200) as usize, 3 => $r.range(200, 3000) as usize, _ => $r.range(1, 9000) as usize };
                let align = 1usize << $r.below(7);
                (size, align)
            }).collect();
            let need: usize = w.iter().map(|(s, a)| s + a + 16).sum();
            let desc = format!("{tag}, first chunk {first}, workload {:?}", w);
            let mut b: B = Bump::with_size(first);
            let sizes = |b: &B| -> Vec<(usize, usize)> { b.stats().small_to_big().map(|c| (c.size(), c.capacity())).collect() };
            let start = sizes(&b);
            if start.len() == 1 {
                let (size0, cap0) = start[0];
                let hs = size0 - cap0;
                let bound = (need + hs + 15).saturating_sub(size0);
                let mut obtained_rounds = 0usize;
                let mut quiet_seen = false;
                let mut prev = size0;
                for round in 0..10 {
                    let before = sizes(&b);
                    let cap = before[0].1;
                    for &(size, align) in &w { let _ = bump_scope::traits::BumpAllocatorTyped::allocate_layout(&b, core::alloc::Layout::from_size_align(size, align).unwrap()); }
                    let after = sizes(&b);
                    let obtained = after.len() > before.len();
                    if obtained { obtained_rounds += 1; }
                    if obtained && cap >= need {
                        $notes.push(format!("reset-loop-requested-with-room: round {round} started with capacity {cap} >= need {need} and still obtained a chunk ({desc})"));
                    }
                    if obtained && quiet_seen {
                        $notes.push(format!("reset-loop-keeps-requesting: round {round} obtained a chunk after an earlier round obtained none ({desc})"));
                    }
                    if !obtained { quiet_seen = true; }
                    b.reset();
                    let kept = sizes(&b);
                    if kept.len() != 1 {
                        $notes.push(format!("reset-loop-left-more-than-one-chunk: {} chunks after reset() in round {round} ({desc})", kept.len()));
                        break;
                    }
                    let now = kept[0].0;
                    if now < prev || (obtained && now < prev + 16) {
                        $notes.push(format!("reset-loop-survivor-shrank: the chunk kept by reset() has size {now} after {prev} in round {round} (obtained={obtained}) ({desc})"));
                    }
                    if b.stats().allocated() != 0 {
                        $notes.push(format!("reset-loop-survivor-shrank: allocated() = {} after reset() in round {round} ({desc})", b.stats().allocated()));
                    }
                    prev = now;
                }
                if 16 * obtained_rounds > bound {
                    $notes.push(format!("reset-loop-bound-exceeded: {obtained_rounds} rounds obtained a chunk, the proved bound is 16 * rounds <= {bound} ({desc})"));
                }
                if !quiet_seen {
                    $notes.push(format!("reset-loop-keeps-requesting: all 10 rounds obtained a chunk ({desc})"));
                }
            }
        }};
    }

    pub fn loop_probe(r: &mut Rng) -> Vec<String> {
        let mut notes: Vec<String> = vec![];
        match r.below(6) {
            0 => loop_with_settings!(1, true, notes, r),
            1 => loop_with_settings!(1, false, notes, r),
            2 => loop_with_settings!(8, true, notes, r),
            3 => loop_with_settings!(8, false, notes, r),
            4 => loop_with_settings!(16, true, notes, r),
            _ => loop_with_settings!(4, false, notes, r),
        }
        notes.sort();
        notes.dedup();
        notes
    }

    /// C18: the run-time checks of the settings conversions.  Every combination of arena state
    /// (unallocated / allocated / claimed through a leaked guard), target GUARANTEED_ALLOCATED,
    /// target CLAIMABLE and target MIN_ALIGN, for `Bump::with_settings`, `BumpScope::with_settings`,
    /// `borrow_with_settings` and `borrow_mut_with_settings` (where the types allow the call).
    /// Returns trace lines `S <conversion> <state> <ga> <claimable> <panicked>` for the model
    /// (coq/Conv.v conversion_panics) and monitor notes.
    pub fn settings_probe(r: &mut Rng) -> (Vec<String>, Vec<String>) {
        use bump_scope::BumpScope;
        let mut lines: Vec<String> = vec![];
        let mut notes: Vec<String> = vec![];
        // source: MIN_ALIGN 1, up, not guaranteed allocated, claimable
        type S0 = BumpSettings<1, true, false, true>;
        let odd = r.range(1, 7) as usize;
        let make = |state: u8| -> Bump<Global, S0> {
            match state {
                0 => Bump::unallocated(),
                1 => { let b: Bump<Global, S0> = Bump::new(); for _ in 0..odd { b.alloc(1u8); } b }
                _ => { let b: Bump<Global, S0> = Bump::new(); for _ in 0..odd { b.alloc(1u8); } core::mem::forget(b.claim()); b }
            }
        };
        let sname = ["unallocated", "allocated", "claimed"];
        macro_rules! by_value {
            ($ma:literal, $ga:literal, $c:literal) => {{
                for state in 0u8..3 {
                    let b = make(state);
                    let res = catch_unwind(AssertUnwindSafe(move || {
                        let b2: Bump<Global, BumpSettings<$ma, true, $ga, $c>> = b.with_settings();
                        let pos = b2.stats().current_chunk().map_or(0, |c| c.bump_position().as_ptr() as usize);
                        core::mem::forget(b2);   // a claimed arena is leaked by its Drop anyway
                        pos
                    }));
                    lines.push(format!("S by_value {} {} {} {}", sname[state as usize], $ga as u8, $c as u8, res.is_err() as u8));
                    if let Ok(pos) = res { if state == 1 && pos % $ma != 0 { notes.push(format!("position-not-multiple-of-min-align: after Bump::with_settings from MIN_ALIGN 1 to {} the position is {pos:#x}", $ma)); } }
                }
                // BumpScope by value (never unallocated)
                for state in 1u8..3 {
                    let mut b: Bump<Global, S0> = Bump::new();
                    for _ in 0..odd { b.alloc(1u8); }
                    let res = catch_unwind(AssertUnwindSafe(|| {
                        b.scoped(|sc| {
                            let sc: BumpScope<'_, Global, S0> = sc.by_value();
                            if state == 2 { core::mem::forget(sc.claim()); }
                            let sc2: BumpScope<'_, Global, BumpSettings<$ma, true, $ga, $c>> = sc.with_settings();
                            let pos = sc2.stats().current_chunk().map_or(0, |c| c.bump_position().as_ptr() as usize);
                            pos
                        })
                    }));
                    lines.push(format!("S scope_by_value {} {} {} {}", sname[state as usize], $ga as u8, $c as u8, res.is_err() as u8));
                    if let Ok(pos) = res { if state == 1 && pos % $ma != 0 { notes.push(format!("position-not-multiple-of-min-align: after BumpScope::with_settings from MIN_ALIGN 1 to {} the position is {pos:#x}", $ma)); } }
                    core::mem::forget(b);
                }
            }};
        }
        by_value!(1, false, false); by_value!(1, false, true); by_value!(1, true, false); by_value!(1, true, true);
        by_value!(8, false, false); by_value!(8, false, true); by_value!(8, true, false); by_value!(8, true, true);
        // the borrow conversions have compile-time checks only: they never panic, whatever the state
        for state in 0u8..3 {
            let mut b = make(state);
            let r1 = catch_unwind(AssertUnwindSafe(|| { let _x: &Bump<Global, BumpSettings<1, true, false, true>> = b.borrow_with_settings(); }));
            lines.push(format!("S borrow {} 0 1 {}", sname[state as usize], r1.is_err() as u8));
            let r2 = catch_unwind(AssertUnwindSafe(|| {
                let x: &mut Bump<Global, BumpSettings<8, true, false, true>> = b.borrow_mut_with_settings();
                x.stats().current_chunk().map_or(0, |c| c.bump_position().as_ptr() as usize)
            }));
            lines.push(format!("S borrow_mut {} 0 1 {}", sname[state as usize], r2.is_err() as u8));
            if let Ok(pos) = r2 { if state == 1 && pos % 8 != 0 { notes.push(format!("position-not-multiple-of-min-align: after borrow_mut_with_settings from MIN_ALIGN 1 to 8 the position is {pos:#x}")); } }
            core::mem::forget(b);
        }
        (lines, notes)
    }

    pub fn entry_probe(r: &mut Rng) -> Vec<String> {
        let mut notes: Vec<String> = vec![];
        match r.below(6) {
            0 => with_settings!(1, true, notes, r),
            1 => with_settings!(1, false, notes, r),
            2 => with_settings!(8, true, notes, r),
            3 => with_settings!(8, false, notes, r),
            4 => with_settings!(16, true, notes, r),
            _ => with_settings!(4, false, notes, r),
        }
        notes.sort();
        notes.dedup();
        notes
    }

    // ---- C17 / C02: the allocator-api2 compatibility layer (src/features/allocator_util.rs) carries a
    // request exactly as the crate's own Allocator trait does: twin arenas, one driven through
    // `bump_scope::alloc::Allocator`, the other through `allocator_api2::alloc::Allocator` (on the Bump,
    // on the BumpScope, through WithoutDealloc / WithoutShrink), the same random allocate / grow /
    // grow_zeroed / shrink / deallocate sequence: same offsets, same lengths, same bytes allocated
    // after every step, and the contents of every block survive.  Then a real client of that
    // interface: allocator_api2's Vec and Box with the arena as allocator, std's Vec in lock-step.
    pub enum Req { Alloc(core::alloc::Layout), Grow(core::ptr::NonNull<u8>, core::alloc::Layout, core::alloc::Layout), GrowZeroed(core::ptr::NonNull<u8>, core::alloc::Layout, core::alloc::Layout),
                   Shrink(core::ptr::NonNull<u8>, core::alloc::Layout, core::alloc::Layout), Dealloc(core::ptr::NonNull<u8>, core::alloc::Layout) }
    fn run_own<A: bump_scope::alloc::Allocator>(a: &A, q: Req) -> Result<core::ptr::NonNull<[u8]>, ()> {
        unsafe { match q {
            Req::Alloc(l) => a.allocate(l).map_err(|_| ()),
            Req::Grow(p, o, n) => a.grow(p, o, n).map_err(|_| ()),
            Req::GrowZeroed(p, o, n) => a.grow_zeroed(p, o, n).map_err(|_| ()),
            Req::Shrink(p, o, n) => a.shrink(p, o, n).map_err(|_| ()),
            Req::Dealloc(p, l) => { a.deallocate(p, l); Err(()) }
        } }
    }
    fn run_foreign<A: allocator_api2::alloc::Allocator>(a: &A, q: Req) -> Result<core::ptr::NonNull<[u8]>, ()> {
        unsafe { match q {
            Req::Alloc(l) => a.allocate(l).map_err(|_| ()),
            Req::Grow(p, o, n) => a.grow(p, o, n).map_err(|_| ()),
            Req::GrowZeroed(p, o, n) => a.grow_zeroed(p, o, n).map_err(|_| ()),
            Req::Shrink(p, o, n) => a.shrink(p, o, n).map_err(|_| ()),
            Req::Dealloc(p, l) => { a.deallocate(p, l); Err(()) }
        } }
    }
    fn own_op<S: bump_scope::settings::BumpAllocatorSettings>(via: u64, b: &Bump<Global, S>, q: Req) -> Result<core::ptr::NonNull<[u8]>, ()>
    where Global: bump_scope::BaseAllocator<S::GuaranteedAllocated> {
        // 4 / 5: the blanket impls of the crate's Allocator trait for `&A` and `&mut A` (src/alloc.rs)
        match via { 2 => run_own(&bump_scope::WithoutDealloc(b), q), 3 => run_own(&bump_scope::WithoutShrink(b), q), 1 => run_own(b.as_scope(), q),
                    4 => run_own(&b, q), 5 => { let mut r = b; run_own(&&mut r, q) } _ => run_own(b, q) }
    }
    fn foreign_op<S: bump_scope::settings::BumpAllocatorSettings>(via: u64, b: &Bump<Global, S>, q: Req) -> Result<core::ptr::NonNull<[u8]>, ()>
    where Global: bump_scope::BaseAllocator<S::GuaranteedAllocated> {
        match via { 2 => run_foreign(&bump_scope::WithoutDealloc(b), q), 3 => run_foreign(&bump_scope::WithoutShrink(b), q), 1 => run_foreign(b.as_scope(), q), _ => run_foreign(b, q) }
    }
    macro_rules! compat_with_settings {
        ($ma:literal, $up:literal, $notes:ident, $r:ident) => {{
            use core::alloc::Layout;
            use core::ptr::NonNull;
            type B = Bump<Global, BumpSettings<$ma, $up>>;
            let tag = format!("MIN_ALIGN={} UP={}", $ma, $up);
            let via = $r.below(6);     // which implementor carries the calls (4 / 5: references, own trait only; the other arena is driven directly)
            let via_name = ["Bump", "BumpScope", "WithoutDealloc<&Bump>", "WithoutShrink<&Bump>", "&Bump", "&mut &Bump"][via as usize];
            let b1: B = Bump::with_size(256);
            let b2: B = Bump::with_size(256);
            let off = |b: &B, p: usize| -> (usize, usize) {
                let st = b.stats();
                match st.small_to_big().enumerate().find(|(_, c)| (c.chunk_start().as_ptr() as usize) <= p && p <= c.chunk_end().as_ptr() as usize) {
                    Some((i, c)) => (i, p - c.chunk_start().as_ptr() as usize), None => (usize::MAX, 0) }
            };
            // live blocks: (ptr in b1, ptr in b2, layout, fill byte)
            let mut live: Vec<(NonNull<u8>, NonNull<u8>, Layout, u8)> = vec![];
            let mut fillb = 1u8;
            let steps = $r.range(4, 30);
            let mut trace = String::new();
            'steps: for _ in 0..steps {
                let op = if live.is_empty() { 0 } else { $r.below(6) };
                let size = match $r.below(4) { 0 => 0usize, 1 => $r.range(1, 16) as usize, 2 => $r.range(1, 120) as usize, _ => $r.range(100, 700) as usize };
                // alignments up to the chunk alignment only: the two arenas' chunks sit at unrelated addresses
                let align = 1usize << $r.below(5);
                let nl = Layout::from_size_align(size, align).unwrap();
                let res: Option<(NonNull<[u8]>, NonNull<[u8]>)>;
                let mut idx = 0usize;
                match op {
                    0 | 1 => {
                        trace.push_str(&format!(" alloc({size},{align})"));
                        let x = own_op(via, &b1, Req::Alloc(nl)); let y = foreign_op(via, &b2, Req::Alloc(nl));
                        res = match (x, y) { (Ok(x), Ok(y)) => Some((x, y)), (Err(_), Err(_)) => None,
                            _ => { $notes.push(format!("entry-points-differ: allocate({size},{align}) succeeds through one Allocator trait and fails through the other ({via_name}, {tag}):{trace}")); break 'steps; } };
                        if let Some((x, y)) = res { unsafe { x.cast::<u8>().as_ptr().write_bytes(fillb, size); y.cast::<u8>().as_ptr().write_bytes(fillb, size); } live.push((x.cast(), y.cast(), nl, fillb)); fillb = fillb.wrapping_add(1).max(1); }
                    }
                    2 | 3 => {
                        idx = $r.below(live.len() as u64) as usize;
                        let (p1, p2, ol, fb) = live[idx];
                        let nl = Layout::from_size_align(ol.size() + size, if $r.coin(1, 4) { align } else { ol.align() }).unwrap();
                        let zeroed = op == 3;
                        trace.push_str(&format!(" grow{}#{idx}({}->{},{})", if zeroed { "_zeroed" } else { "" }, ol.size(), nl.size(), nl.align()));
                        let (x, y) = if zeroed { (own_op(via, &b1, Req::GrowZeroed(p1, ol, nl)), foreign_op(via, &b2, Req::GrowZeroed(p2, ol, nl))) } else { (own_op(via, &b1, Req::Grow(p1, ol, nl)), foreign_op(via, &b2, Req::Grow(p2, ol, nl))) };
                        res = match (x, y) { (Ok(x), Ok(y)) => Some((x, y)), (Err(_), Err(_)) => None,
                            _ => { $notes.push(format!("entry-points-differ: grow succeeds through one Allocator trait and fails through the other ({via_name}, {tag}):{trace}")); break 'steps; } };
                        if let Some((x, y)) = res {
                            for (nm, q) in [("own", x), ("allocator-api2", y)] {
                                let sl = unsafe { core::slice::from_raw_parts(q.cast::<u8>().as_ptr(), nl.size()) };
                                if sl[..ol.size()].iter().any(|b| *b != fb) { $notes.push(format!("entry-points-differ: grow through the {nm} Allocator trait lost the old contents ({via_name}, {tag}):{trace}")); }
                                if zeroed && sl[ol.size()..].iter().any(|b| *b != 0) { $notes.push(format!("entry-points-differ: grow_zeroed through the {nm} Allocator trait left a non-zero tail ({via_name}, {tag}):{trace}")); }
                            }
                            unsafe { x.cast::<u8>().as_ptr().write_bytes(fb, nl.size()); y.cast::<u8>().as_ptr().write_bytes(fb, nl.size()); }
                            live[idx] = (x.cast(), y.cast(), nl, fb);
                        }
                    }
                    4 => {
                        idx = $r.below(live.len() as u64) as usize;
                        let (p1, p2, ol, fb) = live[idx];
                        let ns = $r.below(ol.size() as u64 + 1) as usize;
                        let nl = Layout::from_size_align(ns, if $r.coin(1, 4) { align } else { ol.align() }).unwrap();
                        trace.push_str(&format!(" shrink#{idx}({}->{},{})", ol.size(), nl.size(), nl.align()));
                        let (x, y) = (own_op(via, &b1, Req::Shrink(p1, ol, nl)), foreign_op(via, &b2, Req::Shrink(p2, ol, nl)));
                        res = match (x, y) { (Ok(x), Ok(y)) => Some((x, y)), (Err(_), Err(_)) => None,
                            _ => { $notes.push(format!("entry-points-differ: shrink succeeds through one Allocator trait and fails through the other ({via_name}, {tag}):{trace}")); break 'steps; } };
                        if let Some((x, y)) = res {
                            for (nm, q) in [("own", x), ("allocator-api2", y)] {
                                let sl = unsafe { core::slice::from_raw_parts(q.cast::<u8>().as_ptr(), nl.size()) };
                                if sl.iter().any(|b| *b != fb) { $notes.push(format!("entry-points-differ: shrink through the {nm} Allocator trait lost the contents ({via_name}, {tag}):{trace}")); }
                            }
                            live[idx] = (x.cast(), y.cast(), nl, fb);
                        }
                    }
                    _ => {
                        idx = $r.below(live.len() as u64) as usize;
                        let (p1, p2, ol, _) = live.remove(idx);
                        trace.push_str(&format!(" dealloc#{idx}({})", ol.size()));
                        let _ = own_op(via, &b1, Req::Dealloc(p1, ol)); let _ = foreign_op(via, &b2, Req::Dealloc(p2, ol));
                        res = None;
                    }
                }
                if let Some((x, y)) = res {
                    let (ox, oy) = (off(&b1, x.cast::<u8>().as_ptr() as usize), off(&b2, y.cast::<u8>().as_ptr() as usize));
                    if x.len() != y.len() || (x.len() != 0 && ox != oy) {
                        $notes.push(format!("entry-points-differ: the crate's Allocator trait returns (chunk {}, offset {}, len {}), the allocator-api2 one (chunk {}, offset {}, len {}) ({via_name}, {tag}):{trace}", ox.0, ox.1, x.len(), oy.0, oy.1, y.len()));
                        break 'steps;
                    }
                }
                if b1.stats().allocated() != b2.stats().allocated() || b1.stats().count() != b2.stats().count() {
                    $notes.push(format!("entry-points-differ: allocated {} / {} chunks after the crate's Allocator trait, {} / {} after the allocator-api2 one ({via_name}, {tag}):{trace}", b1.stats().allocated(), b1.stats().count(), b2.stats().allocated(), b2.stats().count()));
                    break 'steps;
                }
                // every live block still holds its pattern, in both arenas
                for (k, (p1, p2, l, fb)) in live.iter().enumerate() {
                    for (nm, q) in [("own", p1), ("allocator-api2", p2)] {
                        let sl = unsafe { core::slice::from_raw_parts(q.as_ptr(), l.size()) };
                        if sl.iter().any(|b| b != fb) { $notes.push(format!("entry-points-differ: block #{k} changed in the arena driven through the {nm} Allocator trait ({via_name}, {tag}):{trace}")); break 'steps; }
                    }
                }
            }
            // ---- a real client: allocator_api2's Vec and Box on the arena, std's Vec in lock-step
            {
                let b: B = Bump::with_size(128);
                let keep = b.alloc_slice_fill(7, 0x77u8).as_ptr() as usize;
                let mut v: allocator_api2::vec::Vec<u32, &B> = allocator_api2::vec::Vec::new_in(&b);
                let mut w: std::vec::Vec<u32> = vec![];
                let mut t2 = String::new();
                for i in 0..$r.range(5, 40) {
                    match $r.below(8) {
                        0 | 1 | 2 => { let x = $r.next() as u32; v.push(x); w.push(x); t2.push_str(" push"); }
                        3 => { let k = $r.range(0, 50) as usize; v.extend((0..k as u32).map(|j| j * 3 + i as u32)); w.extend((0..k as u32).map(|j| j * 3 + i as u32)); t2.push_str(&format!(" extend({k})")); }
                        4 => { let k = $r.below(w.len() as u64 + 1) as usize; v.truncate(k); w.truncate(k); t2.push_str(&format!(" truncate({k})")); }
                        5 => { v.shrink_to_fit(); w.shrink_to_fit(); t2.push_str(" shrink_to_fit"); }
                        6 => { let k = $r.range(0, 100) as usize; v.reserve(k); t2.push_str(&format!(" reserve({k})")); }
                        _ => { let bx = allocator_api2::boxed::Box::new_in([i as u64; 3], &b); if *bx != [i as u64; 3] { $notes.push(format!("entry-points-differ: an allocator_api2 Box on the arena reads back wrong ({tag})")); } if $r.coin(1, 2) { core::mem::forget(bx); } t2.push_str(" box"); }
                    }
                    if v.as_slice() != w.as_slice() { $notes.push(format!("entry-points-differ: an allocator_api2 Vec with the arena as its allocator differs from std's Vec ({tag}):{t2}")); break; }
                }
                drop(v);
                if unsafe { core::slice::from_raw_parts(keep as *const u8, 7) } != [0x77u8; 7] { $notes.push(format!("entry-points-differ: an earlier allocation changed while an allocator_api2 Vec used the arena ({tag}):{t2}")); }
                // BumpBox -> allocator_api2 Box (into_box): the value is dropped once, by the Box
                struct Cnt<'a>(&'a core::cell::Cell<u32>, u64);
                impl Drop for Cnt<'_> { fn drop(&mut self) { self.0.set(self.0.get() + 1); } }
                let drops = core::cell::Cell::new(0u32);
                let before = b.stats().allocated();
                let bb = b.alloc(Cnt(&drops, 0xFEED));
                let bx: allocator_api2::boxed::Box<Cnt, &B> = bb.into_box(&b);
                if bx.1 != 0xFEED || drops.get() != 0 { $notes.push(format!("entry-points-differ: BumpBox::into_box changed or dropped the value ({tag})")); }
                drop(bx);
                if drops.get() != 1 { $notes.push(format!("entry-points-differ: a value moved into an allocator_api2 Box by into_box was dropped {} times ({tag})", drops.get())); }
                if b.stats().allocated() > before + 16 && b.stats().count() == 1 { $notes.push(format!("entry-points-differ: dropping the allocator_api2 Box made by into_box left {} bytes allocated, {before} before ({tag})", b.stats().allocated())); }
            }
        }};
    }

    pub fn compat_probe(r: &mut Rng) -> Vec<String> {
        let mut notes: Vec<String> = vec![];
        match r.below(6) {
            0 => compat_with_settings!(1, true, notes, r),
            1 => compat_with_settings!(1, false, notes, r),
            2 => compat_with_settings!(8, true, notes, r),
            3 => compat_with_settings!(8, false, notes, r),
            4 => compat_with_settings!(16, true, notes, r),
            _ => compat_with_settings!(4, false, notes, r),
        }
        notes.sort();
        notes.dedup();
        notes
    }
}
