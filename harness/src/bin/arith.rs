//! C11 tie: runs the REAL `src/bumping.rs` (included unchanged from the working tree) on
//! boundary-biased valid inputs and prints one trace line per call for the extracted model.
#![allow(dead_code, unused)]
#[path = "/repo/src/bumping.rs"]
mod bumping;

use bumping::*;
use core::alloc::Layout;
use std::io::Write;
use verif_harness::{Rng, arg};

const IMAX: u64 = isize::MAX as u64;

fn gen_case(r: &mut Rng, fnk: u64) -> (u64, u64, u64, u64, u64, bool, bool, bool) {
    let up = fnk == 0 || fnk == 2;
    let m: u64 = 1 << r.below(5);
    // alignment: biased to small, all powers up to 2^63
    let ak = match r.below(10) {
        0..=4 => r.below(6),
        5..=7 => r.below(13),
        8 => r.below(30),
        _ => r.below(64),
    };
    let align: u64 = 1 << ak;
    let dummy = r.coin(1, 16);
    let (start, end);
    if dummy {
        let e = match r.below(4) {
            0 => 16,
            1 => (r.range(1, 1 << 40)) * 16,
            2 => u64::MAX - 31 - 16 * r.below(4),
            _ => (r.next() & !15).max(16).min(u64::MAX - 31),
        };
        end = e;
        start = e + 16;
    } else {
        // length of the free range
        let len = match r.below(10) {
            0 => 0,
            1 => r.below(64),
            2..=5 => r.below(1 << 13),
            6..=7 => r.below(1 << 24),
            8 => r.below(1 << 44),
            _ => r.range(IMAX - 4096, IMAX),
        };
        // position of the range in the address space
        let base = match r.below(8) {
            0 => 16 + r.below(64),
            1 => (u64::MAX - len.min(u64::MAX - 64)).saturating_sub(r.below(64)),
            2 => (1u64 << 63) - 4096 + r.below(8192),
            _ => r.range(4096, 1 << 47),
        };
        // all arithmetic in u128, clamped into the valid domain afterwards
        let top: u128 = (u64::MAX as u128) & !15; // largest 16-aligned address
        let b = base as u128;
        let l = len as u128;
        if up {
            // m | start, 16 | end, start <= end
            let mut s = b & !((m as u128) - 1);
            if s == 0 { s = 16; }
            if s > top { s = top; }
            let mut e = (s + l) & !15;
            if e > top { e = top; }
            if e < s { e = (s + 15) & !15; }
            if e > top { s = top; e = top; }
            if e - s > IMAX as u128 { e = (s + IMAX as u128) & !15; }
            start = s as u64; end = e as u64;
        } else {
            // 16 | start, m | end, start <= end
            let mut s = b & !15;
            if s == 0 { s = 16; }
            if s > top { s = top; }
            let mut e = (s + l) & !((m as u128) - 1);
            if e > u64::MAX as u128 { e = (u64::MAX as u128) & !((m as u128) - 1); }
            if e < s { e = s; }
            if e - s > IMAX as u128 { e = (s + IMAX as u128) & !((m as u128) - 1); }
            start = s as u64; end = e as u64;
        }
    }
    // size: around the fitting boundary, small constants, huge
    let max_size = IMAX - (align - 1);
    let rem = end.wrapping_sub(start);
    let size = match r.below(12) {
        0 => 0,
        1..=2 => r.below(18),
        3 => r.pick(&[15u64, 16, 17, 31, 32, 33, 64]),
        4..=6 => {
            // close to what is left after alignment padding
            let pad = if up { start.wrapping_neg() & (align - 1) } else { 0 };
            let base = rem.wrapping_sub(pad);
            base.wrapping_add(r.below(2 * align.min(64) + 3)).wrapping_sub(align.min(64) + 1)
        }
        7 => rem.wrapping_add(r.below(3)).wrapping_sub(1),
        8 => r.below(1 << 13),
        9 => r.below(align.saturating_mul(4).max(1)),
        10 => max_size - r.below(4).min(max_size),
        _ => r.next() >> r.below(63),
    }
    .min(max_size);
    let mut mult = r.coin(1, 2);
    let size = if mult && r.coin(2, 3) { size & !(align - 1) } else { size };
    if size % align != 0 { mult = false; }
    let ac = r.coin(1, 2);
    let sc = r.coin(1, 2);
    (start, end, m, size, align, ac, sc, mult)
}

thread_local! { static GUARDED: std::cell::Cell<bool> = const { std::cell::Cell::new(false) }; }

fn main() {
    assert_eq!(core::mem::size_of::<usize>(), 8, "the model is for 64-bit usize");
    let seed: u64 = arg("--seed", 1);
    let n: u64 = arg("--cases", 100_000);
    std::panic::set_hook(Box::new(|info| {
        if !GUARDED.with(|g| g.get()) {
            eprintln!("harness bug (panic outside the function under test): {info}");
        }
    }));
    let mut r = Rng::new(seed);
    let out = std::io::stdout();
    let mut w = std::io::BufWriter::new(out.lock());
    // replay mode: `--inputs FILE` re-runs exactly the inputs of that file (first 9 fields per line)
    let inputs: String = arg("--inputs", String::new());
    let fixed: Vec<Vec<String>> = if inputs.is_empty() {
        vec![]
    } else {
        std::fs::read_to_string(&inputs)
            .expect("cannot read --inputs file")
            .lines()
            .filter(|l| !l.trim().is_empty())
            .map(|l| l.split_whitespace().map(|x| x.to_string()).collect())
            .collect()
    };
    let total = if inputs.is_empty() { n } else { fixed.len() as u64 };
    for i in 0..total {
        let (fnk, (start, end, m, size, align, ac, sc, mult)) = if inputs.is_empty() {
            let fnk = r.below(4);
            (fnk, gen_case(&mut r, fnk))
        } else {
            let f = &fixed[i as usize];
            let fnk = ["U", "D", "PU", "PD"].iter().position(|t| *t == f[0]).expect("bad fn tag") as u64;
            let p = |k: usize| f[k].parse::<u64>().expect("bad number");
            (fnk, (p(1), p(2), p(3), p(4), p(5), f[6] == "1", f[7] == "1", f[8] == "1"))
        };
        let layout = Layout::from_size_align(size as usize, align as usize).expect("generator makes valid layouts");
        let mk = || BumpProps {
            start: start as usize,
            end: end as usize,
            min_align: m as usize,
            layout,
            align_is_const: ac,
            size_is_const: sc,
            size_is_multiple_of_align: mult,
        };
        let tag = ["U", "D", "PU", "PD"][fnk as usize];
        GUARDED.with(|g| g.set(true));
        let res: Result<Option<Vec<usize>>, _> = std::panic::catch_unwind(|| match fnk {
            0 => bump_up(mk()).map(|b| vec![b.ptr, b.new_pos]),
            1 => bump_down(mk()).map(|p| vec![p]),
            2 => bump_prepare_up(mk()).map(|r| vec![r.start, r.end]),
            _ => bump_prepare_down(mk()).map(|r| vec![r.start, r.end]),
        });
        GUARDED.with(|g| g.set(false));
        let rs = match res {
            Err(_) => "P".to_string(),
            Ok(None) => "N".to_string(),
            Ok(Some(v)) => format!("S {}", v.iter().map(|x| x.to_string()).collect::<Vec<_>>().join(" ")),
        };
        writeln!(w, "{tag} {start} {end} {m} {size} {align} {} {} {} {rs}", ac as u8, sc as u8, mult as u8).unwrap();
    }
}
