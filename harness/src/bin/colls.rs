//! C06 / C08 / C16 tie: slot-level collection algorithms of the REAL crate with an instrumented
//! element type (identity, drop log, scripted Drop panics) and scripted callback answers
//! (true / false / panic per invocation).  One trace line per operation for the extracted model;
//! std::vec::Vec runs in lock-step as the implementation-side oracle.
#![allow(dead_code, unused, clippy::all)]
use bump_scope::alloc::Global;
use bump_scope::{Bump, BumpBox, BumpVec, FixedBumpVec, MutBumpVec, MutBumpVecRev};
use std::cell::RefCell;
use std::collections::HashSet;
use std::fmt::Write as _;
use std::io::Write as _;
use std::panic::{AssertUnwindSafe, catch_unwind};
use verif_harness::{Rng, arg};

include!("colls_extras.inc.rs");
include!("colls_parts.inc.rs");
include!("colls_cap.inc.rs");
include!("colls_helpers.inc.rs");
include!("colls_misc.inc.rs");
include!("colls_gaps.inc.rs");

thread_local! {
    static DROPS: RefCell<Vec<u32>> = const { RefCell::new(Vec::new()) };
    static DROP_PANIC: RefCell<HashSet<u32>> = RefCell::new(HashSet::new());
}

struct E {
    id: u32,
}
impl Drop for E {
    fn drop(&mut self) {
        DROPS.with(|d| d.borrow_mut().push(self.id));
        let p = DROP_PANIC.with(|s| s.borrow().contains(&self.id));
        if p && !std::thread::panicking() {
            panic!("scripted panic in Drop of {}", self.id);
        }
    }
}

/// follow-up operations must not drop anything: report if they did, then discard
fn take_drops_keep() {
}

fn take_drops() -> Vec<u32> {
    DROPS.with(|d| std::mem::take(&mut *d.borrow_mut()))
}

fn list(v: &[u32]) -> String {
    v.iter().map(|x| x.to_string()).collect::<Vec<_>>().join(",")
}

/// answers of the callback: 'T', 'F', 'P'; beyond the script: 'T'
struct Oracle {
    ans: Vec<u8>,
    calls: usize,
}
impl Oracle {
    fn next(&mut self) -> bool {
        let a = self.ans.get(self.calls).copied().unwrap_or(b'T');
        self.calls += 1;
        match a {
            b'T' => true,
            b'F' => false,
            _ => panic!("scripted panic in callback"),
        }
    }
}

#[derive(Clone, Debug)]
enum Op {
    Truncate(usize),
    Pop,
    Remove(usize),
    SwapRemove(usize),
    Insert(usize, u32),
    Push(u32),
    Retain,
    DedupBy,
    Drain(usize, usize, usize, usize, u8),
    ExtractIf(usize),
    SplitOff(usize, usize),
}

struct Out {
    fin: Vec<u32>,
    yl: Vec<u32>,
    uw: bool,
    calls: usize,
    /// capacity bookkeeping observed (C08 / C16 monitors)
    notes: Vec<String>,
    /// split_off: the buffer windows of the two vectors right after the operation (SplitCap.v):
    /// kept offset,len,cap, split-off offset,len,cap (in elements, from the old buffer start), old capacity
    win: Option<String>,
}


/// every way the API offers to append / insert one element; the variant is chosen by the element's
/// id so a case replays exactly.  A `try_` variant that reports an error is turned into the panic
/// its twin would have raised, and the reference the `_mut` variants return must be the new element.
macro_rules! push_any {
    ($v:expr, $x:expr, $notes:expr) => {{
        let id: u32 = $x;
        match id % 8 {
            0 => $v.push(E { id }),
            1 => $v.push_with(|| E { id }),
            2 => { let r = $v.push_mut(E { id }); if r.id != id { $notes.push("push_mut returned a reference to another element".to_string()); } }
            3 => { let r = $v.push_mut_with(|| E { id }); if r.id != id { $notes.push("push_mut_with returned a reference to another element".to_string()); } }
            4 => $v.try_push(E { id }).unwrap_or_else(|_| panic!("try_push failed")),
            5 => $v.try_push_with(|| E { id }).unwrap_or_else(|_| panic!("try_push_with failed")),
            6 => match $v.try_push_mut(E { id }) { Ok(r) => { if r.id != id { $notes.push("try_push_mut returned a reference to another element".to_string()); } } Err(_) => panic!("try_push_mut failed") },
            _ => match $v.try_push_mut_with(|| E { id }) { Ok(r) => { if r.id != id { $notes.push("try_push_mut_with returned a reference to another element".to_string()); } } Err(_) => panic!("try_push_mut_with failed") },
        }
    }};
}
macro_rules! insert_any {
    ($v:expr, $i:expr, $x:expr, $notes:expr) => {{
        let id: u32 = $x;
        let i: usize = $i;
        match id % 4 {
            0 => $v.insert(i, E { id }),
            1 => { let r = $v.insert_mut(i, E { id }); if r.id != id { $notes.push("insert_mut returned a reference to another element".to_string()); } }
            2 => $v.try_insert(i, E { id }).unwrap_or_else(|_| panic!("try_insert failed")),
            _ => match $v.try_insert_mut(i, E { id }) { Ok(r) => { if r.id != id { $notes.push("try_insert_mut returned a reference to another element".to_string()); } } Err(_) => panic!("try_insert_mut failed") },
        }
    }};
}

macro_rules! common_ops {
    ($v:expr, $op:expr, $orc:expr, $yl:expr) => {
        match $op {
            Op::Truncate(n) => { $v.truncate(*n); true }
            Op::Pop => { if let Some(e) = $v.pop() { $yl.push(e.id); core::mem::forget(e); } true }
            Op::Remove(i) => { let e = $v.remove(*i); $yl.push(e.id); core::mem::forget(e); true }
            Op::SwapRemove(i) => { let e = $v.swap_remove(*i); $yl.push(e.id); core::mem::forget(e); true }
            Op::Retain => { $v.retain(|_e| $orc.next()); true }
            Op::DedupBy => { $v.dedup_by(|_a, _b| $orc.next()); true }
            Op::Drain(a, b, kf, kb, end) => {
                let mut d = $v.drain(*a..*b);
                for _ in 0..*kf { if let Some(e) = d.next() { $yl.push(e.id); core::mem::forget(e); } }
                for _ in 0..*kb { if let Some(e) = d.next_back() { $yl.push(e.id); core::mem::forget(e); } }
                match end { 0 => drop(d), 1 => d.keep_rest(), _ => core::mem::forget(d) }
                true
            }
            Op::ExtractIf(want) => {
                let mut it = $v.extract_if(|_e| $orc.next());
                let mut got = 0;
                while got < *want {
                    match it.next() { Some(e) => { $yl.push(e.id); core::mem::forget(e); got += 1; } None => break }
                }
                drop(it);
                true
            }
            _ => false,
        }
    };
}

fn ids_of(s: &[E]) -> Vec<u32> {
    s.iter().map(|e| e.id).collect()
}

/// runs `op` on a collection of kind `kind` holding `input`; returns what is observable
fn run_op(kind: &str, input: &[u32], op: &Op, ans: &[u8], up: bool) -> Out {
    let mut orc = Oracle { ans: ans.to_vec(), calls: 0 };
    let mut yl: Vec<u32> = vec![];
    let mut fin: Vec<u32> = vec![];
    let mut notes = vec![];
    let mut win: Option<String> = None;
    let mut bump: Bump = Bump::new();
    let uw;
    macro_rules! finish_vec {
        ($v:ident) => {{
            fin = ids_of($v.as_slice());
            if $v.capacity() < $v.len() { notes.push(format!("capacity {} < len {}", $v.capacity(), $v.len())); }
        }};
    }
    match kind {
        "bv" => {
            let mut v: BumpVec<E, &Bump> = BumpVec::with_capacity_in(input.len() + 2, &bump);
            let promised = v.capacity();
            let addr = v.as_ptr() as usize;
            for id in input { v.push(E { id: *id }); }
            let mut other: Option<BumpVec<E, &Bump>> = None;
            let r = catch_unwind(AssertUnwindSafe(|| {
                if !common_ops!(v, op, orc, yl) {
                    match op {
                        Op::Insert(i, x) => insert_any!(v, *i, *x, notes),
                        Op::Push(x) => push_any!(v, *x, notes),
                        Op::SplitOff(a, b) => { other = Some(v.split_off(*a..*b)); }
                        _ => {}
                    }
                }
            }));
            uw = r.is_err();
            if v.len() <= promised && !matches!(op, Op::SplitOff(..)) && v.as_ptr() as usize != addr && v.capacity() != 0 {
                notes.push("buffer moved although the promised capacity sufficed".into());
            }
            finish_vec!(v);
            if let Some(mut o) = other {
                yl.extend(ids_of(o.as_slice()));
                if matches!(op, Op::SplitOff(..)) && !uw {
                    let off = |p: usize, cap: usize| if cap == 0 { 0 } else { (p.wrapping_sub(addr)) / core::mem::size_of::<E>() };
                    win = Some(format!("{},{},{},{},{},{},{}", off(v.as_ptr() as usize, v.capacity()), v.len(), v.capacity(),
                                       off(o.as_ptr() as usize, o.capacity()), o.len(), o.capacity(), promised));
                    let total = v.capacity() + o.capacity();
                    if total != promised { notes.push(format!("split_off capacities {}+{} != {}", v.capacity(), o.capacity(), promised)); }
                    if v.capacity() < v.len() || o.capacity() < o.len() { notes.push("split_off part with capacity < len".into()); }
                    // C16: the parts are independent — fill the spare capacity of one part, shrink it,
                    // and re-read the other after every step
                    let keep_v = ids_of(v.as_slice());
                    let keep_o = ids_of(o.as_slice());
                    let mut k = 900_000u32;
                    while o.len() < o.capacity() && o.capacity() < 64 { k += 1; o.push(E { id: k }); if ids_of(v.as_slice()) != keep_v { notes.push("pushing onto the split-off part changed the remaining part".into()); break; } }
                    while v.len() < v.capacity() && v.capacity() < 64 { k += 1; v.push(E { id: k }); if ids_of(&o.as_slice()[..keep_o.len()]) != keep_o { notes.push("pushing onto the remaining part changed the split-off part".into()); break; } }
                    o.shrink_to_fit();
                    if ids_of(&v.as_slice()[..keep_v.len()]) != keep_v { notes.push("shrinking the split-off part changed the remaining part".into()); }
                    v.shrink_to_fit();
                    if ids_of(&o.as_slice()[..keep_o.len()]) != keep_o { notes.push("shrinking the remaining part changed the split-off part".into()); }
                    // growing one part beyond its capacity moves it; the sibling stays
                    for _ in 0..5 { k += 1; o.push(E { id: k }); }
                    if ids_of(&v.as_slice()[..keep_v.len()]) != keep_v { notes.push("growing the split-off part changed the remaining part".into()); }
                    for _ in 0..5 { k += 1; v.push(E { id: k }); }
                    if ids_of(&o.as_slice()[..keep_o.len()]) != keep_o { notes.push("growing the remaining part changed the split-off part".into()); }
                    take_drops_keep();
                }
                core::mem::forget(o);
            }
            core::mem::forget(v);
        }
        "mv" => {
            let mut v: MutBumpVec<E, &mut Bump> = MutBumpVec::with_capacity_in(input.len() + 2, &mut bump);
            for id in input { v.push(E { id: *id }); }
            let r = catch_unwind(AssertUnwindSafe(|| {
                if !common_ops!(v, op, orc, yl) {
                    match op {
                        Op::Insert(i, x) => insert_any!(v, *i, *x, notes),
                        Op::Push(x) => push_any!(v, *x, notes),
                        _ => {}
                    }
                }
            }));
            uw = r.is_err();
            finish_vec!(v);
            core::mem::forget(v);
        }
        "fv" => {
            let mut v: FixedBumpVec<E> = FixedBumpVec::with_capacity_in(input.len() + 2, &bump);
            let cap0 = v.capacity();
            let addr = v.as_ptr() as usize;
            for id in input { v.push(E { id: *id }); }
            let mut other: Option<FixedBumpVec<E>> = None;
            let r = catch_unwind(AssertUnwindSafe(|| {
                if !common_ops!(v, op, orc, yl) {
                    match op {
                        Op::Insert(i, x) => insert_any!(v, *i, *x, notes),
                        Op::Push(x) => push_any!(v, *x, notes),
                        Op::SplitOff(a, b) => { other = Some(v.split_off(*a..*b)); }
                        _ => {}
                    }
                }
            }));
            uw = r.is_err();
            if !matches!(op, Op::SplitOff(..)) && (v.as_ptr() as usize != addr || v.capacity() != cap0) {
                notes.push("fixed vector reallocated".into());
            }
            finish_vec!(v);
            if let Some(o) = other {
                yl.extend(ids_of(o.as_slice()));
                if !uw {
                    let off = |p: usize, cap: usize| if cap == 0 { 0 } else { (p.wrapping_sub(addr)) / core::mem::size_of::<E>() };
                    win = Some(format!("{},{},{},{},{},{},{}", off(v.as_ptr() as usize, v.capacity()), v.len(), v.capacity(),
                                       off(o.as_ptr() as usize, o.capacity()), o.len(), o.capacity(), cap0));
                    if v.capacity() + o.capacity() != cap0 { notes.push(format!("split_off capacities {}+{} != {}", v.capacity(), o.capacity(), cap0)); }
                    if v.capacity() < v.len() || o.capacity() < o.len() { notes.push("split_off part with capacity < len".into()); }
                }
                core::mem::forget(o);
            }
            core::mem::forget(v);
        }
        "bb" => {
            let mut tmp: BumpVec<E, &Bump> = BumpVec::with_capacity_in(input.len(), &bump);
            for id in input { tmp.push(E { id: *id }); }
            let mut v: BumpBox<[E]> = tmp.into_boxed_slice();
            let mut other: Option<BumpBox<[E]>> = None;
            let r = catch_unwind(AssertUnwindSafe(|| {
                if !common_ops!(v, op, orc, yl) {
                    match op {
                        Op::SplitOff(a, b) => { other = Some(v.split_off(*a..*b)); }
                        _ => {}
                    }
                }
            }));
            uw = r.is_err();
            fin = ids_of(&v);
            if let Some(o) = other { yl.extend(ids_of(&o)); core::mem::forget(o); }
            core::mem::forget(v);
        }
        _ => {
            // "rv": MutBumpVecRev, front/back mirrored; `input` is its logical order
            let mut v: MutBumpVecRev<E, &mut Bump> = MutBumpVecRev::with_capacity_in(input.len() + 2, &mut bump);
            for id in input.iter().rev() { v.push(E { id: *id }); }
            let r = catch_unwind(AssertUnwindSafe(|| match op {
                Op::Truncate(n) => v.truncate(*n),
                Op::Pop => { if let Some(e) = v.pop() { yl.push(e.id); core::mem::forget(e); } }
                Op::Remove(i) => { let e = v.remove(*i); yl.push(e.id); core::mem::forget(e); }
                Op::SwapRemove(i) => { let e = v.swap_remove(*i); yl.push(e.id); core::mem::forget(e); }
                Op::Insert(i, x) => insert_any!(v, *i, *x, notes),
                Op::Push(x) => push_any!(v, *x, notes),
                _ => {}
            }));
            uw = r.is_err();
            fin = ids_of(v.as_slice());
            if v.capacity() < v.len() { notes.push("capacity < len".into()); }
            core::mem::forget(v);
        }
    }
    Out { fin, yl, uw, calls: orc.calls, notes, win }
}

/// the same operation on std::vec::Vec (identities only); None = std panics
fn std_op(input: &[u32], op: &Op, ans: &[u8]) -> Option<(Vec<u32>, Vec<u32>)> {
    let mut v: Vec<u32> = input.to_vec();
    let mut orc = Oracle { ans: ans.to_vec(), calls: 0 };
    let mut yl = vec![];
    let r = catch_unwind(AssertUnwindSafe(|| {
        match op {
            Op::Truncate(n) => v.truncate(*n),
            Op::Pop => { if let Some(x) = v.pop() { yl.push(x); } }
            Op::Remove(i) => yl.push(v.remove(*i)),
            Op::SwapRemove(i) => yl.push(v.swap_remove(*i)),
            Op::Insert(i, x) => v.insert(*i, *x),
            Op::Push(x) => v.push(*x),
            Op::Retain => v.retain(|_| orc.next()),
            Op::DedupBy => v.dedup_by(|_, _| orc.next()),
            Op::Drain(a, b, kf, kb, _) => {
                let mut d = v.drain(*a..*b);
                for _ in 0..*kf { if let Some(x) = d.next() { yl.push(x); } }
                for _ in 0..*kb { if let Some(x) = d.next_back() { yl.push(x); } }
            }
            Op::ExtractIf(want) => {
                let mut it = v.extract_if(.., |_| orc.next());
                let mut got = 0;
                while got < *want { match it.next() { Some(x) => { yl.push(x); got += 1; } None => break } }
            }
            Op::SplitOff(a, b) => { yl = v.drain(*a..*b).collect(); }
        }
    }));
    r.ok().map(|_| (v, yl))
}

/// C07 at collection level: growth requests whose size overflows are reported as errors and leave
/// the collection untouched; a failed push/reserve keeps length and contents
fn overflow_probe(r: &mut Rng) -> Vec<String> {
    let mut notes = vec![];
    let bump: Bump = Bump::new();
    let n = r.range(1, 6) as usize;
    macro_rules! probe {
        ($t:ty, $mk:expr) => {{
            let mut v: BumpVec<$t, &Bump> = BumpVec::new_in(&bump);
            for i in 0..n { v.push($mk(i)); }
            let before: Vec<$t> = v.iter().cloned().collect();
            let huge: [usize; 4] = [usize::MAX, usize::MAX / core::mem::size_of::<$t>(), (1usize << 61) + 1, isize::MAX as usize / core::mem::size_of::<$t>() + 1];
            for h in huge {
                let r1 = catch_unwind(AssertUnwindSafe(|| v.try_reserve(h).is_err()));
                let r2 = catch_unwind(AssertUnwindSafe(|| v.try_reserve_exact(h).is_err()));
                for (name, rr) in [("try_reserve", r1), ("try_reserve_exact", r2)] {
                    match rr {
                        Err(_) => notes.push(format!("{name}({h}) on BumpVec<{}> panicked instead of returning an error", stringify!($t))),
                        Ok(false) => notes.push(format!("{name}({h}) on BumpVec<{}> reported success", stringify!($t))),
                        Ok(true) => {}
                    }
                }
                if v.iter().cloned().collect::<Vec<$t>>() != before || v.len() != n { notes.push("a failed reserve changed length or contents".into()); }
            }
        }};
    }
    match r.below(3) { 0 => probe!(u64, |i| i as u64), 1 => probe!(u8, |i| i as u8), _ => probe!([u32; 3], |i| [i as u32; 3]) }
    // the other growable collections: a request whose size computation overflows is an error, never a
    // panic, never "success", and leaves length and contents alone (debug builds would otherwise panic
    // with "attempt to add with overflow", release builds wrap and report success)
    macro_rules! probe_other {
        ($name:expr, $vty:ty, $new:path, $bor:tt, $val:expr, $t:ty) => {{
            let mut b2: Bump = Bump::new();
            let mut v: $vty = probe_other!(@mk $new, $bor, b2);
            for _ in 0..n { v.push($val); }
            let es = core::mem::size_of::<$t>().max(1);
            let huge: [usize; 5] = [usize::MAX, usize::MAX - n + 1, usize::MAX / es, (1usize << 62) + 3, isize::MAX as usize / es + 1];
            for h in huge {
                let r1 = catch_unwind(AssertUnwindSafe(|| v.try_reserve(h).is_err()));
                match r1 {
                    Err(_) => notes.push(format!("try_reserve({h}) on {} panicked instead of returning an error", $name)),
                    Ok(false) => notes.push(format!("try_reserve({h}) on {} reported success", $name)),
                    Ok(true) => {}
                }
                if v.len() != n { notes.push(format!("a failed reserve changed the length of {}", $name)); }
            }
        }};
        (@mk $new:path, mutable, $b:ident) => { $new(&mut $b) };
        (@mk $new:path, shared, $b:ident) => { $new(&$b) };
    }
    match r.below(6) {
        0 => probe_other!("MutBumpVec<u64>", MutBumpVec<u64, &mut Bump>, MutBumpVec::new_in, mutable, 7u64, u64),
        1 => probe_other!("MutBumpVecRev<u64>", MutBumpVecRev<u64, &mut Bump>, MutBumpVecRev::new_in, mutable, 7u64, u64),
        2 => probe_other!("MutBumpVecRev<u8>", MutBumpVecRev<u8, &mut Bump>, MutBumpVecRev::new_in, mutable, 7u8, u8),
        3 => probe_other!("MutBumpVec<u8>", MutBumpVec<u8, &mut Bump>, MutBumpVec::new_in, mutable, 7u8, u8),
        4 => probe_other!("BumpString", bump_scope::BumpString<&Bump>, bump_scope::BumpString::new_in, shared, 'a', u8),
        _ => probe_other!("MutBumpString", bump_scope::MutBumpString<&mut Bump>, bump_scope::MutBumpString::new_in, mutable, 'a', u8),
    }
    notes
}

/// C08: operations that grow a vector whose buffer cannot grow in place (another allocation follows
/// it, or the arena bumps downwards), compared with std::vec::Vec; plain elements.
fn growth_probe(r: &mut Rng) -> Vec<String> {
    use bump_scope::settings::BumpSettings;
    let mut notes = vec![];
    let n = r.range(0, 10) as usize;
    let data: Vec<u32> = (0..n).map(|_| r.below(1000) as u32).collect();
    let extra: Vec<u32> = (0..r.range(0, 6) as usize).map(|_| 5000 + r.below(1000) as u32).collect();
    let a = r.below(n as u64 + 1) as usize;
    let b = a + r.below((n - a) as u64 + 1) as usize;
    let which = r.below(8);
    let block_growth = r.coin(2, 3);
    let mut sv = data.clone();
    let apply_std = |sv: &mut Vec<u32>| match which {
        0 => sv.extend_from_within(a..b),
        1 => sv.extend_from_within(a..b),
        2 => sv.extend_from_slice(&extra),
        3 => sv.extend_from_slice(&extra),
        4 => sv.resize(n + extra.len(), 7),
        5 => { let mut o = extra.clone(); sv.append(&mut o); }
        6 => { sv.insert(a, 77); }
        _ => { sv.push(78); sv.push(79); }
    };
    apply_std(&mut sv);
    let what = ["extend_from_within_copy", "extend_from_within_clone", "extend_from_slice_copy", "extend_from_slice_clone", "resize", "append", "insert", "push"][which as usize];
    macro_rules! run {
        ($bump:expr, $name:expr) => {{
            let bump = $bump;
            let mut v: BumpVec<u32, _> = BumpVec::with_capacity_in(n, &bump);
            for x in &data { v.push(*x); }
            // something allocated after the vector: its buffer cannot be extended in place
            let _neighbour = if block_growth { Some(bump.alloc(0xAAAA_AAAAu32)) } else { None };
            let r_ = catch_unwind(AssertUnwindSafe(|| match which {
                0 => v.extend_from_within_copy(a..b),
                1 => v.extend_from_within_clone(a..b),
                2 => v.extend_from_slice_copy(&extra),
                3 => v.extend_from_slice_clone(&extra),
                4 => v.resize(n + extra.len(), 7),
                5 => v.append(extra.clone()),
                6 => v.insert(a, 77),
                _ => { v.push(78); v.push(79); }
            }));
            if r_.is_err() { notes.push(format!("{} BumpVec::{what} panicked, std::vec::Vec does not", $name)); }
            else if v.as_slice() != &sv[..] { notes.push(format!("{} BumpVec::{what}: contents differ from std::vec::Vec: {:?} vs {:?}", $name, v.as_slice(), sv)); }
            if v.capacity() < v.len() { notes.push(format!("{} BumpVec::{what}: capacity {} < len {}", $name, v.capacity(), v.len())); }
            if let Some(nb) = &_neighbour { if **nb != 0xAAAA_AAAA { notes.push(format!("{} BumpVec::{what} overwrote a neighbouring allocation", $name)); } }
        }};
    }
    run!(Bump::<Global, BumpSettings<1, true>>::new(), "up");
    run!(Bump::<Global, BumpSettings<1, false>>::new(), "down");
    // the exclusive-borrow vectors (growth = prepare in a chunk that fits + copy)
    {
        let mut bump: Bump = Bump::with_size(64);
        let mut v: MutBumpVec<u32, &mut Bump> = MutBumpVec::with_capacity_in(n, &mut bump);
        for x in &data { v.push(*x); }
        let r_ = catch_unwind(AssertUnwindSafe(|| match which {
            0 => v.extend_from_within_copy(a..b),
            1 => v.extend_from_within_clone(a..b),
            2 => v.extend_from_slice_copy(&extra),
            3 => v.extend_from_slice_clone(&extra),
            4 => v.resize(n + extra.len(), 7),
            5 => v.append(extra.clone()),
            6 => v.insert(a, 77),
            _ => { v.push(78); v.push(79); }
        }));
        if r_.is_err() { notes.push(format!("MutBumpVec::{what} panicked, std::vec::Vec does not")); }
        else if v.as_slice() != &sv[..] { notes.push(format!("MutBumpVec::{what}: contents differ from std::vec::Vec: {:?} vs {:?}", v.as_slice(), sv)); }
    }
    {
        // the reversed vector: everything mirrored
        let mut bump: Bump = Bump::with_size(64);
        let mut v: MutBumpVecRev<u32, &mut Bump> = MutBumpVecRev::with_capacity_in(n, &mut bump);
        for x in data.iter().rev() { v.push(*x); }       // now reads as `data`
        let mut want = data.clone();
        // a MutBumpVecRev owns the rest of its chunk: in half of the cases fill it (almost) up first, so that the
        // operation has to move the vector into a new chunk
        if r.coin(1, 2) {
            let slack = r.below(3) as usize;
            let mut k = 0u32;
            while v.len() + slack < v.capacity() && v.len() < 4000 { k += 1; v.push(0x5000 + k); want.insert(0, 0x5000 + k); }
        }
        let data = want.clone();
        let (a, b) = (a.min(data.len()), b.min(data.len()));
        let ok = match which {
            0 => { v.extend_from_within_copy(a..b); let mut p = data[a..b].to_vec(); p.extend(want); want = p; true }
            1 => { v.extend_from_within_clone(a..b); let mut p = data[a..b].to_vec(); p.extend(want); want = p; true }
            2 => { v.extend_from_slice_copy(&extra); let mut p = extra.clone(); p.extend(want); want = p; true }
            3 => { v.extend_from_slice_clone(&extra); let mut p = extra.clone(); p.extend(want); want = p; true }
            6 => { v.insert(a, 77); want.insert(a, 77); true }
            7 => { v.push(78); v.push(79); want.insert(0, 78); want.insert(0, 79); true }
            _ => false,
        };
        if ok && v.as_slice() != &want[..] { notes.push(format!("MutBumpVecRev::{what}: contents differ from the mirrored std::vec::Vec: {:?} vs {:?}", v.as_slice(), want)); }
    }
    notes
}

/// C16: split_at / split_first / split_last / split_off_first / split_off_last / merge / partition
/// on BumpBox<[T]>, and that merge rejects parts that are not adjacent.
fn parts_probe(r: &mut Rng) -> Vec<String> {
    let mut notes = vec![];
    let bump: Bump = Bump::new();
    let n = r.range(0, 10) as usize;
    let data: Vec<u32> = (0..n).map(|i| 100 + i as u32).collect();
    let mid = r.below(n as u64 + 1) as usize;
    // split_at + merge restores the whole
    let b = bump.alloc_slice_copy(&data);
    let addr = b.as_ptr() as usize;
    let (l, rr) = b.split_at(mid);
    if &*l != &data[..mid] || &*rr != &data[mid..] { notes.push(format!("parts: split_at({mid}) of {data:?} gave {:?} and {:?}", &*l, &*rr)); }
    let m = catch_unwind(AssertUnwindSafe(|| l.merge(rr)));
    match m {
        Ok(m) => { if &*m != &data[..] || (n > 0 && m.as_ptr() as usize != addr) { notes.push(format!("parts: merge of the two halves of split_at({mid}) is {:?}, not {data:?}", &*m)); } }
        Err(_) => notes.push(format!("parts: merge of the adjacent halves of split_at({mid}) panicked")),
    }
    // first / last
    let b = bump.alloc_slice_copy(&data);
    match b.split_first() {
        Some((f, rest)) => { if n == 0 || *f != data[0] || &*rest != &data[1..] { notes.push("parts: split_first is not (first, rest)".into()); } }
        None => if n != 0 { notes.push("parts: split_first of a non-empty slice is None".into()); },
    }
    let b = bump.alloc_slice_copy(&data);
    match b.split_last() {
        Some((f, rest)) => { if n == 0 || *f != data[n - 1] || &*rest != &data[..n - 1] { notes.push("parts: split_last is not (last, rest)".into()); } }
        None => if n != 0 { notes.push("parts: split_last of a non-empty slice is None".into()); },
    }
    let mut b = bump.alloc_slice_copy(&data);
    match b.split_off_first() {
        Some(f) => { if n == 0 || *f != data[0] || &*b != &data[1..] { notes.push("parts: split_off_first is not first / rest".into()); } }
        None => if n != 0 { notes.push("parts: split_off_first of a non-empty slice is None".into()); },
    }
    let mut b = bump.alloc_slice_copy(&data);
    match b.split_off_last() {
        Some(f) => { if n == 0 || *f != data[n - 1] || &*b != &data[..n - 1] { notes.push("parts: split_off_last is not last / rest".into()); } }
        None => if n != 0 { notes.push("parts: split_off_last of a non-empty slice is None".into()); },
    }
    // partition: both parts in order, together the whole
    let b = bump.alloc_slice_copy(&data);
    let keep_even = r.coin(1, 2);
    let (t, f) = b.partition(|x| (*x % 2 == 0) == keep_even);
    let mut all: Vec<u32> = t.iter().chain(f.iter()).copied().collect();
    all.sort();
    if all != data || t.iter().any(|x| (*x % 2 == 0) != keep_even) || f.iter().any(|x| (*x % 2 == 0) == keep_even) { notes.push(format!("parts: partition of {data:?} gave {:?} / {:?}", &*t, &*f)); }
    // merge must reject parts that are not adjacent: a gap between them, the wrong order, an empty
    // part that lives somewhere else
    let other: Vec<u32> = (0..r.range(1, 5) as usize).map(|i| 900 + i as u32).collect();
    let which = r.below(4);
    let rejected = {
        let x = bump.alloc_slice_copy(&data);
        let _gap = bump.alloc(0u64);
        let y = bump.alloc_slice_copy(&other);
        match which {
            0 => catch_unwind(AssertUnwindSafe(|| { let m = x.merge(y); m.len() })),
            1 => { if n == 0 { Err(Box::new(()) as Box<dyn std::any::Any + Send>) } else { let (p, q) = x.split_at(mid.max(1).min(n)); if q.is_empty() { Err(Box::new(()) as Box<dyn std::any::Any + Send>) } else { catch_unwind(AssertUnwindSafe(|| { let m = q.merge(p); m.len() })) } } }
            2 => { let e: BumpBox<[u32]> = BumpBox::default(); catch_unwind(AssertUnwindSafe(|| { let m = e.merge(y); m.len() })) }
            _ => { let mut x2 = x; let e = if n >= 2 { x2.split_off(1..1) } else { BumpBox::default() }; catch_unwind(AssertUnwindSafe(|| { let m = e.merge(y); m.len() })) }
        }
    };
    if let Ok(len) = rejected { notes.push(format!("parts: merge accepted two parts that are not adjacent (variant {which}) and returned {len} elements")); }
    notes
}

/// C07 at collection level: a growth that the base allocator refuses is reported as an error by
/// every try_ method, and the collection keeps its length and contents; afterwards it works again.
mod refusal {
    use bump_scope::alloc::{AllocError, Allocator, Global};
    use bump_scope::{Bump, BumpString, BumpVec, MutBumpString, MutBumpVec, MutBumpVecRev};
    use std::alloc::Layout;
    use std::cell::Cell;
    use std::panic::{AssertUnwindSafe, catch_unwind};
    use std::ptr::NonNull;
    use verif_harness::Rng;

    thread_local! { static REFUSE: Cell<bool> = const { Cell::new(false) }; }

    #[derive(Clone, Default)]
    pub struct Moody;
    unsafe impl Allocator for Moody {
        fn allocate(&self, layout: Layout) -> Result<NonNull<[u8]>, AllocError> {
            if REFUSE.with(|r| r.get()) { return Err(AllocError); }
            Global.allocate(layout)
        }
        unsafe fn deallocate(&self, ptr: NonNull<u8>, layout: Layout) { unsafe { Global.deallocate(ptr, layout) } }
    }

    pub fn refusal_probe(r: &mut Rng) -> Vec<String> {
        let mut notes = vec![];
        let n = r.range(1, 12) as usize;
        let data: Vec<u32> = (0..n as u32).map(|i| 7 * i + 1).collect();
        let big = r.range(2000, 60000) as usize;     // certainly more than the chunk has left
        let which = r.below(6);
        macro_rules! vec_case {
            ($name:expr, $rev:expr) => {{
                let bump: Bump<Moody> = Bump::new_in(Moody);
                let mut v: BumpVec<u32, &Bump<Moody>> = BumpVec::new_in(&bump);
                for x in &data { v.push(*x); }
                let before: Vec<u32> = v.iter().copied().collect();
                REFUSE.with(|r| r.set(true));
                let extra = vec![9u32; big];
                let res = catch_unwind(AssertUnwindSafe(|| match which {
                    0 => v.try_reserve(big).is_err(),
                    1 => v.try_extend_from_slice_copy(&extra).is_err(),
                    2 => v.try_resize(n + big, 5).is_err(),
                    3 => v.try_reserve_exact(big).is_err(),
                    4 => v.try_extend_from_slice_clone(&extra).is_err(),
                    _ => v.try_append(extra.clone()).is_err(),
                }));
                REFUSE.with(|r| r.set(false));
                match res {
                    Err(_) => notes.push(format!("a failed reserve: {} try_ operation {which} panicked when the base allocator refused", $name)),
                    Ok(false) => notes.push(format!("a failed reserve: {} try_ operation {which} reported success although the base allocator refused", $name)),
                    Ok(true) => {}
                }
                let after: Vec<u32> = v.iter().copied().collect();
                if after != before { notes.push(format!("a failed reserve: {} changed length or contents after a refused growth ({} -> {} elements)", $name, before.len(), after.len())); }
                // and it keeps working
                if v.try_push(4242).is_err() { notes.push(format!("a failed reserve: {} cannot push after a refused growth", $name)); }
                let mut want = before.clone();
                if $rev { want.insert(0, 4242) } else { want.push(4242) }
                if v.iter().copied().collect::<Vec<u32>>() != want { notes.push(format!("a failed reserve: {} has wrong contents after the refusal was over", $name)); }
            }};
        }
        match r.below(3) {
            0 => vec_case!("BumpVec", false),
            1 => { let mut b2: Bump<Moody> = Bump::new_in(Moody);
                   let mut v: MutBumpVec<u32, &mut Bump<Moody>> = MutBumpVec::new_in(&mut b2);
                   for x in &data { v.push(*x); }
                   let before: Vec<u32> = v.iter().copied().collect();
                   REFUSE.with(|r| r.set(true));
                   let extra = vec![9u32; big];
                   let res = catch_unwind(AssertUnwindSafe(|| match which % 3 { 0 => v.try_reserve(big).is_err(), 1 => v.try_extend_from_slice_copy(&extra).is_err(), _ => v.try_resize(n + big, 5).is_err() }));
                   REFUSE.with(|r| r.set(false));
                   if !matches!(res, Ok(true)) { notes.push(format!("a failed reserve: MutBumpVec try_ operation did not report the refusal as an error ({res:?})")); }
                   if v.iter().copied().collect::<Vec<u32>>() != before { notes.push("a failed reserve: MutBumpVec changed length or contents after a refused growth".into()); }
                   if v.try_push(4242).is_err() { notes.push("a failed reserve: MutBumpVec cannot push after a refused growth".into()); } }
            _ => { let mut b2: Bump<Moody> = Bump::new_in(Moody);
                   let mut v: MutBumpVecRev<u32, &mut Bump<Moody>> = MutBumpVecRev::new_in(&mut b2);
                   for x in &data { v.push(*x); }
                   let before: Vec<u32> = v.iter().copied().collect();
                   REFUSE.with(|r| r.set(true));
                   let extra = vec![9u32; big];
                   let res = catch_unwind(AssertUnwindSafe(|| match which % 2 { 0 => v.try_reserve(big).is_err(), _ => v.try_extend_from_slice_copy(&extra).is_err() }));
                   REFUSE.with(|r| r.set(false));
                   if !matches!(res, Ok(true)) { notes.push(format!("a failed reserve: MutBumpVecRev try_ operation did not report the refusal as an error ({res:?})")); }
                   if v.iter().copied().collect::<Vec<u32>>() != before { notes.push("a failed reserve: MutBumpVecRev changed length or contents after a refused growth".into()); }
                   if v.try_push(4242).is_err() { notes.push("a failed reserve: MutBumpVecRev cannot push after a refused growth".into()); } }
        }
        // strings
        {
            let bump: Bump<Moody> = Bump::new_in(Moody);
            let mut s: BumpString<&Bump<Moody>> = BumpString::new_in(&bump);
            let text: String = (0..n).map(|i| char::from_u32(0x61 + (i as u32 % 26)).unwrap()).collect();
            s.push_str(&text);
            REFUSE.with(|r| r.set(true));
            let long = "y".repeat(big);
            let res = catch_unwind(AssertUnwindSafe(|| match which % 4 { 0 => s.try_reserve(big).is_err(), 1 => s.try_push_str(&long).is_err(), 2 => s.try_insert_str(0, &long).is_err(), _ => s.try_replace_range(0..1, &long).is_err() }));
            REFUSE.with(|r| r.set(false));
            if !matches!(res, Ok(true)) { notes.push(format!("a failed reserve: BumpString try_ operation did not report the refusal as an error ({res:?})")); }
            if s.as_str() != text { notes.push("a failed reserve: BumpString changed after a refused growth".into()); }
            if s.try_push('z').is_err() { notes.push("a failed reserve: BumpString cannot push after a refused growth".into()); }
        }
        notes
    }
}

fn gen_op(r: &mut Rng, kind: &str, n: usize, next_id: &mut u32) -> Op {
    // indices: in range, boundary, out of range
    let idx = |r: &mut Rng| -> usize { match r.below(8) { 0 => n, 1 => n + 1 + r.below(3) as usize, 2 => 0, _ => if n == 0 { 0 } else { r.below(n as u64) as usize } } };
    let rng2 = |r: &mut Rng| -> (usize, usize) {
        match r.below(10) {
            0 => (0, n), 1 => (0, 0), 2 => (n, n),
            3 => { let b = idx(r); (b + 1 + r.below(2) as usize, b) }           // start > end
            4 => (idx(r), n + 1 + r.below(3) as usize),                       // end out of range
            _ => { let a = if n == 0 { 0 } else { r.below(n as u64 + 1) as usize }; let b = a + if n - a == 0 { 0 } else { r.below((n - a) as u64 + 1) as usize }; (a, b) }
        }
    };
    loop {
        let k = r.below(11);
        let op = match k {
            0 => Op::Truncate(match r.below(4) { 0 => 0, 1 => n + r.below(3) as usize, _ => if n == 0 { 0 } else { r.below(n as u64) as usize } }),
            1 => Op::Pop,
            2 => Op::Remove(idx(r)),
            3 => Op::SwapRemove(idx(r)),
            4 => { *next_id += 1; Op::Insert(idx(r), *next_id) }
            5 => { *next_id += 1; Op::Push(*next_id) }
            6 => Op::Retain,
            7 => Op::DedupBy,
            8 => { let (a, b) = rng2(r); let len = b.saturating_sub(a); Op::Drain(a, b, r.below(len as u64 + 2) as usize, r.below(len as u64 + 2) as usize, r.pick(&[0u8, 0, 0, 1, 1, 2])) }
            9 => Op::ExtractIf(match r.below(3) { 0 => n + 2, _ => r.below(n as u64 + 2) as usize }),
            _ => { let (a, b) = rng2(r); Op::SplitOff(a, b) }
        };
        let ok = match (kind, &op) {
            ("rv", Op::Retain | Op::DedupBy | Op::Drain(..) | Op::ExtractIf(..) | Op::SplitOff(..)) => false,
            ("mv", Op::SplitOff(..)) => false,
            ("bb", Op::Insert(..) | Op::Push(..)) => false,
            _ => true,
        };
        if ok { return op; }
    }
}

fn op_str(op: &Op) -> String {
    match op {
        Op::Truncate(n) => format!("truncate {n}"),
        Op::Pop => "pop".into(),
        Op::Remove(i) => format!("remove {i}"),
        Op::SwapRemove(i) => format!("swap_remove {i}"),
        Op::Insert(i, x) => format!("insert {i} {x}"),
        Op::Push(x) => format!("push {x}"),
        Op::Retain => "retain".into(),
        Op::DedupBy => "dedup_by".into(),
        Op::Drain(a, b, kf, kb, e) => format!("drain {a} {b} {kf} {kb} {e}"),
        Op::ExtractIf(w) => format!("extract_if {w}"),
        Op::SplitOff(a, b) => format!("split_off {a} {b}"),
    }
}

fn run_case(w: &mut impl std::io::Write, kind: &str, input: &[u32], op: &Op, ans: &[u8], dp: &[u32]) {
    let n = input.len();
    let input: Vec<u32> = input.to_vec();
    let op = op.clone();
    let ans: Vec<u8> = ans.to_vec();
    let dp: Vec<u32> = dp.to_vec();
        DROP_PANIC.with(|s| { let mut s = s.borrow_mut(); s.clear(); s.extend(dp.iter().copied()); });
        take_drops();
        let o = run_op(kind, &input, &op, &ans, true);
        let dr = take_drops();
        DROP_PANIC.with(|s| s.borrow_mut().clear());
        let mut x: Vec<String> = o.notes.iter().map(|s| format!("capacity: {s}")).collect();
        // ---- C06 monitor: every identity accounted for exactly once (kept | handed out | dropped)
        let mut all: Vec<u32> = input.clone();
        match &op { Op::Insert(_, id) | Op::Push(id) => all.push(*id), _ => {} }
        let leak = matches!(op, Op::Drain(_, _, _, _, 2));
        for id in &all {
            let c = o.fin.iter().filter(|y| *y == id).count() + o.yl.iter().filter(|y| *y == id).count() + dr.iter().filter(|y| *y == id).count();
            if c > 1 { x.push(format!("element {id} accounted {c} times (double drop / read after move)")); }
            if c == 0 && !leak { x.push(format!("element {id} lost")); }
        }
        for id in o.fin.iter().chain(o.yl.iter()).chain(dr.iter()) {
            if !all.contains(id) { x.push(format!("unknown element {id} appeared (stale slot)")); }
        }
        // ---- C08 monitor: std Vec in lock-step (front/back mirrored for the rev vector)
        if dp.is_empty() && !leak {
            let (sin, conj): (Vec<u32>, bool) = if kind == "rv" { (input.iter().rev().copied().collect(), true) } else { (input.clone(), false) };
            let sop = if conj { match &op { Op::Remove(i) if *i < n => Op::Remove(n - 1 - *i), Op::SwapRemove(i) if *i < n => Op::SwapRemove(n - 1 - *i), Op::Insert(i, v) if *i <= n => Op::Insert(n - *i, *v), Op::Remove(i) => Op::Remove(*i), Op::SwapRemove(i) => Op::SwapRemove(*i), Op::Insert(i, v) => Op::Insert(*i, *v), o => o.clone() } } else { op.clone() };
            let s = std_op(&sin, &sop, &ans);
            match s {
                None => { if !o.uw { x.push("std::vec::Vec panics on these arguments, the bump collection did not".into()); } }
                Some((sv, syl)) => {
                    if o.uw && !ans.iter().take(o.calls).any(|a| *a == b'P') { x.push("the bump collection panicked, std::vec::Vec does not".into()); }
                    if !o.uw {
                        let fin: Vec<u32> = if conj { o.fin.iter().rev().copied().collect() } else { o.fin.clone() };
                        let keep_rest = matches!(op, Op::Drain(_, _, _, _, 1));
                        if fin != sv && !keep_rest { x.push(format!("contents differ from std::vec::Vec: {:?} vs {:?}", fin, sv)); }
                        if o.yl != syl && !matches!(op, Op::SwapRemove(..)) { x.push(format!("returned values differ from std::vec::Vec: {:?} vs {:?}", o.yl, syl)); }
                    }
                }
            }
        }
        let ans_s: String = ans.iter().map(|c| *c as char).collect();
        let win_s = match &o.win { Some(x) => format!(";win={x}"), None => String::new() };
        writeln!(w, "C {kind} {};in={};ans={};dp={};fin={};yl={};dr={};uw={};calls={}{win_s}", op_str(&op), list(&input), ans_s, list(&dp),
                 list(&o.fin), list(&o.yl), list(&dr), o.uw as u8, o.calls).unwrap();
        for m in x { writeln!(w, "X colls {kind} {} :: {m}", op_str(&op)).unwrap(); }
}

fn parse_case(line: &str) -> Option<(String, Vec<u32>, Op, Vec<u8>, Vec<u32>)> {
    let rest = line.strip_prefix("C ")?;
    let mut parts = rest.split(';');
    let head: Vec<&str> = parts.next()?.split_whitespace().collect();
    let mut input = vec![]; let mut ans = vec![]; let mut dp = vec![];
    let ints = |s: &str| -> Vec<u32> { if s.is_empty() { vec![] } else { s.split(',').filter_map(|x| x.parse().ok()).collect() } };
    for p in parts {
        if let Some(v) = p.strip_prefix("in=") { input = ints(v); }
        if let Some(v) = p.strip_prefix("ans=") { ans = v.bytes().collect(); }
        if let Some(v) = p.strip_prefix("dp=") { dp = ints(v); }
    }
    let u = |i: usize| head[i].parse::<usize>().unwrap_or(0);
    let op = match head.get(1).copied()? {
        "truncate" => Op::Truncate(u(2)), "pop" => Op::Pop, "remove" => Op::Remove(u(2)), "swap_remove" => Op::SwapRemove(u(2)),
        "insert" => Op::Insert(u(2), u(3) as u32), "push" => Op::Push(u(2) as u32), "retain" => Op::Retain, "dedup_by" => Op::DedupBy,
        "drain" => Op::Drain(u(2), u(3), u(4), u(5), u(6) as u8), "extract_if" => Op::ExtractIf(u(2)), "split_off" => Op::SplitOff(u(2), u(3)),
        _ => return None,
    };
    Some((head[0].to_string(), input, op, ans, dp))
}

fn main() {
    let seed: u64 = arg("--seed", 1);
    let cases: usize = arg("--cases", 20000);
    let verbose = arg("--verbose-panics", 0u8) != 0;
    std::panic::set_hook(Box::new(move |info| { if verbose { eprintln!("{info}"); } }));
    let mut r = Rng::new(seed ^ 0xC011);
    let out = std::io::stdout();
    let mut w = std::io::BufWriter::new(out.lock());
    let input_file: String = arg("--input", String::new());
    if !input_file.is_empty() {
        for l in std::fs::read_to_string(&input_file).expect("cannot read --input").lines() {
            if let Some((kind, input, op, ans, dp)) = parse_case(l) { run_case(&mut w, &kind, &input, &op, &ans, &dp); }
            else if let Some(hp) = helpx::Params::parse(l) {
                writeln!(w, "{}", hp.line()).unwrap();
                for m in helpx::helpers_probe(&hp) { writeln!(w, "X colls helpers case :: {m}").unwrap(); }
            }
            else if let Some((fr, kind, fuse, ops)) = helpx::hh_parse(l) {
                writeln!(w, "{}", helpx::hh_line(&fr, kind, fuse, &ops)).unwrap();
                for m in helpx::hh_probe(&fr, kind, fuse, &ops) { writeln!(w, "X colls helpers case :: {m}").unwrap(); }
            }
            else if let Some(rest) = l.strip_prefix("HB ") {
                let f: Vec<&str> = rest.splitn(3, ' ').collect();
                if f.len() == 3 {
                    let ops: Vec<helpx::ZsOp> = f[2].split(';').filter_map(helpx::zs_parse).collect();
                    writeln!(w, "{l}").unwrap();
                    for m in helpx::zs_box_probe(f[0].parse().unwrap_or(0), f[1].parse().unwrap_or(-1), &ops) { writeln!(w, "X colls helpers case :: {m}").unwrap(); }
                }
            }
            else if let Some(rest) = l.strip_prefix("HZ ") {
                let f: Vec<&str> = rest.splitn(3, ' ').collect();
                if f.len() == 3 {
                    let ops: Vec<helpx::ZsOp> = f[2].split(';').filter_map(helpx::zs_parse).collect();
                    let (kind, fuse) = (f[0].parse().unwrap_or(0), f[1].parse().unwrap_or(-1));
                    writeln!(w, "{}", helpx::zs_line(kind, fuse, &ops)).unwrap();
                    for m in helpx::zs_probe(kind, fuse, &ops) { writeln!(w, "X colls helpers case :: {m}").unwrap(); }
                }
            }
            else if let Some(rest) = l.strip_prefix("G ") {
                if let Some(c) = gaps::Case::parse(rest) {
                    writeln!(w, "GB {}", c.line()).unwrap(); w.flush().unwrap();
                    let notes = gaps::run(&c);
                    for k in gaps::take_lines() { writeln!(w, "{k}").unwrap(); }
                    writeln!(w, "G {}", c.line()).unwrap();
                    for m in notes { writeln!(w, "X colls gaps case :: {m}").unwrap(); }
                }
            }
            else if l.starts_with("V ") {
                if let Some((notes, vline)) = capx::cap_replay(l) {
                    writeln!(w, "{vline}").unwrap();
                    for m in notes { writeln!(w, "X colls cap history :: {m}").unwrap(); }
                }
            }
            else if let Some(rest) = l.strip_prefix("C bx ") {
                // dividing / merging owned slices: re-run the recorded operation on as many elements
                let fields: Vec<&str> = rest.split(';').collect();
                let head: Vec<&str> = std::iter::once("bx").chain(fields[0].split(' ')).collect();
                let n = fields.iter().find_map(|f| f.strip_prefix("in=")).map_or(0, |v| if v.is_empty() { 0 } else { v.split(',').count() });
                let ans: Vec<u8> = fields.iter().find_map(|f| f.strip_prefix("ans=")).map_or(vec![], |v| v.bytes().collect());
                if let Some((notes, clines)) = partsx::parts_replay(&head, n, &ans) {
                    for c in clines { writeln!(w, "{c}").unwrap(); }
                    for m in notes { writeln!(w, "X colls parts case :: {m}").unwrap(); }
                }
            }
        }
        return;
    }
    let kinds = ["bv", "mv", "fv", "bb", "rv"];
    let mut next_id: u32 = 0;
    for case in 0..cases {
        if case % 200 == 0 {
            for m in overflow_probe(&mut r) { writeln!(w, "X colls bv reserve :: overflow: {m}").unwrap(); }
        }
        if case % 10 == 1 {
            for m in refusal::refusal_probe(&mut r) { writeln!(w, "X colls refusal probe :: {m}").unwrap(); }
        }
        if case % 10 == 3 {
            for m in growth_probe(&mut r) { writeln!(w, "X colls growth probe :: {m}").unwrap(); }
        }
        if case % 10 == 7 {
            for m in parts_probe(&mut r) { writeln!(w, "X colls parts probe :: {m}").unwrap(); }
        }
        if case % 10 == 2 {
            let (notes, vline) = capx::cap_history(&mut r, &mut |l: &str| { writeln!(w, "{l}").unwrap(); w.flush().unwrap(); });
            writeln!(w, "{vline}").unwrap();
            for m in notes { writeln!(w, "X colls cap history :: {m}").unwrap(); }
        }
        if case % 5 == 0 {
            let c = gaps::gen_case(&mut r);
            writeln!(w, "GB {}", c.line()).unwrap(); w.flush().unwrap();
            let notes = gaps::run(&c);
            for k in gaps::take_lines() { writeln!(w, "{k}").unwrap(); }
            writeln!(w, "G {}", c.line()).unwrap();
            for m in notes { writeln!(w, "X colls gaps case :: {m}").unwrap(); }
        }
        if case % 10 == 6 {
            let hp = helpx::gen_params(&mut r);
            writeln!(w, "{}", hp.line()).unwrap();
            for m in helpx::helpers_probe(&hp) { writeln!(w, "X colls helpers case :: {m}").unwrap(); }
        }
        if case % 10 == 8 {
            let (kind, fuse, ops) = helpx::gen_zs(&mut r);
            writeln!(w, "{}", helpx::zs_line(kind, fuse, &ops)).unwrap();
            for m in helpx::zs_probe(kind, fuse, &ops) { writeln!(w, "X colls helpers case :: {m}").unwrap(); }
        }
        if case % 10 == 9 {
            let fr = helpx::gen_frame(&mut r);
            let (kind, fuse, ops) = helpx::gen_zs(&mut r);
            writeln!(w, "{}", helpx::hh_line(&fr, kind, fuse, &ops)).unwrap();
            for m in helpx::hh_probe(&fr, kind, fuse, &ops) { writeln!(w, "X colls helpers case :: {m}").unwrap(); }
        }
        if case % 20 == 18 {
            let (_, fuse, ops) = helpx::gen_zs(&mut r);
            let n = r.below(14) as usize;
            writeln!(w, "HB {n} {fuse} {}", helpx::zs_line(0, 0, &ops).splitn(4, ' ').nth(3).unwrap_or("")).unwrap();
            for m in helpx::zs_box_probe(n, fuse, &ops) { writeln!(w, "X colls helpers case :: {m}").unwrap(); }
        }
        if case % 20 == 12 {
            let (notes, vline) = capx::zst_history(&mut r, &mut |l: &str| { writeln!(w, "{l}").unwrap(); w.flush().unwrap(); });
            writeln!(w, "{vline}").unwrap();
            for m in notes { writeln!(w, "X colls cap history :: {m}").unwrap(); }
        }
        if case % 5 == 4 {
            let (notes, clines) = partsx::parts_lines(&mut r);
            for c in clines { writeln!(w, "{c}").unwrap(); }
            for m in notes { writeln!(w, "X colls parts case :: {m}").unwrap(); }
        }
        if case % 10 == 7 {
            let ms = misc_probe(&mut r);
            for k in gaps::take_lines() { writeln!(w, "{k}").unwrap(); }
            for m in ms { writeln!(w, "X colls misc probe :: {m}").unwrap(); }
        }
        if case % 20 == 13 {
            for m in traits_probe(&mut r) { writeln!(w, "X colls traits probe :: {m}").unwrap(); }
        }
        if case % 20 == 3 {
            let ms = flatten_probe(&mut r);
            for k in gaps::take_lines() { writeln!(w, "{k}").unwrap(); }
            for m in ms { writeln!(w, "X colls flatten probe :: {m}").unwrap(); }
        }
        if case % 20 == 17 {
            for m in wrappers_probe(&mut r) { writeln!(w, "X colls wrappers probe :: {m}").unwrap(); }
        }
        if case % 10 == 9 {
            for m in sources_probe(&mut r) { writeln!(w, "X colls sources probe :: {m}").unwrap(); }
        }
        if case % 10 == 4 {
            for m in independence_probe(&mut r) { writeln!(w, "X colls parts probe :: {m}").unwrap(); }
        }
        if case % 10 == 1 || case % 10 == 6 {
            let (notes, cline) = producers_probe(&mut r);
            if let Some(c) = cline { writeln!(w, "{c}").unwrap(); }
            for m in notes { writeln!(w, "X colls producers probe :: {m}").unwrap(); }
        }
        if case % 10 == 5 {
            let (notes, cline) = extras_probe(&mut r);
            if let Some(c) = cline { writeln!(w, "{c}").unwrap(); }
            for m in notes { writeln!(w, "X colls extras probe :: {m}").unwrap(); }
        }
        let kind = r.pick(&kinds);
        let n = match r.below(8) { 0 => 0, 1 => 1, 2 => 2, _ => r.range(3, 12) as usize };
        let input: Vec<u32> = (0..n).map(|_| { next_id += 1; next_id }).collect();
        let op = gen_op(&mut r, kind, n, &mut next_id);
        // callback answers: mostly T/F, a panic at a random invocation in a third of the cases
        let mut ans: Vec<u8> = (0..n + 2).map(|_| if r.coin(1, 2) { b'T' } else { b'F' }).collect();
        if r.coin(1, 3) && !ans.is_empty() { let k = r.below(ans.len() as u64) as usize; ans[k] = b'P'; }
        // Drop panics: rarely, one element
        let dp: Vec<u32> = if r.coin(1, 8) && n > 0 { vec![input[r.below(n as u64) as usize]] } else { vec![] };
        run_case(&mut w, kind, &input, &op, &ans, &dp);
    }
}
