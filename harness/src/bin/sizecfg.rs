//! C12 tie: runs the REAL `src/chunk/size_config.rs` (and, for the fresh-chunk monitor, the real
//! `src/bumping.rs`) included unchanged from the working tree.
#![allow(dead_code, unused)]
#[path = "/repo/src/bumping.rs"]
mod bumping;
#[path = "/repo/src/chunk/size_config.rs"]
mod size_config;

use bumping::*;
use core::alloc::Layout;
use size_config::*;
use std::io::Write;
use verif_harness::{Rng, arg};

const IMAX: u64 = isize::MAX as u64;

fn header_layout(r: &mut Rng) -> (u64, u64) {
    // allocator value layout: size 0..256, align 1..256
    let aa: u64 = 1 << r.below(9);
    let sa: u64 = match r.below(4) { 0 => 0, 1 => 8, _ => r.below(257) };
    let sa = (sa + aa - 1) & !(aa - 1); // a type's size is a multiple of its alignment
    let ha = aa.max(16);
    let off = (32 + aa - 1) & !(aa - 1);
    let hs = (off + sa + ha - 1) & !(ha - 1);
    (hs, ha)
}

fn cfg(up: bool, hs: u64, ha: u64) -> ChunkSizeConfig {
    ChunkSizeConfig {
        up,
        assumed_malloc_overhead_layout: Layout::new::<[usize; 2]>(),
        chunk_header_layout: Layout::from_size_align(hs as usize, ha as usize).unwrap(),
    }
}

fn gen_layout(r: &mut Rng) -> (u64, u64) {
    let ak = match r.below(10) { 0..=5 => r.below(8), 6..=8 => r.below(30), _ => r.below(64) };
    let align: u64 = 1 << ak;
    let max_size = IMAX - (align - 1);
    let size = match r.below(10) {
        0 => 0,
        1..=3 => r.below(600),
        4..=5 => {
            // just below / at / above a power of two or a page multiple
            let p = if r.coin(1, 2) { 1u64 << r.range(5, 40) } else { 4096 * r.range(1, 1 << 20) };
            p.wrapping_sub(r.below(200)).wrapping_add(r.below(100))
        }
        6 => r.below(1 << 20),
        7 => r.below(1 << 40),
        8 => max_size - r.below(5000).min(max_size),
        _ => r.next() >> r.below(63),
    }
    .min(max_size);
    (size, align)
}

fn opt(o: Option<usize>) -> String {
    match o { None => "N".into(), Some(v) => format!("S {v}") }
}

thread_local! { static GUARDED: std::cell::Cell<bool> = const { std::cell::Cell::new(false) }; }

fn guarded<T>(f: impl FnOnce() -> T + std::panic::UnwindSafe) -> Result<T, ()> {
    GUARDED.with(|g| g.set(true));
    let r = std::panic::catch_unwind(f);
    GUARDED.with(|g| g.set(false));
    r.map_err(|_| ())
}

fn main() {
    assert_eq!(core::mem::size_of::<usize>(), 8);
    let seed: u64 = arg("--seed", 1);
    let n: u64 = arg("--cases", 100_000);
    std::panic::set_hook(Box::new(|info| {
        if !GUARDED.with(|g| g.get()) {
            eprintln!("harness bug (panic outside the function under test): {info}");
        }
    }));
    let mut r = Rng::new(seed);
    let out = std::io::stdout();
    let mut w = std::io::BufWriter::new(out.lock());
    for _ in 0..n {
        let up = r.coin(1, 2);
        let (hs, ha) = header_layout(&mut r);
        let c = cfg(up, hs, ha);
        match r.below(8) {
            0 => {
                let (size, align) = gen_layout(&mut r);
                let l = Layout::from_size_align(size as usize, align as usize).unwrap();
                let res = guarded(move || c.calc_hint_from_capacity(l));
                let rs = match res { Err(_) => "P".into(), Ok(o) => opt(o) };
                writeln!(w, "H {} {hs} {ha} {size} {align} {rs}", up as u8).unwrap();
            }
            1 => {
                let hint = match r.below(6) {
                    0 => r.below(8192),
                    1 => (1u64 << r.range(4, 63)).wrapping_add(r.below(64)).wrapping_sub(32),
                    2 => 4096 * r.below(1 << 30) + r.below(3),
                    3 => u64::MAX - r.below(10000),
                    _ => r.next() >> r.below(64),
                };
                let res = guarded(move || c.calc_size_from_hint(hint as usize).map(|x| x.get()));
                let rs = match res { Err(_) => "P".into(), Ok(o) => opt(o) };
                writeln!(w, "Z {} {hs} {ha} {hint} {rs}", up as u8).unwrap();
            }
            2 => {
                let size = r.next() >> r.below(64);
                let res = guarded(move || c.align_size(size as usize));
                let rs = match res { Err(_) => "P".into(), Ok(v) => format!("S {v}") };
                writeln!(w, "A {} {hs} {ha} {size} {rs}", up as u8).unwrap();
            }
            _ => {
                // fresh chunk monitor: chunk/size.rs composition (hand-modelled: max with the
                // minimum chunk size and with twice the previous chunk) + NonDummyChunk::new geometry
                let m: u64 = 1 << r.below(5);
                let (mut size, align) = gen_layout(&mut r);
                if size > (1 << 44) { size >>= 20; }
                let align = align.min(1 << 29);
                let size = size.min(IMAX - (align - 1));
                let minchunk: u64 = r.pick(&[0u64, 1, 64, 512, 4096, 65536]);
                let prev: u64 = if r.coin(1, 2) { 0 } else { 16 * r.below(1 << 16) };
                let extra: u64 = r.pick(&[0u64, 0, 1, 8, 15, 16, 17, 4096, 100000]).min(1 << 20);
                let extra = if r.coin(1, 4) { r.below(5000) } else { extra };
                let l = Layout::from_size_align(size as usize, align as usize).unwrap();
                let res = guarded(move || {
                    let req = c.calc_hint_from_capacity(l)?;
                    let grown = (prev as usize).checked_mul(2)?;
                    let hint = req.max(grown).max(minchunk as usize);
                    let n = c.calc_size_from_hint(hint)?.get();
                    Some((hint, n))
                });
                match res {
                    Err(_) => writeln!(w, "F {} {hs} {ha} {m} {size} {align} {minchunk} {prev} {extra} 0 P", up as u8).unwrap(),
                    Ok(None) => writeln!(w, "F {} {hs} {ha} {m} {size} {align} {minchunk} {prev} {extra} 0 N", up as u8).unwrap(),
                    Ok(Some((hint, n))) => {
                        let g = n as u64 + extra;
                        let u = c.align_size(g as usize) as u64;
                        // base address: ha-aligned, anywhere such that the block does not wrap past 2^63
                        let bmax = ((1u64 << 63) - g - 1) / ha;
                        let b = ha * match r.below(4) { 0 => 1, 1 => bmax.max(1), _ => r.range(1, bmax.max(1)) };
                        let (start, end) = if up { (b + hs, b + u) } else { (b, b + u - hs) };
                        let mult = size % align == 0;
                        // the three LayoutProps classes of src/layout.rs (Sized/Array need align | size)
                        let mut classes = vec![(false, false, false)];
                        if mult { classes.push((true, false, true)); classes.push((true, true, true)); }
                        let mut fits = 1;
                        for (ac, sc, mu) in classes {
                            let mk = move || BumpProps {
                                start: start as usize, end: end as usize, min_align: m as usize, layout: l,
                                align_is_const: ac, size_is_const: sc, size_is_multiple_of_align: mu,
                            };
                            let ok = guarded(move || {
                                let a = if up { bump_up(mk()).is_some() } else { bump_down(mk()).is_some() };
                                let p = if !mu { true } else if up { bump_prepare_up(mk()).is_some() } else { bump_prepare_down(mk()).is_some() };
                                a && p
                            });
                            if ok != Ok(true) { fits = 0; }
                        }
                        writeln!(w, "F {} {hs} {ha} {m} {size} {align} {minchunk} {prev} {extra} {b} S {hint} {n} {u} {fits}", up as u8).unwrap();
                    }
                }
            }
        }
    }
}
