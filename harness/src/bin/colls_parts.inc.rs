// Shared by colls.rs (include!): dividing and merging owned slices (BumpBox<[T]>), one trace line
// per operation for the Coq model (coq/Parts.v): split_at, split_first / split_last and their
// split_off_ twins, partition (predicate scripted per element), merge of two of three adjacent
// windows in any order.  Elements count their drops: dividing never drops or duplicates one.
mod partsx {
    use bump_scope::{Bump, BumpBox};
    use std::cell::RefCell;
    use std::panic::{AssertUnwindSafe, catch_unwind};
    use verif_harness::Rng;

    thread_local! { static PDROPS: RefCell<Vec<u32>> = const { RefCell::new(Vec::new()) }; }
    pub struct P(pub u32);
    impl Drop for P { fn drop(&mut self) { PDROPS.with(|d| d.borrow_mut().push(self.0)); } }
    fn drops() -> Vec<u32> { PDROPS.with(|d| std::mem::take(&mut *d.borrow_mut())) }
    fn ids(s: &[P]) -> Vec<u32> { s.iter().map(|d| d.0).collect() }

    #[derive(Clone, Debug)]
    pub enum POp { SplitAt(usize), First, Last, OffFirst, OffLast, Partition(Vec<bool>), Merge(usize, usize, usize, usize) }

    /// a generated case
    pub fn parts_lines(r: &mut Rng) -> (Vec<String>, Vec<String>) {
        let n = match r.below(6) { 0 => 0usize, 1 => 1, _ => r.range(0, 12) as usize };
        let base = r.below(1000) as u32 * 100;
        let op = match r.below(7) {
            0 => POp::SplitAt(match r.below(6) { 0 => 0, 1 => n, 2 => n + 1 + r.below(3) as usize, _ => r.below(n as u64 + 1) as usize }),
            1 => POp::First, 2 => POp::Last, 3 => POp::OffFirst, 4 => POp::OffLast,
            5 => {
                let ans: Vec<bool> = (0..n).map(|_| matches!(r.below(5), 0 | 1)).collect();
                POp::Partition(match r.below(8) { 0 => vec![true; n], 1 => vec![false; n], _ => ans })
            }
            _ => {
                let i = r.below(n as u64 + 1) as usize;
                let j = i + r.below((n - i) as u64 + 1) as usize;
                let x = r.below(3) as usize;
                let y = (x + 1 + r.below(2) as usize) % 3;
                POp::Merge(i, j, x, y)
            }
        };
        run_parts(n, base, &op)
    }

    /// replay of a recorded `C bx ...` line: (op words, number of elements, answers)
    pub fn parts_replay(head: &[&str], n: usize, ans: &[u8]) -> Option<(Vec<String>, Vec<String>)> {
        let u = |i: usize| head.get(i).and_then(|x| x.parse::<usize>().ok()).unwrap_or(0);
        let op = match head.get(1).copied()? {
            "split_at" => POp::SplitAt(u(2)), "split_first" => POp::First, "split_last" => POp::Last,
            "split_off_first" => POp::OffFirst, "split_off_last" => POp::OffLast,
            "partition" => POp::Partition((0..n).map(|k| ans.get(k).copied() == Some(b'T')).collect()),
            "merge" => { let (i, j, x, y) = (u(2).min(n), u(3).min(n), u(4).min(2), u(5).min(2)); if i > j || x == y { return None; } POp::Merge(i, j, x, y) }
            _ => return None,
        };
        Some(run_parts(n, 100, &op))
    }

    /// returns (monitor notes, trace lines)
    pub fn run_parts(n: usize, base: u32, op: &POp) -> (Vec<String>, Vec<String>) {
        let mut notes: Vec<String> = vec![];
        let mut lines: Vec<String> = vec![];
        let list = |v: &[u32]| v.iter().map(|x| x.to_string()).collect::<Vec<_>>().join(",");
        let input: Vec<u32> = (0..n as u32).map(|i| base + i).collect();
        let bump: Bump = Bump::new();
        drops();
        let make = || -> BumpBox<[P]> { bump.alloc_slice_fill_with(n, { let mut i = 0u32; move || { i += 1; P(base + i - 1) } }) };
        let line = |op: String, ans: &str, fin: &[u32], yl: &[u32], uw: bool, calls: usize| -> String {
            format!("C bx {op};in={};ans={ans};dp=;ex=;fin={};yl={};dr=;uw={};calls={calls}", list(&input), list(fin), list(yl), uw as u8)
        };
        match op.clone() {
            POp::SplitAt(mid) => {
                let b = make();
                match catch_unwind(AssertUnwindSafe(|| b.split_at(mid))) {
                    Ok((l, rr)) => { lines.push(line(format!("split_at {mid}"), "", &ids(&l), &ids(&rr), false, 0));
                        if mid > n { notes.push(format!("parts: split_at({mid}) of {n} elements did not panic")); }
                        else if ids(&l) != input[..mid] || ids(&rr) != input[mid..] { notes.push(format!("parts: split_at({mid}) of {input:?} gave {:?} and {:?}", ids(&l), ids(&rr))); }
                        if !drops().is_empty() { notes.push(format!("parts: split_at({mid}) dropped an element")); } }
                    Err(_) => { lines.push(line(format!("split_at {mid}"), "", &input, &[], true, 0));
                        if mid <= n { notes.push(format!("parts: split_at({mid}) of {n} elements panicked")); } }
                }
            }
            POp::First | POp::Last => {
                let b = make();
                let first = matches!(op, POp::First);
                let name = if first { "split_first" } else { "split_last" };
                match if first { b.split_first() } else { b.split_last() } {
                    Some((x, rest)) => {
                        lines.push(line(name.into(), "", &ids(&rest), &[x.0], false, 0));
                        let ok = n > 0 && if first { x.0 == input[0] && ids(&rest) == input[1..] } else { x.0 == input[n - 1] && ids(&rest) == input[..n - 1] };
                        if !ok { notes.push(format!("parts: {name} of {input:?} gave {} and {:?}", x.0, ids(&rest))); }
                        // both parts are still alive here: nothing may have been dropped yet
                        if !drops().is_empty() { notes.push(format!("parts: {name} dropped an element while dividing")); }
                    }
                    None => { lines.push(line(name.into(), "", &input, &[], false, 0)); if n != 0 { notes.push(format!("parts: {name} of a non-empty slice is None")); } }
                }
            }
            POp::OffFirst | POp::OffLast => {
                let mut b = make();
                let first = matches!(op, POp::OffFirst);
                let name = if first { "split_off_first" } else { "split_off_last" };
                match if first { b.split_off_first() } else { b.split_off_last() } {
                    Some(x) => {
                        lines.push(line(name.into(), "", &ids(&b), &[x.0], false, 0));
                        let ok = n > 0 && if first { x.0 == input[0] && ids(&b) == input[1..] } else { x.0 == input[n - 1] && ids(&b) == input[..n - 1] };
                        if !ok { notes.push(format!("parts: {name} of {input:?} gave {} and left {:?}", x.0, ids(&b))); }
                    }
                    None => { lines.push(line(name.into(), "", &ids(&b), &[], false, 0)); if n != 0 { notes.push(format!("parts: {name} of a non-empty slice is None")); } }
                }
            }
            POp::Partition(ans) => {
                let ans_s: String = ans.iter().map(|b| if *b { 'T' } else { 'F' }).collect();
                let b = make();
                let mut calls = 0usize;
                let (t, f) = b.partition(|x| { calls += 1; ans[(x.0 - base) as usize] });
                lines.push(line("partition".into(), &ans_s, &ids(&t), &ids(&f), false, calls));
                let mut all: Vec<u32> = ids(&t); all.extend(ids(&f)); all.sort();
                if all != input || t.iter().any(|x| !ans[(x.0 - base) as usize]) || f.iter().any(|x| ans[(x.0 - base) as usize]) {
                    notes.push(format!("parts: partition of {input:?} with answers {ans_s} gave {:?} / {:?}", ids(&t), ids(&f)));
                }
                if !drops().is_empty() { notes.push("parts: partition dropped an element".into()); }
            }
            POp::Merge(i, j, x, y) => {
                let b = make();
                let (a, rest) = b.split_at(i);
                let (m, c) = rest.split_at(j - i);
                let mut parts = [Some(a), Some(m), Some(c)];
                let px = parts[x].take().unwrap();
                let py = parts[y].take().unwrap();
                let off = [0, i, j];
                let len = [i, j - i, n - j];
                let adjacent = off[x] + len[x] == off[y];
                match catch_unwind(AssertUnwindSafe(|| px.merge(py))) {
                    Ok(mm) => {
                        lines.push(line(format!("merge {i} {j} {x} {y}"), "", &ids(&mm), &[], false, 0));
                        if !adjacent { notes.push(format!("parts: merge accepted two parts that are not adjacent (windows {x} and {y} of {n} elements cut at {i} and {j})")); }
                        else { let mut want: Vec<u32> = input[off[x]..off[x] + len[x]].to_vec(); want.extend(&input[off[y]..off[y] + len[y]]);
                               if ids(&mm) != want { notes.push(format!("parts: merge of windows {x} and {y} gave {:?}, not {want:?}", ids(&mm))); } }
                    }
                    Err(_) => {
                        lines.push(line(format!("merge {i} {j} {x} {y}"), "", &[], &[], true, 0));
                        if adjacent { notes.push(format!("parts: merge rejected a part and its right neighbour (windows {x} and {y} of {n} elements cut at {i} and {j})")); }
                    }
                }
            }
        }
        // every element dropped exactly once by now
        let mut d = drops();
        d.sort();
        if d != input { notes.push(format!("parts: after {op:?} the elements dropped are {d:?}, expected each of {input:?} once")); }
        (notes, lines)
    }
}
