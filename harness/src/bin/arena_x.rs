//! Extended arena correspondence harness: everything `arena` does on a smaller settings matrix,
//! plus claims (operations on the claimed handle), aligned / scoped_aligned /
//! borrow_mut_with_settings regions, and the prepared-slice primitives behind the `Mut*`
//! collections (typed and through `dyn BumpAllocatorCore`).
#![allow(dead_code, unused, clippy::all)]
use bump_scope::alloc::{AllocError, Allocator};
use bump_scope::settings::{BumpAllocatorSettings, BumpSettings, MinimumAlignment, SupportedMinimumAlignment};
use bump_scope::traits::{BumpAllocator, BumpAllocatorCore, BumpAllocatorScope, BumpAllocatorTyped, BumpAllocatorTypedScope};
use bump_scope::{Bump, BumpBox, BumpScope, WithoutDealloc, WithoutShrink};
use core::alloc::Layout;
use core::ptr::NonNull;
use std::fmt::Write as _;
use std::io::Write as _;
use std::panic::{AssertUnwindSafe, catch_unwind};
use verif_harness::arena_core::*;
use verif_harness::pool::{Ev, P32, P64, TA, with_pool};
use verif_harness::{Rng, arg};

/// extra state of the extended interpreter
struct Xs {
    /// raw pointers to the claimed (lower) handles, outermost first
    lower: Vec<*const ()>,
    /// an outstanding prepared slice: (ptr, cap, es, ea, rev, dyn, written elements)
    prepared: Option<(usize, usize, usize, usize, bool, bool, usize, u64)>,
    depth_total: usize,
    /// innermost region last: 0 scope, 1 claim, 2 aligned
    regions: Vec<u8>,
    /// the innermost region ends when st.ops_left drops to this value
    floors: Vec<usize>,
    /// the next region entered gets a budget of 0..2 operations
    quick_exit: bool,
}

const ELEMS: &[(usize, usize)] = &[(1, 1), (2, 2), (4, 4), (8, 8), (16, 16), (32, 32), (3, 1), (12, 4)];

fn prepare<A, S>(scope: &BumpScope<'_, A, S>, ty: usize, cap: usize, rev: bool, dynp: bool) -> Result<(usize, usize), AllocError>
where
    A: bump_scope::BaseAllocator<S::GuaranteedAllocated>,
    S: BumpAllocatorSettings,
{
    macro_rules! go {
        ($t:ty) => {{
            if dynp {
                let d: &dyn BumpAllocatorCore = scope;
                if rev { d.try_prepare_slice_allocation_rev::<$t>(cap).map(|(p, c)| (p.as_ptr() as usize, c)) }
                else { d.try_prepare_slice_allocation::<$t>(cap).map(|s| (s.as_ptr() as *mut u8 as usize, s.len())) }
            } else if rev {
                scope.try_prepare_slice_allocation_rev::<$t>(cap).map(|(p, c)| (p.as_ptr() as usize, c))
            } else {
                scope.try_prepare_slice_allocation::<$t>(cap).map(|s| (s.as_ptr() as *mut u8 as usize, s.len()))
            }
        }};
    }
    match ty { 0 => go!(u8), 1 => go!(u16), 2 => go!(u32), 3 => go!(u64), 4 => go!(u128), 5 => go!(T32), 6 => go!([u8; 3]), _ => go!([u32; 3]) }
}

unsafe fn commit<A, S>(scope: &BumpScope<'_, A, S>, ty: usize, ptr: usize, len: usize, cap: usize, rev: bool, dynp: bool) -> usize
where
    A: bump_scope::BaseAllocator<S::GuaranteedAllocated>,
    S: BumpAllocatorSettings,
{
    macro_rules! go {
        ($t:ty) => {{
            let p = NonNull::new(ptr as *mut $t).unwrap();
            let r = unsafe {
                if dynp {
                    let d: &dyn BumpAllocatorCore = scope;
                    if rev { d.allocate_prepared_slice_rev::<$t>(p, len, cap) } else { d.allocate_prepared_slice::<$t>(p, len, cap) }
                } else if rev { scope.allocate_prepared_slice_rev::<$t>(p, len, cap) } else { scope.allocate_prepared_slice::<$t>(p, len, cap) }
            };
            r.as_ptr() as *mut u8 as usize
        }};
    }
    match ty { 0 => go!(u8), 1 => go!(u16), 2 => go!(u32), 3 => go!(u64), 4 => go!(u128), 5 => go!(T32), 6 => go!([u8; 3]), _ => go!([u32; 3]) }
}

/// operations on a claimed (lower) handle: must fail / do nothing / report zeros
fn lower_op<A, S>(st: &mut St, xs: &mut Xs, k: u64)
where
    A: bump_scope::BaseAllocator<S::GuaranteedAllocated>,
    S: BumpAllocatorSettings,
{
    if xs.lower.is_empty() { return; }
    let hl = st.rng.below(xs.lower.len() as u64) as usize;
    let low: &BumpScope<'static, A, S> = unsafe { &*(xs.lower[hl] as *const BumpScope<'static, A, S>) };
    flush(st);
    match k {
        0 => {
            let size = st.rng.below(100) as usize;
            let align = 1usize << st.rng.below(5);
            let _ = writeln!(st.out, "O A {hl} 0 {size} {align} 0 0");
            let r = low.allocate(Layout::from_size_align(size, align).unwrap());
            st.epoch += 1;
            events_lines(st);
            match r {
                Ok(p) => { let _ = writeln!(st.out, "R B {} {size}", p.as_ptr() as *mut u8 as usize); st.x("claimed-handle-allocated", ""); }
                Err(_) => { let _ = writeln!(st.out, "R E"); }
            }
        }
        1 => {
            let _ = writeln!(st.out, "O ST {hl}");
            let s = low.stats();
            st.epoch += 1;
            let _ = writeln!(st.out, "R S {} {} {} {} {} {}", s.count(), s.size(), s.capacity(), s.allocated(), s.remaining(), low.is_claimed() as u8);
            if s.count() + s.size() + s.capacity() + s.allocated() + s.remaining() != 0 || !low.is_claimed() {
                st.x("claimed-handle-reports-nonzero-stats", "");
            }
        }
        2 => {
            let _ = writeln!(st.out, "O CL {hl}");
            let r = catch_unwind(AssertUnwindSafe(|| { let g = low.claim(); core::mem::forget(g); }));
            st.epoch += 1;
            match r {
                Err(_) => { let _ = writeln!(st.out, "R P"); }
                Ok(()) => { let _ = writeln!(st.out, "R U"); st.x("second-claim-did-not-panic", ""); }
            }
        }
        3 if !st.blocks.is_empty() => {
            // deallocate through the claimed handle: nothing may change
            let i = st.rng.below(st.blocks.len() as u64) as usize;
            let blk = st.blocks.remove(i);
            let _ = writeln!(st.out, "O D {hl} 0 {}", blk.id);
            unsafe { low.deallocate(NonNull::new(blk.ptr as *mut u8).unwrap(), Layout::from_size_align(blk.size, blk.align).unwrap()) };
            st.epoch += 1;
            events_lines(st);
            let _ = writeln!(st.out, "R U");
        }
        4 if !st.blocks.is_empty() => {
            let i = st.rng.below(st.blocks.len() as u64) as usize;
            let (id, ptr, osize, oalign) = { let k = &st.blocks[i]; (k.id, k.ptr, k.size, k.align) };
            let nsize = osize + st.rng.below(50) as usize;
            let _ = writeln!(st.out, "O G {hl} 0 {id} {nsize} {oalign} 0");
            let r = unsafe { low.grow(NonNull::new(ptr as *mut u8).unwrap(), Layout::from_size_align(osize, oalign).unwrap(), Layout::from_size_align(nsize, oalign).unwrap()) };
            st.epoch += 1;
            events_lines(st);
            match r {
                Ok(_) => { let _ = writeln!(st.out, "R B 0 0"); st.x("claimed-handle-allocated", "grow"); }
                Err(_) => { let _ = writeln!(st.out, "R E"); }
            }
        }
        5 => {
            // reserve through the claimed handle (also of 0 bytes): refused
            let n = match st.rng.below(3) { 0 => 0, 1 => st.rng.below(64) as usize, _ => st.rng.below(100000) as usize };
            let _ = writeln!(st.out, "O RV {hl} {n}");
            let r = low.try_reserve(n);
            st.epoch += 1;
            events_lines(st);
            match r {
                Ok(()) => { let _ = writeln!(st.out, "R U"); st.x("claimed-handle-allocated", &format!("try_reserve({n}) succeeded on a claimed handle")); }
                Err(_) => { let _ = writeln!(st.out, "R E"); }
            }
        }
        6 => {
            // the panicking twins on the claimed handle: an unwinding panic, nothing changes (no model step:
            // the statistics line of the next modelled step would show a difference)
            let which = st.rng.below(6);
            let r = catch_unwind(AssertUnwindSafe(|| match which {
                0 => { let b = low.alloc(7u32); core::mem::forget(b); }
                1 => { let b = low.alloc_slice_copy(&[1u16, 2, 3]); core::mem::forget(b); }
                2 => { low.reserve(1 + st.rng.below(40) as usize); }
                3 => { let b = low.alloc_str("claimed"); core::mem::forget(b); }
                4 => { let v: bump_scope::BumpVec<u32, _> = bump_scope::BumpVec::with_capacity_in(3, low); core::mem::forget(v); }
                _ => { let b = low.alloc_with(|| 9u64); core::mem::forget(b); }
            }));
            if r.is_ok() { st.x("claimed-handle-allocated", &format!("panicking entry point {which} returned normally on a claimed handle")); }
            // values of zero-sized types never touch the allocator and are exempt
            let z = catch_unwind(AssertUnwindSafe(|| { let b = low.alloc(()); core::mem::forget(b); let s = low.alloc_slice_copy::<()>(&[(), ()]); core::mem::forget(s); }));
            if z.is_err() { st.x("panic", "allocating a zero-sized value through a claimed handle panicked"); }
        }
        _ => {}
    }
}

fn run_x<A, S>(st: &mut St, xs: &mut Xs, scope: &mut BumpScope<'_, A, S>) -> bool
where
    A: bump_scope::BaseAllocator<S::GuaranteedAllocated>,
    S: BumpAllocatorSettings,
{
    loop {
        if st.dead { return false; }
        if st.ops_left <= xs.floors.last().copied().unwrap_or(0) {
            // abandon an outstanding prepared slice when the region ends
            xs.prepared = None;
            return false;
        }
        // inside an aligned / scoped_aligned region: now and then leave it by unwinding
        if xs.regions.last() == Some(&2) && xs.prepared.is_none() && st.rng.coin(1, 25) { return true; }
        let mut k = st.rng.below(100);
        // an arena that owns no chunk yet: exercise regions around it before the first allocation
        let empty = xs.prepared.is_none() && scope.stats().count() == 0 && !scope.is_claimed();
        if empty && st.rng.coin(2, 3) {
            k = st.rng.pick(&[55u64, 55, 67, 61, 0]);
            xs.quick_exit = st.rng.coin(2, 3);
        }
        match k {
            0..=54 if xs.prepared.is_none() => {
                // a core operation
                let (fail, op) = st.next_op(false);
                match op {
                    Op::End => return false,
                    Op::ScopeExit { panic } => {
                        // a scope ends here (normally or by unwinding); an aligned / scoped_aligned region can be left early
                        // by unwinding too (C18: "and unwinding out of any region")
                        if (xs.regions.last() == Some(&0) || (xs.regions.last() == Some(&2) && panic)) && xs.prepared.is_none() { return panic; }
                    }
                    Op::ScopeEnter => { if xs.depth_total < 6 { scope_x(st, xs, scope); } }
                    Op::Reset | Op::ResetToStart => {}
                    Op::TryErr { mutable, ty } => try_err(st, scope, fail, mutable, ty),
                    other => guarded_exec(st, scope, fail, &other),
                }
            }
            55..=60 if xs.prepared.is_none() && xs.depth_total < 6 => claim_x(st, xs, scope),
            61..=66 if xs.prepared.is_none() => { st.ops_left = st.ops_left.saturating_sub(1); let kk = st.rng.below(7); lower_op::<A, S>(st, xs, kk) }
            67..=72 if xs.prepared.is_none() && xs.depth_total < 6 => { st.ops_left = st.ops_left.saturating_sub(1); aligned_x(st, xs, scope) }
            73..=88 => { st.ops_left = st.ops_left.saturating_sub(1); prepared_x(st, xs, scope) }
            89..=99 if xs.prepared.is_none() => { st.ops_left = st.ops_left.saturating_sub(3); mutvec_x(st, xs, scope) }
            _ => { st.ops_left = st.ops_left.saturating_sub(1); }
        }
    }
}

fn scope_x<A, S>(st: &mut St, xs: &mut Xs, scope: &mut BumpScope<'_, A, S>)
where
    A: bump_scope::BaseAllocator<S::GuaranteedAllocated>,
    S: BumpAllocatorSettings,
{
    flush(st);
    let _ = writeln!(st.out, "O SC {}", st.h);
    st.epoch += 1;
    let ep = st.epoch;
    let ncp = st.cp_store.len();
    let _ = writeln!(st.out, "R U");
    stats_line(st, scope);
    xs.depth_total += 1;
    st.depth += 1;
    xs.regions.push(0);
    { let b = if xs.quick_exit { xs.quick_exit = false; st.rng.below(3) as usize } else { st.rng.range(3, 30) as usize }; let fl = st.ops_left.saturating_sub(b).max(xs.floors.last().copied().unwrap_or(0)); xs.floors.push(fl); }
    let alloc_before = scope.stats().allocated();
    let pos_before = scope.stats().current_chunk().map(|c| c.bump_position().as_ptr() as usize);
    let stp: *mut St = st;
    let xsp: *mut Xs = xs;
    let r = catch_unwind(AssertUnwindSafe(|| {
        scope.scoped(|inner| {
            let (st, xs) = unsafe { (&mut *stp, &mut *xsp) };
            if run_x(st, xs, inner) { panic!("scripted panic inside scope"); }
        })
    }));
    xs.depth_total -= 1;
    st.depth -= 1;
    xs.regions.pop();
    xs.floors.pop();
    if st.dead { return; }
    let _ = writeln!(st.out, "O SX {} {}", st.h, r.is_err() as u8);
    st.epoch += 1;
    st.cp_store.truncate(ncp);
    st.blocks.retain(|b| b.born < ep);
    events_lines(st);
    let _ = writeln!(st.out, "R U");
    let alloc_after = scope.stats().allocated();
    let pos_after = scope.stats().current_chunk().map(|c| c.bump_position().as_ptr() as usize);
    if pos_before.is_some() && (alloc_after != alloc_before || pos_after != pos_before) {
        st.x("scope-exit-did-not-restore-position", &format!("allocated {alloc_before} -> {alloc_after}, position {pos_before:?} -> {pos_after:?}"));
    }
    stats_line(st, scope);
    monitors(st);
}

fn claim_x<A, S>(st: &mut St, xs: &mut Xs, scope: &mut BumpScope<'_, A, S>)
where
    A: bump_scope::BaseAllocator<S::GuaranteedAllocated>,
    S: BumpAllocatorSettings,
{
    flush(st);
    let _ = writeln!(st.out, "O CL {}", st.h);
    st.epoch += 1;
    let before = (scope.stats().count(), scope.stats().allocated());
    let stp: *mut St = st;
    let xsp: *mut Xs = xs;
    let scope_ptr = scope as *const BumpScope<'_, A, S> as *const ();
    let panic_exit;
    {
        let shared: &BumpScope<'_, A, S> = scope;
        let mut guard = shared.claim();
        let _ = writeln!(st.out, "R U");
        st.h += 1;
        xs.lower.push(scope_ptr);
        xs.depth_total += 1;
        xs.regions.push(1);
        { let b = if xs.quick_exit { xs.quick_exit = false; st.rng.below(3) as usize } else { st.rng.range(3, 30) as usize }; let fl = st.ops_left.saturating_sub(b).max(xs.floors.last().copied().unwrap_or(0)); xs.floors.push(fl); }
        stats_line(st, &*guard);
        // the claimed handle must now look empty
        if !shared.is_claimed() { st.x("claimed-handle-not-claimed", ""); }
        let r = catch_unwind(AssertUnwindSafe(|| {
            let (st, xs) = unsafe { (&mut *stp, &mut *xsp) };
            if run_x(st, xs, &mut *guard) { panic!("scripted panic inside claim"); }
        }));
        panic_exit = r.is_err();
        xs.depth_total -= 1;
        xs.regions.pop();
        xs.floors.pop();
        xs.lower.pop();
        st.h -= 1;
        drop(guard);
    }
    if st.dead { return; }
    let _ = writeln!(st.out, "O UC");
    st.epoch += 1;
    events_lines(st);
    let _ = writeln!(st.out, "R U");
    if scope.is_claimed() { st.x("handle-still-claimed-after-guard-dropped", ""); }
    stats_line(st, scope);
    monitors(st);
}

fn aligned_x<A, S>(st: &mut St, xs: &mut Xs, scope: &mut BumpScope<'_, A, S>)
where
    A: bump_scope::BaseAllocator<S::GuaranteedAllocated>,
    S: BumpAllocatorSettings,
{
    let n: usize = 1 << st.rng.below(5);
    let scoped = st.rng.coin(1, 3);
    flush(st);
    let outer = S::MIN_ALIGN;
    // seam scenario: two tiny, unaligned blocks right before a region with a larger alignment, then
    // reclaim operations on the older of the two from inside (its end, rounded up to the new
    // alignment, may coincide with the bump position although it is not the newest block)
    if n > outer && st.rng.coin(1, 2) && !scope.is_claimed() {
        for _ in 0..2 {
            let size = st.rng.range(1, 7) as usize;
            guarded_exec(st, scope, false, &Op::Alloc { w: 0, size, align: 1, cls: 0, ty: 0, len: 0 });
        }
        st.second_newest = 2;
    }
    let stp: *mut St = st;
    let xsp: *mut Xs = xs;
    let mut ncp = st.cp_store.len();
    let mut ep = 0;
    if scoped {
        let _ = writeln!(st.out, "O SC {}", st.h);
        st.epoch += 1;
        ep = st.epoch;
        let _ = writeln!(st.out, "R U");
        stats_line(st, scope);
    }
    let entry_pos = scope.stats().current_chunk().map(|c| c.bump_position().as_ptr() as usize);
    let entry_alloc = scope.stats().allocated();
    // checkpoints are only used under the minimum alignment they were created with (the safety
    // contract of reset_to says "created by this bump allocator"; whether a scope with another
    // MIN_ALIGN is the same allocator is ambiguous, see DESIGN.md) 
    let saved_cps = std::mem::take(&mut st.cp_store);
    macro_rules! body {
        ($N:literal) => {{
            let f = |inner: &mut BumpScope<'_, A, <S as BumpAllocatorSettings>::WithMinimumAlignment<$N>>| {
                let (st, xs) = unsafe { (&mut *stp, &mut *xsp) };
                let _ = writeln!(st.out, "O AP {} {}", st.h, $N);
                st.epoch += 1;
                let _ = writeln!(st.out, "R U");
                stats_line(st, inner);
                if let Some(c) = inner.stats().current_chunk() {
                    if (c.bump_position().as_ptr() as usize) % $N != 0 {
                        st.x("position-not-multiple-of-min-align", &format!("at entry of aligned<{}>", $N));
                    }
                }
                xs.depth_total += 1;
                xs.regions.push(2);
                { let b = if xs.quick_exit { xs.quick_exit = false; st.rng.below(3) as usize } else { st.rng.range(3, 30) as usize }; let fl = st.ops_left.saturating_sub(b).max(xs.floors.last().copied().unwrap_or(0)); xs.floors.push(fl); }
                let p = run_x(st, xs, inner);
                xs.regions.pop();
                xs.floors.pop();
                xs.depth_total -= 1;
                if p { panic!("scripted panic inside aligned region"); }
            };
            if scoped { catch_unwind(AssertUnwindSafe(|| scope.scoped_aligned::<$N, _>(f))) }
            else { catch_unwind(AssertUnwindSafe(|| scope.aligned::<$N, _>(f))) }
        }};
    }
    let r = match n { 1 => body!(1), 2 => body!(2), 4 => body!(4), 8 => body!(8), _ => body!(16) };
    st.cp_store = saved_cps;
    if st.dead { return; }
    let _ = writeln!(st.out, "O AX {}", (!scoped) as u8);
    st.epoch += 1;
    let _ = writeln!(st.out, "R U");
    if !scoped { stats_line(st, scope); }
    if scoped {
        let _ = writeln!(st.out, "O SX {} {}", st.h, r.is_err() as u8);
        st.epoch += 1;
        st.cp_store.truncate(ncp);
        st.blocks.retain(|b| b.born < ep);
        events_lines(st);
        let _ = writeln!(st.out, "R U");
        let pos = scope.stats().current_chunk().map(|c| c.bump_position().as_ptr() as usize);
        if entry_pos.is_some() && (pos != entry_pos || scope.stats().allocated() != entry_alloc) {
            st.x("scoped-aligned-exit-not-exactly-entry-position", &format!("{entry_pos:?} -> {pos:?}"));
        }
        stats_line(st, scope);
    }
    if let Some(c) = scope.stats().current_chunk() {
        if (c.bump_position().as_ptr() as usize) % outer != 0 {
            st.x("position-not-multiple-of-min-align", &format!("after aligned<{n}> returned, outer min align {outer}"));
        }
    }
    monitors(st);
}

fn prepared_x<A, S>(st: &mut St, xs: &mut Xs, scope: &mut BumpScope<'_, A, S>)
where
    A: bump_scope::BaseAllocator<S::GuaranteedAllocated>,
    S: BumpAllocatorSettings,
{
    flush(st);
    match xs.prepared {
        None => {
            let ty = st.rng.below(ELEMS.len() as u64) as usize;
            let (es, ea) = ELEMS[ty];
            let cap = match st.rng.below(5) { 0 => 0, 1 => 1, 2 => st.rng.range(2, 20) as usize, 3 => st.rng.range(20, 400) as usize, _ => st.rng.range(400, 6000) as usize };
            let rev = st.rng.coin(1, 2);
            let dynp = st.rng.coin(1, 3);
            let fail = st.rng.below(100) < st.fail_rate;
            if fail { let _ = writeln!(st.out, "FAIL"); with_pool(|p| p.fail_next = true); }
            let before: Vec<(usize, usize)> = scope.stats().small_to_big().map(|c| (c.chunk_start().as_ptr() as usize, c.bump_position().as_ptr() as usize)).collect();
            let before_cur = scope.stats().current_chunk().map(|c| c.chunk_start().as_ptr() as usize);
            let _ = writeln!(st.out, "O PR {} {es} {ea} {cap} {} {}", st.h, rev as u8, dynp as u8);
            let r = prepare(scope, ty, cap, rev, dynp);
            st.epoch += 1;
            events_lines(st);
            match r {
                Ok((ptr, c2)) => {
                    let _ = writeln!(st.out, "R R {ptr} {c2}");
                    if c2 < cap { st.x("prepared-capacity-smaller-than-requested", &format!("asked {cap} got {c2}")); }
                    xs.prepared = Some((ptr, c2, es, ea, rev, dynp, ty, 0));
                }
                Err(_) => { let _ = writeln!(st.out, "R E"); }
            }
            // C15: preparing never moves the position inside a chunk that may hold data
            let after: Vec<(usize, usize)> = scope.stats().small_to_big().map(|c| (c.chunk_start().as_ptr() as usize, c.bump_position().as_ptr() as usize)).collect();
            if let Some(cur) = before_cur {
                for (b, a) in before.iter().zip(after.iter()) {
                    if b != a { st.x("prepare-moved-a-bump-position", &format!("chunk {} position {} -> {}", b.0, b.1, a.1)); }
                    if b.0 == cur { break; }
                }
            }
            stats_line(st, scope);
            monitors(st);
        }
        Some((ptr, cap, es, ea, rev, dynp, ty, _)) => {
            xs.prepared = None;
            if st.rng.coin(1, 5) {
                // abandon (drop without finalising): nothing happens
                return;
            }
            let len = if cap == 0 { 0 } else { match st.rng.below(4) { 0 => 0, 1 => cap, _ => st.rng.below(cap as u64 + 1) as usize } };
            let bytes = len * es;
            st.seed_ctr += 1;
            let seed = st.seed_ctr;
            let start = if rev { ptr - bytes } else { ptr };
            let _ = writeln!(st.out, "O WR {start} {bytes} {seed}");
            let mut shadow = vec![0u8; bytes];
            for i in 0..bytes { shadow[i] = pattern(seed, i); }
            unsafe { core::ptr::copy_nonoverlapping(shadow.as_ptr(), start as *mut u8, bytes) };
            st.epoch += 1;
            let _ = writeln!(st.out, "R U");
            stats_line(st, scope);
            let before_alloc = scope.stats().allocated();
            let _ = writeln!(st.out, "O CM {} {es} {ea} {ptr} {len} {cap} {} {}", st.h, rev as u8, dynp as u8);
            let np = unsafe { commit(scope, ty, ptr, len, cap, rev, dynp) };
            st.epoch += 1;
            events_lines(st);
            let _ = writeln!(st.out, "R B {np} {bytes}");
            mem_line(st, np, bytes);
            let cur = unsafe { core::slice::from_raw_parts(np as *const u8, bytes) };
            if cur != &shadow[..] { st.x("committed-slice-lost-contents", &format!("ptr={np} bytes={bytes}")); }
            let adv = scope.stats().allocated() as i64 - before_alloc as i64;
            let m = <S as BumpAllocatorSettings>::MIN_ALIGN;
            // C15: finalising advances by the contents plus at most alignment padding
            if adv < bytes as i64 || adv >= (bytes + ea + m) as i64 {
                st.x("commit-advanced-position-by-more-than-contents-plus-padding", &format!("bytes={bytes} advanced={adv} elem_align={ea} min_align={m}"));
            }
            stats_line(st, scope);
            monitors(st);
            fill_new(st, scope, np, bytes, ea, None);
        }
    }
}

include!("arena_x_probes.inc.rs");

fn min_non_zero_cap(size: usize) -> usize { if size == 1 { 8 } else if size <= 1024 { 4 } else { 1 } }

/// C15 at collection level: a real MutBumpVec / MutBumpVecRev is filled (growth = prepare in a
/// chunk that fits + copy), then finalised or dropped.  Each growth is logged as the `PR` it must
/// be according to the amortised growth policy, the finalisation as `WR` + `CM`.
fn mutvec_x<A, S>(st: &mut St, xs: &mut Xs, scope: &mut BumpScope<'_, A, S>)
where
    A: bump_scope::BaseAllocator<S::GuaranteedAllocated>,
    S: BumpAllocatorSettings,
{
    use bump_scope::{MutBumpVec, MutBumpVecRev};
    flush(st);
    let rev = st.rng.coin(1, 2);
    let nops = st.rng.range(1, 12);
    let h = st.h;
    let positions = |stats: bump_scope::stats::Stats<'_, A, S>| -> (Vec<(usize, usize)>, Option<usize>) {
        (stats.small_to_big().map(|c| (c.chunk_start().as_ptr() as usize, c.bump_position().as_ptr() as usize)).collect(),
         stats.current_chunk().map(|c| c.chunk_start().as_ptr() as usize))
    };
    macro_rules! body {
        ($t:ty, $vecty:ident, $es:expr, $ea:expr) => {{
            let es: usize = $es; let ea: usize = $ea;
            let stp: *mut St = st;
            let mut v: $vecty<$t, &mut BumpScope<'_, A, S>> = $vecty::new_in(&mut *scope);
            let mut shadow: Vec<$t> = vec![];
            let mut counter: u64 = st.rng.next();
            let mut ok = true;
            for _ in 0..nops {
                let st = unsafe { &mut *stp };
                if st.dead { break; }
                let (before_pos, before_cur) = positions(v.allocator_stats());
                let kind = st.rng.below(6);
                let additional: usize = match kind {
                    // a request that passes the vector's own layout check and overflows the chunk size computation:
                    // made through the PANICKING method inside catch_unwind, the vector lives on afterwards
                    5 => ((isize::MAX as usize - (ea - 1)) / es).saturating_sub(v.len() + st.rng.below(4) as usize),
                    0 => 1,
                    1 => st.rng.range(1, 40) as usize,
                    2 => if shadow.is_empty() { 1 } else { st.rng.range(1, shadow.len() as u64) as usize },
                    3 => match st.rng.below(4) { 0 => st.rng.below(4000) as usize, 1 => st.rng.below(60000) as usize, _ => st.rng.below(200) as usize },
                    _ => st.rng.below(300) as usize,
                };
                if kind == 2 && shadow.is_empty() { continue; }
                let (len, cap) = (v.len(), v.capacity());
                let grows = len + additional > cap;
                let exact = kind == 4;
                let req = if exact { len + additional } else { (cap * 2).max(len + additional).max(min_non_zero_cap(es)) };
                let fail = grows && kind != 5 && st.rng.below(100) < st.fail_rate.max(8);
                if grows {
                    if fail { let _ = writeln!(st.out, "FAIL"); with_pool(|p| p.fail_next = true); }
                    let _ = writeln!(st.out, "O PR {h} {es} {ea} {req} {} 0", rev as u8);
                }
                let r: Result<(), AllocError> = match kind {
                    0 => { counter = counter.wrapping_mul(6364136223846793005).wrapping_add(1); let x = counter as $t; let r = v.try_push(x); if r.is_ok() { if rev { shadow.insert(0, x) } else { shadow.push(x) } } r }
                    1 => { let xs_: Vec<$t> = (0..additional).map(|i| (counter.wrapping_add(i as u64 * 77)) as $t).collect(); counter = counter.wrapping_add(1000);
                           let r = v.try_extend_from_slice_copy(&xs_); if r.is_ok() { if rev { let mut n = xs_.clone(); n.extend(shadow.iter().copied()); shadow = n; } else { shadow.extend(xs_) } } r }
                    2 => { let a = st.rng.below((shadow.len() - additional + 1) as u64) as usize; let r = v.try_extend_from_within_copy(a..a + additional);
                           if r.is_ok() { let part: Vec<$t> = shadow[a..a + additional].to_vec(); if rev { let mut n = part; n.extend(shadow.iter().copied()); shadow = n; } else { shadow.extend(part) } } r }
                    3 => v.try_reserve(additional),
                    5 => match catch_unwind(AssertUnwindSafe(|| v.reserve(additional))) { Ok(()) => Ok(()), Err(_) => Err(AllocError) },
                    _ => v.try_reserve_exact(additional),
                };
                if kind == 5 && grows && r.is_ok() { st.x("panic", "MutBumpVec::reserve of a capacity whose chunk size overflows returned normally"); }
                st.epoch += if grows { 1 } else { 0 };
                if grows {
                    events_lines(st);
                    match r {
                        Ok(()) => {
                            let p = if rev { v.as_ptr() as usize + v.len() * es } else { v.as_ptr() as usize };
                            let _ = writeln!(st.out, "R R {p} {}", v.capacity());
                        }
                        Err(_) => { let _ = writeln!(st.out, "R E"); }
                    }
                } else if r.is_err() {
                    st.x("panic", "a MutBumpVec operation that needs no growth failed");
                }
                // contents are those of a std Vec (front/back mirrored for the rev vector)
                if v.as_slice() != &shadow[..] {
                    st.x("committed-slice-lost-contents", &format!("MutBumpVec{} contents differ from the expected ones after operation kind {kind} (len {} vs {})", if rev { "Rev" } else { "" }, v.len(), shadow.len()));
                    ok = false;
                }
                if v.capacity() < v.len() { st.x("prepared-capacity-smaller-than-requested", "capacity < len"); }
                // C15: filling never moves a bump position in a chunk up to the old current one
                let (after_pos, _) = positions(v.allocator_stats());
                if let Some(cur) = before_cur {
                    for (b, a) in before_pos.iter().zip(after_pos.iter()) {
                        if b != a { st.x("prepare-moved-a-bump-position", &format!("chunk {} position {} -> {} while a MutBumpVec was being filled", b.0, b.1, a.1)); }
                        if b.0 == cur { break; }
                    }
                }
                if grows {
                    // T line of the growth step
                    let s2 = v.allocator_stats();
                    let mut line = String::new();
                    let cur_start = s2.current_chunk().map(|c| c.chunk_start().as_ptr() as usize);
                    let mut cur_idx: i64 = -1;
                    let chunks: Vec<(usize, usize, usize)> = s2.small_to_big().enumerate().map(|(i, c)| { let st_ = c.chunk_start().as_ptr() as usize; if Some(st_) == cur_start { cur_idx = i as i64; } (st_, c.size(), c.bump_position().as_ptr() as usize) }).collect();
                    let _ = write!(line, "T {} {} {} {} {} {}", s2.count(), s2.size(), s2.capacity(), s2.allocated(), s2.remaining(), cur_idx);
                    for c in &chunks { let _ = write!(line, " {}:{}:{}", c.0, c.1, c.2); }
                    let _ = writeln!(st.out, "{line}");
                }
                monitors(st);
            }
            let st = unsafe { &mut *stp };
            if !st.dead && ok && v.capacity() > 0 && st.rng.coin(3, 4) {
                // finalise: the contents become a block; make them the model's pattern first
                let (len, cap) = (v.len(), v.capacity());
                let bytes = len * es;
                st.seed_ctr += 1;
                let seed = st.seed_ctr;
                let start = v.as_mut_ptr() as usize;
                let pat: Vec<u8> = (0..bytes).map(|i| pattern(seed, i)).collect();
                unsafe { core::ptr::copy_nonoverlapping(pat.as_ptr(), start as *mut u8, bytes) };
                let _ = writeln!(st.out, "O WR {start} {bytes} {seed}");
                st.epoch += 1;
                let _ = writeln!(st.out, "R U");
                let ptr = if rev { start + bytes } else { start };
                let before_alloc = v.allocator_stats().allocated();
                let _ = writeln!(st.out, "O CM {h} {es} {ea} {ptr} {len} {cap} {} 0", rev as u8);
                let res = catch_unwind(AssertUnwindSafe(move || { let s = v.into_slice(); s.as_ptr() as usize }));
                st.epoch += 1;
                events_lines(st);
                match res {
                    Ok(np) => {
                        let _ = writeln!(st.out, "R B {np} {bytes}");
                        mem_line(st, np, bytes);
                        let cur = unsafe { core::slice::from_raw_parts(np as *const u8, bytes) };
                        if cur != &pat[..] { st.x("committed-slice-lost-contents", &format!("into_slice ptr={np} bytes={bytes}")); }
                        let adv = scope.stats().allocated() as i64 - before_alloc as i64;
                        let m = <S as BumpAllocatorSettings>::MIN_ALIGN;
                        if adv < bytes as i64 || adv >= (bytes + ea + m) as i64 {
                            st.x("commit-advanced-position-by-more-than-contents-plus-padding", &format!("into_slice bytes={bytes} advanced={adv}"));
                        }
                        stats_line(st, scope);
                        monitors(st);
                        fill_new(st, scope, np, bytes, ea, None);
                    }
                    Err(_) => {
                        let msg = LAST_PANIC.with(|m| m.borrow().clone());
                        st.x("panic", &format!("MutBumpVec::into_slice panicked: {}", msg.replace('\n', " ")));
                        st.dead = true;
                    }
                }
            } else {
                drop(v);
                // dropping without finalising leaves every position where it was
                monitors(st);
            }
        }};
    }
    match (st.rng.below(3), rev) {
        (0, false) => body!(u8, MutBumpVec, 1, 1),
        (1, false) => body!(u32, MutBumpVec, 4, 4),
        (_, false) => body!(u64, MutBumpVec, 8, 8),
        (0, true) => body!(u8, MutBumpVecRev, 1, 1),
        (1, true) => body!(u32, MutBumpVecRev, 4, 4),
        (_, true) => body!(u64, MutBumpVecRev, 8, 8),
    }
}

fn run_one_x<A, S>(st: &mut St, init: u8, init_arg: (usize, usize), unalloc: Option<fn() -> Bump<A, S>>)
where
    A: bump_scope::BaseAllocator<S::GuaranteedAllocated> + Default,
    S: BumpAllocatorSettings,
{
    let _ = writeln!(st.out, "CFG {} {} {} {} {} {} {} {}", S::UP as u8, S::MIN_ALIGN, S::GUARANTEED_ALLOCATED as u8,
                     S::DEALLOCATES as u8, S::SHRINKS as u8, S::MINIMUM_CHUNK_SIZE, header_size::<A>(), header_align::<A>());
    let bump: Option<Bump<A, S>> = match init {
        1 => { let _ = writeln!(st.out, "INIT S {}", init_arg.0); Bump::<A, S>::try_with_size_in(init_arg.0, A::default()).ok() }
        2 => { let _ = writeln!(st.out, "INIT C {} {}", init_arg.0, init_arg.1);
               Bump::<A, S>::try_with_capacity_in(Layout::from_size_align(init_arg.0, init_arg.1).unwrap(), A::default()).ok() }
        3 if unalloc.is_some() => { let _ = writeln!(st.out, "INIT U"); Some((unalloc.unwrap())()) }
        _ => { let _ = writeln!(st.out, "INIT N"); Bump::<A, S>::try_new_in(A::default()).ok() }
    };
    events_lines(st);
    let Some(mut bump) = bump else {
        let _ = writeln!(st.out, "R E");
        let _ = writeln!(st.out, "END");
        return;
    };
    let _ = writeln!(st.out, "R U");
    stats_line(st, bump.as_scope());
    let mut xs = Xs { lower: vec![], prepared: None, depth_total: 0, regions: vec![], floors: vec![], quick_exit: false };
    run_x(st, &mut xs, bump.as_mut_scope());
    if st.dead {
        core::mem::forget(bump);
        let _ = writeln!(st.out, "END");
        return;
    }
    if st.rng.coin(1, 2) { with_settings_x(st, bump) } else { finish_run(st, bump) }
}

/// C18: `Bump::with_settings` by value to another minimum alignment — the position of the current
/// chunk must be a multiple of the new alignment afterwards (the model step is the entry of an
/// aligned region that is never left), then a few allocations, then the drop.
fn with_settings_x<A, S>(st: &mut St, bump: Bump<A, S>)
where
    A: bump_scope::BaseAllocator<S::GuaranteedAllocated> + Default,
    S: BumpAllocatorSettings,
{
    flush(st);
    let n: usize = 1 << st.rng.below(5);
    macro_rules! body {
        ($N:literal) => {{
            let _ = writeln!(st.out, "O AP {} {}", st.h, $N);
            let b2: Bump<A, <S as BumpAllocatorSettings>::WithMinimumAlignment<$N>> = bump.with_settings();
            st.epoch += 1;
            let _ = writeln!(st.out, "R U");
            stats_line(st, b2.as_scope());
            if let Some(c) = b2.stats().current_chunk() {
                if (c.bump_position().as_ptr() as usize) % $N != 0 {
                    st.x("position-not-multiple-of-min-align", &format!("after Bump::with_settings to MIN_ALIGN {}", $N));
                }
            }
            for _ in 0..3 {
                if st.dead { break; }
                let size = st.rng.range(0, 40) as usize;
                let align = 1usize << st.rng.below(4);
                guarded_exec(st, b2.as_scope(), false, &Op::Alloc { w: 0, size, align, cls: 0, ty: 0, len: 0 });
            }
            if st.dead { core::mem::forget(b2); let _ = writeln!(st.out, "END"); } else { finish_run(st, b2) }
        }};
    }
    match n { 1 => body!(1), 2 => body!(2), 4 => body!(4), 8 => body!(8), _ => body!(16) }
}

fn finish_run<A, S>(st: &mut St, bump: Bump<A, S>)
where
    A: bump_scope::BaseAllocator<S::GuaranteedAllocated> + Default,
    S: BumpAllocatorSettings,
{
    // unmodelled probes (plain Global arenas): reported under this run's header, before its last step
    for _ in 0..2 {
        for m in probes::entry_probe(&mut st.rng) {
            let (kind, detail) = m.split_once(": ").unwrap_or((m.as_str(), ""));
            st.x(kind, detail);
        }
    }
    if st.rng.coin(1, 6) {
        let (lines, notes) = probes::settings_probe(&mut st.rng);
        for l in lines { let _ = writeln!(st.out, "{l}"); }
        for m in notes {
            let (kind, detail) = m.split_once(": ").unwrap_or((m.as_str(), ""));
            st.x(kind, detail);
        }
    }
    for m in probes::compat_probe(&mut st.rng) {
        let (kind, detail) = m.split_once(": ").unwrap_or((m.as_str(), ""));
        st.x(kind, detail);
    }
    for m in probes::loop_probe(&mut st.rng) {
        let (kind, detail) = m.split_once(": ").unwrap_or((m.as_str(), ""));
        st.x(kind, detail);
    }
    let _ = writeln!(st.out, "O DROP");
    st.blocks.clear();
    drop(bump);
    events_lines(st);
    let _ = writeln!(st.out, "R U");
    let (live, allocs, deallocs) = with_pool(|p| { p.final_check(); (p.live.len(), p.total_allocs, p.total_deallocs) });
    if live != 0 || allocs != deallocs {
        st.x("chunks-not-released-exactly-once-by-drop", &format!("outstanding={live} allocs={allocs} deallocs={deallocs}"));
    }
    let errs: Vec<String> = with_pool(|p| std::mem::take(&mut p.errors));
    for e in errs { st.x("base-allocator-ledger", &e); }
    let _ = writeln!(st.out, "END");
}

macro_rules! cfg_run {
    ($st:expr, $init:expr, $ia:expr, $ma:literal, $up:literal, false, $de:literal, $sh:literal, $mc:literal, $p:ty) => {
        run_one_x::<TA<$p>, BumpSettings<$ma, $up, false, true, $de, $sh, $mc>>($st, $init, $ia,
            Some(Bump::<TA<$p>, BumpSettings<$ma, $up, false, true, $de, $sh, $mc>>::unallocated as fn() -> _))
    };
    ($st:expr, $init:expr, $ia:expr, $ma:literal, $up:literal, true, $de:literal, $sh:literal, $mc:literal, $p:ty) => {
        run_one_x::<TA<$p>, BumpSettings<$ma, $up, true, true, $de, $sh, $mc>>($st, $init, $ia, None)
    };
}

macro_rules! matrix {
    ($idx:expr, $st:expr, $init:expr, $ia:expr; $( $n:literal => ($ma:literal, $up:literal, $ga:tt, $de:literal, $sh:literal, $mc:literal, $p:ty) ),* $(,)?) => {
        match $idx {
            $( $n => cfg_run!($st, $init, $ia, $ma, $up, $ga, $de, $sh, $mc, $p), )*
            _ => unreachable!(),
        }
    };
}

const NCFG: usize = 10;

fn dispatch(idx: usize, st: &mut St, init: u8, ia: (usize, usize)) {
    matrix!(idx, st, init, ia;
        0 => (1, true, true, true, true, 512, ()),
        1 => (1, false, true, true, true, 512, ()),
        2 => (8, true, true, true, true, 64, u64),
        3 => (8, false, true, true, true, 64, u64),
        4 => (16, true, true, true, false, 512, P32),
        5 => (16, false, true, false, true, 512, P32),
        6 => (4, true, false, true, true, 4096, P64),
        7 => (4, false, false, true, true, 4096, P64),
        8 => (2, true, true, false, false, 64, ()),
        9 => (2, false, true, true, true, 64, ()),
    );
}

fn main() {
    assert_eq!(core::mem::size_of::<usize>(), 8);
    let seed: u64 = arg("--seed", 1);
    let runs: usize = arg("--runs", 40);
    let ops: usize = arg("--ops", 60);
    let only: i64 = arg("--cfg", -1);
    let one_seed: u64 = arg("--run-seed", 0);
    let verbose = arg("--verbose-panics", 0u8) != 0;
    std::panic::set_hook(Box::new(move |info| {
        LAST_PANIC.with(|m| *m.borrow_mut() = format!("{info}"));
        if verbose { eprintln!("{info}"); }
    }));
    let mut master = Rng::new(seed ^ 0xABCD);
    for i in 0..runs {
        let idx = if only >= 0 { only as usize } else { (i + seed as usize) % NCFG };
        let sd = if one_seed != 0 { one_seed } else { master.next() };
        let og = (sd % 4) as u8;
        with_pool(|p| p.reset(sd, og));
        let mut r = Rng::new(sd ^ 0x5555);
        // unallocated start (only GUARANTEED_ALLOCATED = false configurations honour it) is common here:
        // claims / aligned regions / prepared slices on an arena without any chunk
        let init = if r.coin(1, 2) { 3 } else { r.below(3) as u8 };
        let ia = match init {
            1 => (r.pick(&[0usize, 1, 100, 512, 1000, 4096, 10000]), 0),
            2 => (r.pick(&[0usize, 1, 17, 400, 401, 4000, 70000]), 1usize << r.below(9)),
            _ => (0, 0),
        };
        let fail_rate = r.pick(&[0u64, 0, 3, 10]);
        let big = r.coin(1, 5);
        let mut st = St {
            out: String::new(), rng: r, script: None, blocks: vec![], next_id: 0, seed_ctr: 0, epoch: 0,
            cp_store: vec![], next_cp: 0, ops_left: ops, depth: 0, max_depth: 6, fail_rate, big, xlines: 0, dead: false, second_newest: 0, h: 0,
        };
        // a run is reproduced exactly by `--cfg idx --run-seed sd --runs 1 --ops ops`
        let _ = writeln!(st.out, "RUN {i} {idx} {sd} {og} {ops}");
        dispatch(idx, &mut st, init, ia);
        flush(&mut st);
        if one_seed != 0 { break; }
    }
}
