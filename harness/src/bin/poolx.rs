//! C19 tie: the REAL BumpPool.
//!  * deterministic schedules (one OS thread playing any number of guard holders): every atomic
//!    action (get*, guard drop, mem::forget of a guard, allocation through a guard, pool
//!    reset / reset_to_start / drop, a `get` whose arena creation fails or panics while the pool
//!    lock is held) is one trace line that the extracted Coq model (coq/Pool.v) replays; the arena
//!    behind each guard is identified by the identity of its base-allocator value.
//!  * real threads (2..8) hammering one pool: exclusivity, survival of every block across
//!    hand-overs, number of arenas created vs. peak number of live guards, release ledger.
#![allow(dead_code, unused, clippy::all)]
use bump_scope::alloc::{AllocError, Allocator, Global};
use bump_scope::{BumpPool, BumpPoolGuard};
use std::alloc::Layout;
use std::collections::HashMap;
use std::io::Write as _;
use std::panic::{AssertUnwindSafe, catch_unwind};
use std::ptr::NonNull;
use std::sync::atomic::{AtomicBool, AtomicIsize, AtomicUsize, Ordering::SeqCst};
use std::sync::Mutex;
use verif_harness::{Rng, arg};

// ---------------------------------------------------------------- instrumented, thread-safe base allocator
static NEXT_ID: AtomicUsize = AtomicUsize::new(1);
static FAIL_NEXT: AtomicBool = AtomicBool::new(false);
/// live blocks: address -> (allocator id, size)
static LEDGER: Mutex<Option<HashMap<usize, (usize, usize)>>> = Mutex::new(None);
static LEDGER_ERRORS: Mutex<Vec<String>> = Mutex::new(Vec::new());

fn ledger<R>(f: impl FnOnce(&mut HashMap<usize, (usize, usize)>) -> R) -> R {
    let mut g = LEDGER.lock().unwrap_or_else(|e| e.into_inner());
    f(g.get_or_insert_with(HashMap::new))
}

#[derive(Debug)]
struct IdAlloc {
    id: usize,
}
/// cloning the pool's allocator (id 0) makes the allocator of a new arena; an arena clones its
/// own allocator into every further chunk, which keeps the identity
impl Clone for IdAlloc {
    fn clone(&self) -> Self {
        if self.id == 0 { IdAlloc { id: NEXT_ID.fetch_add(1, SeqCst) } } else { IdAlloc { id: self.id } }
    }
}
unsafe impl Allocator for IdAlloc {
    fn allocate(&self, layout: Layout) -> Result<NonNull<[u8]>, AllocError> {
        if FAIL_NEXT.swap(false, SeqCst) { return Err(AllocError); }
        let p = Global.allocate(layout)?;
        ledger(|l| l.insert(p.as_ptr() as *mut u8 as usize, (self.id, layout.size())));
        Ok(p)
    }
    unsafe fn deallocate(&self, ptr: NonNull<u8>, layout: Layout) {
        let known = ledger(|l| l.remove(&(ptr.as_ptr() as usize)));
        match known {
            Some((id, size)) if size == layout.size() => {
                if id != self.id { LEDGER_ERRORS.lock().unwrap().push(format!("block of arena {id} released through the allocator of arena {}", self.id)); }
            }
            Some((_, size)) => LEDGER_ERRORS.lock().unwrap().push(format!("block released with size {} but was granted for {size}", layout.size())),
            None => { LEDGER_ERRORS.lock().unwrap().push("a block was released that is not live (double release?)".into()); return; }
        }
        unsafe {
            core::ptr::write_bytes(ptr.as_ptr(), 0xDD, layout.size());
            Global.deallocate(ptr, layout)
        }
    }
}

type Pool = BumpPool<IdAlloc>;
type Guard<'a> = BumpPoolGuard<'a, IdAlloc>;

fn arena_of(g: &Guard<'_>) -> usize {
    g.allocator().map_or(0, |a| a.id)
}

fn pattern(seed: u64, i: usize) -> u8 {
    ((seed.wrapping_mul(31).wrapping_add(i as u64 * 7 + 1)) % 251 + 1) as u8
}

#[derive(Clone)]
struct Blk {
    arena: usize,
    ptr: usize,
    len: usize,
    seed: u64,
}
fn blk_intact(b: &Blk) -> bool {
    let s = unsafe { core::slice::from_raw_parts(b.ptr as *const u8, b.len) };
    s.iter().enumerate().all(|(i, &x)| x == pattern(b.seed, i))
}
fn alloc_blk(g: &Guard<'_>, r: &mut Rng, seed: u64) -> Blk {
    let len = match r.below(6) { 0 => 0, 1 => r.range(1, 8) as usize, 2 => r.range(600, 3000) as usize, _ => r.range(8, 200) as usize };
    let data: Vec<u8> = (0..len).map(|i| pattern(seed, i)).collect();
    let p = g.alloc_slice_copy(&data).into_raw();
    Blk { arena: arena_of(g), ptr: p.as_ptr() as *mut u8 as usize, len, seed }
}

// ---------------------------------------------------------------- deterministic schedules
fn det_run(w: &mut impl std::io::Write, run: usize, seed: u64, steps: usize) {
    let mut r = Rng::new(seed);
    writeln!(w, "RUN {run} {seed}").unwrap();
    let pool_alloc = IdAlloc { id: 0 };
    let mut pool: Pool = BumpPool::new_in(pool_alloc);
    let mut blocks: Vec<Blk> = vec![];
    let mut leaked: Vec<usize> = vec![];
    let mut next_g = 0usize;
    let mut seedc = seed;
    let rounds = r.range(1, 4);
    let x = |w: &mut dyn std::io::Write, kind: &str, msg: String| { writeln!(w, "X pool {kind} :: {msg}").unwrap(); w.flush().unwrap(); };
    for round in 0..rounds {
        {
            let pool_ref: &Pool = &pool;
            let mut guards: Vec<(usize, Guard<'_>)> = vec![];
            let n = if round + 1 == rounds { steps } else { r.range(1, steps as u64) as usize };
            for _ in 0..n {
                match r.below(100) {
                    0..=34 => {
                        // get, in one of its forms; sometimes one whose creation (if needed) cannot succeed
                        next_g += 1;
                        let g = next_g;
                        let form = r.below(8);
                        let ok = !(form >= 5);
                        writeln!(w, "P get {g} {}", ok as u8).unwrap();
                        // every form runs inside catch_unwind: only form 5 may unwind (capacity overflow of a panicking
                        // get); a try_ form or an ordinary get that panics - e.g. on a mutex poisoned by an earlier form 5 -
                        // is reported (C07: try_ methods return an error without panicking; C19: the pool stays usable)
                        let (sz, cap_l) = (r.range(0, 5000) as usize, Layout::from_size_align(r.range(0, 3000) as usize, 1 << r.below(6)).unwrap());
                        let caught: Result<Result<Guard<'_>, AllocError>, ()> = catch_unwind(AssertUnwindSafe(|| match form {
                            0 => Ok(pool_ref.get()),
                            1 => pool_ref.try_get(),
                            2 => Ok(pool_ref.get_with_size(sz)),
                            3 => pool_ref.try_get_with_size(sz),
                            4 => pool_ref.try_get_with_capacity(cap_l),
                            // creation panics (capacity overflow) while the pool lock is held
                            5 => Ok(pool_ref.get_with_size(usize::MAX)),
                            // creation reports an error (overflow)
                            6 => pool_ref.try_get_with_size(usize::MAX),
                            // the base allocator refuses (only consumed when a chunk is requested)
                            _ => { FAIL_NEXT.store(true, SeqCst); let q = pool_ref.try_get(); FAIL_NEXT.store(false, SeqCst); q }
                        })).map_err(|_| ());
                        FAIL_NEXT.store(false, SeqCst);
                        if caught.is_err() && form != 5 { x(w, "try-get-panicked", format!("get form {form} ({}) panicked instead of returning", ["get", "try_get", "get_with_size", "try_get_with_size", "try_get_with_capacity", "", "try_get_with_size(usize::MAX)", "try_get under a refusing allocator"][form as usize])); }
                        let res = caught;
                        match res {
                            Ok(Ok(gd)) => {
                                let a = arena_of(&gd);
                                writeln!(w, "R A {a}").unwrap();
                                if guards.iter().any(|(_, o)| arena_of(o) == a) { x(w, "exclusive", format!("two live guards refer to arena {a}")); }
                                if leaked.contains(&a) { x(w, "exclusive", format!("arena {a} of a forgotten guard was handed out again")); }
                                guards.push((g, gd));
                            }
                            Ok(Err(_)) | Err(()) => { writeln!(w, "R F").unwrap(); }
                        }
                    }
                    35..=54 if !guards.is_empty() => {
                        let i = r.below(guards.len() as u64) as usize;
                        let (g, gd) = guards.swap_remove(i);
                        writeln!(w, "P drop {g}").unwrap();
                        if catch_unwind(AssertUnwindSafe(move || drop(gd))).is_err() { x(w, "try-get-panicked", format!("dropping guard {g} panicked")); }
                        writeln!(w, "R U").unwrap();
                    }
                    55..=59 if !guards.is_empty() => {
                        let i = r.below(guards.len() as u64) as usize;
                        let (g, gd) = guards.swap_remove(i);
                        writeln!(w, "P forget {g}").unwrap();
                        leaked.push(arena_of(&gd));
                        core::mem::forget(gd);
                        writeln!(w, "R U").unwrap();
                    }
                    60..=94 if !guards.is_empty() => {
                        let i = r.below(guards.len() as u64) as usize;
                        seedc = seedc.wrapping_add(1);
                        let b = alloc_blk(&guards[i].1, &mut r, seedc);
                        writeln!(w, "P alloc {}", guards[i].0).unwrap();
                        writeln!(w, "R B {}", b.arena).unwrap();
                        blocks.push(b);
                    }
                    _ => {}
                }
                // everything allocated since the last rewind is intact, whoever holds the arena now
                for b in &blocks {
                    if !blk_intact(b) { x(w, "survive", format!("a block of arena {} allocated through a guard changed before the pool was reset", b.arena)); break; }
                }
            }
            // the round ends: remaining guards are dropped (most) or forgotten
            while let Some((g, gd)) = guards.pop() {
                if r.coin(1, 6) { writeln!(w, "P forget {g}").unwrap(); leaked.push(arena_of(&gd)); core::mem::forget(gd); } else { writeln!(w, "P drop {g}").unwrap(); drop(gd); }
                writeln!(w, "R U").unwrap();
            }
            for b in &blocks {
                if !blk_intact(b) { x(w, "survive", format!("a block of arena {} changed after its guard was dropped", b.arena)); break; }
            }
        }
        // quiescent: exclusive access to the pool
        let ids: Vec<usize> = pool.bumps().iter().map(|b| b.allocator().map_or(0, |a| a.id)).collect();
        writeln!(w, "Q {}", ids.iter().rev().map(|i| i.to_string()).collect::<Vec<_>>().join(",")).unwrap();
        match r.below(3) {
            0 => {
                writeln!(w, "P reset").unwrap();
                pool.reset();
                writeln!(w, "R U").unwrap();
                for b in pool.bumps().iter() {
                    if b.stats().allocated() != 0 { x(w, "reset", "pool.reset() left an arena with allocated bytes".into()); }
                    if b.stats().count() != 1 { x(w, "reset", format!("pool.reset() left an arena with {} chunks", b.stats().count())); }
                }
                blocks.retain(|b| leaked.contains(&b.arena));
            }
            1 => {
                writeln!(w, "P reset_to_start").unwrap();
                pool.reset_to_start();
                writeln!(w, "R U").unwrap();
                for b in pool.bumps().iter() {
                    if b.stats().allocated() != 0 { x(w, "reset", "pool.reset_to_start() left an arena with allocated bytes".into()); }
                }
                blocks.retain(|b| leaked.contains(&b.arena));
            }
            _ => {}
        }
    }
    let ids: Vec<usize> = pool.bumps().iter().map(|b| b.allocator().map_or(0, |a| a.id)).collect();
    writeln!(w, "P pool_drop").unwrap();
    drop(pool);
    writeln!(w, "R U").unwrap();
    // ledger: every arena that was in the pool is fully released, exactly once; forgotten ones keep their memory
    let live_by_arena: HashMap<usize, usize> = ledger(|l| { let mut m = HashMap::new(); for (_, (id, _)) in l.iter() { *m.entry(*id).or_insert(0) += 1; } m });
    for id in &ids {
        if live_by_arena.get(id).copied().unwrap_or(0) != 0 { x(w, "ledger", format!("arena {id} was in the pool when it was dropped but still owns blocks of the base allocator")); }
    }
    for id in &leaked {
        if live_by_arena.get(id).copied().unwrap_or(0) == 0 { x(w, "ledger", format!("the arena {id} of a forgotten guard was released")); }
    }
    for b in blocks.iter().filter(|b| leaked.contains(&b.arena)) {
        if !blk_intact(b) { x(w, "survive", format!("a block of the forgotten arena {} changed", b.arena)); break; }
    }
    for e in LEDGER_ERRORS.lock().unwrap().drain(..) { x(w, "ledger", e); }
    // forget the leaked arenas' blocks for the next run
    ledger(|l| l.clear());
}

// ---------------------------------------------------------------- real threads
fn mt_run(w: &mut impl std::io::Write, run: usize, seed: u64, threads: usize, iters: usize) {
    let mut xs: Vec<String> = vec![];
    let pool: Pool = BumpPool::new_in(IdAlloc { id: 0 });
    let holder: Vec<AtomicUsize> = (0..4096).map(|_| AtomicUsize::new(0)).collect();
    let live = AtomicIsize::new(0);
    let peak = AtomicIsize::new(0);
    let leaked_count = AtomicUsize::new(0);
    let all_blocks: Mutex<Vec<Blk>> = Mutex::new(vec![]);
    let errors: Mutex<Vec<String>> = Mutex::new(vec![]);
    let poison_attempts = AtomicUsize::new(0);
    std::thread::scope(|sc| {
        for t in 0..threads {
            let (pool, holder, live, peak, all_blocks, errors, leaked_count, poison_attempts) = (&pool, &holder, &live, &peak, &all_blocks, &errors, &leaked_count, &poison_attempts);
            sc.spawn(move || {
                let mut r = Rng::new(seed ^ ((t as u64 + 1) * 0x9E37_79B9));
                let mut mine: Vec<Blk> = vec![];
                let mut seedc = seed.wrapping_mul(1000 + t as u64);
                for it in 0..iters {
                    // the guard counts as alive from before the call to after its drop returned
                    let l = live.fetch_add(1, SeqCst) + 1;
                    peak.fetch_max(l, SeqCst);
                    let gd: Option<Guard<'_>> = match r.below(12) {
                        0 => pool.try_get().ok(),
                        1 => Some(pool.get_with_size(r.range(0, 3000) as usize)),
                        2 => { poison_attempts.fetch_add(1, SeqCst); catch_unwind(AssertUnwindSafe(|| pool.get_with_size(usize::MAX))).ok() }
                        3 => pool.try_get_with_size(usize::MAX).ok(),
                        _ => Some(pool.get()),
                    };
                    let Some(gd) = gd else { live.fetch_sub(1, SeqCst); continue };
                    let a = arena_of(&gd);
                    let prev = holder[a % 4096].swap(t + 1, SeqCst);
                    if prev != 0 { errors.lock().unwrap().push(format!("exclusive :: two live guards refer to arena {a} (threads {} and {})", prev - 1, t)); }
                    let nb = r.below(4);
                    for _ in 0..nb {
                        seedc = seedc.wrapping_add(1);
                        let b = alloc_blk(&gd, &mut r, seedc);
                        mine.push(b);
                        if r.coin(1, 3) { std::thread::yield_now(); }
                    }
                    if r.coin(1, 4) {
                        if let Some(b) = mine.iter().find(|b| !blk_intact(b)) { errors.lock().unwrap().push(format!("survive :: a block of arena {} changed while other threads used the pool", b.arena)); }
                    }
                    holder[a % 4096].store(0, SeqCst);
                    if r.coin(1, 150) {
                        leaked_count.fetch_add(1, SeqCst);
                        core::mem::forget(gd);
                        // a forgotten guard stays alive for good
                    } else {
                        drop(gd);
                        live.fetch_sub(1, SeqCst);
                    }
                }
                all_blocks.lock().unwrap().extend(mine);
            });
        }
    });
    let mut pool = pool;
    let blocks = all_blocks.into_inner().unwrap();
    for e in errors.into_inner().unwrap() { xs.push(e); }
    if let Some(b) = blocks.iter().find(|b| !blk_intact(b)) {
        xs.push(format!("survive :: a block of arena {} is not intact after all threads finished (pool neither reset nor dropped)", b.arena));
    }
    let in_pool = pool.bumps().len();
    let created = in_pool + leaked_count.load(SeqCst);
    let pk = peak.load(SeqCst) as usize;
    if created > pk { xs.push(format!("reuse :: {created} arenas exist but at most {pk} guards were ever alive at once")); }
    let ids: Vec<usize> = pool.bumps().iter().map(|b| b.allocator().map_or(0, |a| a.id)).collect();
    let mut sorted = ids.clone(); sorted.sort(); sorted.dedup();
    if sorted.len() != ids.len() { xs.push("exclusive :: the same arena is in the pool twice".into()); }
    pool.reset();
    for b in pool.bumps().iter() { if b.stats().allocated() != 0 { xs.push("reset :: pool.reset() left an arena with allocated bytes".into()); } }
    drop(pool);
    let live_by_arena: HashMap<usize, usize> = ledger(|l| { let mut m = HashMap::new(); for (_, (id, _)) in l.iter() { *m.entry(*id).or_insert(0) += 1; } m });
    for id in &ids { if live_by_arena.get(id).copied().unwrap_or(0) != 0 { xs.push(format!("ledger :: arena {id} was in the pool when it was dropped but still owns blocks")); } }
    for e in LEDGER_ERRORS.lock().unwrap().drain(..) { xs.push(format!("ledger :: {e}")); }
    ledger(|l| l.clear());
    writeln!(w, "M {run} {seed} threads={threads} iters={iters} blocks={} created={created} peak={pk} leaked={} poison_attempts={}", blocks.len(), leaked_count.load(SeqCst), poison_attempts.load(SeqCst)).unwrap();
    xs.sort(); xs.dedup();
    for e in xs.iter().take(5) { writeln!(w, "X pool mt {e}").unwrap(); }
}

fn main() {
    let seed: u64 = arg("--seed", 1);
    let runs: usize = arg("--runs", 300);
    let steps: usize = arg("--steps", 40);
    let mt_runs: usize = arg("--mt-runs", 30);
    let only: u64 = arg("--only-run-seed", 0);
    let verbose = arg("--verbose-panics", 0u8) != 0;
    std::panic::set_hook(Box::new(move |info| { if verbose { eprintln!("{info}"); } }));
    let out = std::io::stdout();
    let mut w = std::io::BufWriter::new(out.lock());
    if only != 0 {
        det_run(&mut w, 0, only, steps);
        return;
    }
    let only_mt: u64 = arg("--only-mt-seed", 0);
    if only_mt != 0 {
        // thread interleavings are not reproducible: repeat the run a number of times
        for k in 0..20 { mt_run(&mut w, k, only_mt, arg("--threads", 4usize), 300); }
        return;
    }
    let mut r = Rng::new(seed ^ 0x9001);
    for run in 0..runs {
        let s = r.next() | 1;
        det_run(&mut w, run, s, steps);
    }
    for run in 0..mt_runs {
        let s = r.next() | 1;
        let threads = 2 + (r.below(7) as usize);
        mt_run(&mut w, run, s, threads, 300);
    }
}
