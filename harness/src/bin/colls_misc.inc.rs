// Shared by colls.rs (include!): the raw views of the vector types — spare_capacity_mut,
// split_at_spare_mut, set_len, from_init / from_uninit, is_full, BumpBox into_raw / from_raw /
// into_ref / into_mut / leak, Bump::into_raw / from_raw — with drop-counting elements and
// std::vec::Vec in lock-step.  Contents must agree with std after every step and every element
// must end up dropped exactly once.
mod misc {
    use bump_scope::{Bump, BumpBox, BumpVec, FixedBumpVec, MutBumpVec, MutBumpVecRev};
    use std::cell::RefCell;
    use std::mem::MaybeUninit;
    use verif_harness::Rng;

    thread_local! { static MDROPS: RefCell<Vec<u32>> = const { RefCell::new(Vec::new()) }; }

    #[derive(Debug, PartialEq)]
    pub struct D(pub u32);
    impl Drop for D { fn drop(&mut self) { MDROPS.with(|d| d.borrow_mut().push(self.0)); } }
    fn drops() -> Vec<u32> { MDROPS.with(|d| std::mem::take(&mut *d.borrow_mut())) }
    fn ids(s: &[D]) -> Vec<u32> { s.iter().map(|d| d.0).collect() }

    pub fn misc_probe(r: &mut Rng) -> Vec<String> {
        let mut notes: Vec<String> = vec![];
        drops();
        let n = r.range(0, 7) as usize;
        let base = r.below(1000) as u32 * 100;
        let input: Vec<u32> = (0..n as u32).map(|i| base + i).collect();
        let k = r.range(0, 5) as usize;
        let fresh: Vec<u32> = (0..k as u32 + 3).map(|i| base + 50 + i).collect();
        let room = k + r.below(4) as usize;
        let keep = r.below(n as u64 + 1) as usize;
        let which = r.below(7);
        let split = r.coin(1, 2);
        let what = ["BumpVec spare capacity", "MutBumpVec spare capacity", "MutBumpVecRev spare capacity", "FixedBumpVec::from_init / from_uninit",
                    "BumpBox<[T]> raw round trip", "BumpBox into_ref / into_mut / leak", "Bump::into_raw / from_raw"][which as usize];
        let head = format!("misc: {what} n={n} k={k} room={room} keep={keep} split={}", split as u8);
        let mut born: Vec<u32> = input.clone();      // every identity that came into existence
        let mut leaked: Vec<u32> = vec![];           // identities handed out as plain references: never dropped by the crate
        let mut bump: Bump = Bump::new();
        macro_rules! differ {
            ($step:expr, $got:expr, $want:expr) => {
                if $got != $want { notes.push(format!("{head}: contents differ from std::vec::Vec after {}: {:?} instead of {:?}", $step, $got, $want)); }
            };
        }
        // forward vectors: BumpVec and MutBumpVec share the body
        macro_rules! forward {
            ($v:ident) => {{
                for i in &input { $v.push(D(*i)); }
                $v.reserve(room);
                let (len, cap) = ($v.len(), $v.capacity());
                let mut want = input.clone();
                let spare: &mut [MaybeUninit<D>] = if split {
                    let (init, spare) = $v.split_at_spare_mut();
                    differ!("split_at_spare_mut (initialised part)", ids(init), want);
                    spare
                } else { $v.spare_capacity_mut() };
                if spare.len() != cap - len { notes.push(format!("{head}: capacity: the spare part has {} slots, capacity - len = {}", spare.len(), cap - len)); }
                let j = k.min(spare.len());
                for i in 0..j { spare[i].write(D(fresh[i])); born.push(fresh[i]); want.push(fresh[i]); }
                unsafe { $v.set_len(len + j) };
                differ!("set_len over written spare slots", ids(&$v), want);
                if $v.capacity() != cap { notes.push(format!("{head}: capacity: {} became {} by writing into the spare part", cap, $v.capacity())); }
                $v.push(D(fresh[k])); born.push(fresh[k]); want.push(fresh[k]);
                differ!("push", ids(&$v), want);
                // shorten by hand: drop the tail in place, then set_len
                let keep = keep.min($v.len());
                unsafe {
                    for i in keep..$v.len() { core::ptr::drop_in_place($v.as_mut_ptr().add(i)); }
                    $v.set_len(keep);
                }
                want.truncate(keep);
                differ!("set_len to a shorter length", ids(&$v), want);
                $v.push(D(fresh[k + 1])); born.push(fresh[k + 1]); want.push(fresh[k + 1]);
                differ!("push after set_len", ids(&$v), want);
            }};
        }
        match which {
            0 => { let mut v: BumpVec<D, &Bump> = BumpVec::new_in(&bump); forward!(v); }
            1 => { let mut v: MutBumpVec<D, &mut Bump> = MutBumpVec::new_in(&mut bump); forward!(v); }
            2 => {
                // the reversed vector grows at the front: the spare part lies before the elements
                let mut v: MutBumpVecRev<D, &mut Bump> = MutBumpVecRev::new_in(&mut bump);
                for i in input.iter().rev() { v.push(D(*i)); }
                v.reserve(room);
                let (len, cap) = (v.len(), v.capacity());
                let mut want = input.clone();
                differ!("pushes", ids(&v), want);
                let spare: &mut [MaybeUninit<D>] = if split {
                    let (init, spare) = v.split_at_spare_mut();
                    differ!("split_at_spare_mut (initialised part)", ids(init), want);
                    spare
                } else { v.spare_capacity_mut() };
                if spare.len() != cap - len { notes.push(format!("{head}: capacity: the spare part has {} slots, capacity - len = {}", spare.len(), cap - len)); }
                let j = k.min(spare.len());
                let sl = spare.len();
                for i in 0..j { spare[sl - j + i].write(D(fresh[i])); born.push(fresh[i]); }
                unsafe { v.set_len(len + j) };
                want = fresh[..j].iter().copied().chain(want.into_iter()).collect();
                differ!("set_len over written spare slots", ids(&v), want);
                if v.capacity() != cap { notes.push(format!("{head}: capacity: {} became {} by writing into the spare part", cap, v.capacity())); }
                v.push(D(fresh[k])); born.push(fresh[k]); want.insert(0, fresh[k]);
                differ!("push", ids(&v), want);
                // shorten by hand at the front
                let keep = keep.min(v.len());
                let gone = v.len() - keep;
                unsafe {
                    for i in 0..gone { core::ptr::drop_in_place(v.as_mut_ptr().add(i)); }
                    v.set_len(keep);
                }
                want.drain(..gone);
                differ!("set_len to a shorter length", ids(&v), want);
                v.push(D(fresh[k + 1])); born.push(fresh[k + 1]); want.insert(0, fresh[k + 1]);
                differ!("push after set_len", ids(&v), want);
            }
            3 => {
                let bx: BumpBox<[D]> = bump.alloc_iter(input.iter().map(|i| D(*i)));
                let mut f = FixedBumpVec::from_init(bx);
                let mut want = input.clone();
                differ!("from_init", ids(&f), want);
                if f.len() != n || f.capacity() != n || !f.is_full() { notes.push(format!("{head}: capacity: from_init gave len {} capacity {} is_full {}, expected {n} {n} true", f.len(), f.capacity(), f.is_full())); }
                born.push(fresh[0]);
                if f.try_push(D(fresh[0])).is_ok() { notes.push(format!("{head}: capacity: try_push on a full fixed vector reported success")); }
                differ!("a refused try_push", ids(&f), want);
                if let Some(d) = f.pop() {
                    if Some(d.0) != want.pop() { notes.push(format!("{head}: returned values differ from std::vec::Vec: pop gave {}", d.0)); }
                    if f.is_full() { notes.push(format!("{head}: capacity: is_full after pop")); }
                    f.push(D(fresh[1])); born.push(fresh[1]); want.push(fresh[1]);
                    if !f.is_full() { notes.push(format!("{head}: capacity: not is_full after refilling")); }
                    differ!("pop then push", ids(&f), want);
                }
                let u = bump.alloc_uninit_slice::<D>(room);
                let mut g = FixedBumpVec::from_uninit(u);
                if g.len() != 0 || g.capacity() != room || g.is_full() != (room == 0) { notes.push(format!("{head}: capacity: from_uninit gave len {} capacity {} is_full {}", g.len(), g.capacity(), g.is_full())); }
                let mut wg: Vec<u32> = vec![];
                for i in 0..room { let id = base + 80 + i as u32; g.push(D(id)); born.push(id); wg.push(id); }
                if !g.is_full() { notes.push(format!("{head}: capacity: not is_full after {room} pushes into capacity {room}")); }
                differ!("from_uninit then pushes", ids(&g), wg);
                differ!("filling the second vector (first vector)", ids(&f), want);
                let bx2 = g.into_boxed_slice();
                differ!("into_boxed_slice", ids(&bx2), wg);
            }
            4 => {
                let bx: BumpBox<[D]> = bump.alloc_iter(input.iter().map(|i| D(*i)));
                let mut want = input.clone();
                let raw = bx.into_raw();
                if !drops().is_empty() { notes.push(format!("{head}: drops do not match: into_raw dropped something")); }
                let mut bx: BumpBox<[D]> = unsafe { BumpBox::from_raw(raw) };
                differ!("into_raw / from_raw", ids(&bx), want);
                let keep = keep.min(bx.len());
                unsafe {
                    for i in keep..bx.len() { core::ptr::drop_in_place(bx.as_mut_ptr().add(i)); }
                    bx.set_len(keep);
                }
                want.truncate(keep);
                differ!("set_len to a shorter length", ids(&bx), want);
                // a single value
                let one = bump.alloc(D(fresh[0])); born.push(fresh[0]);
                let raw1 = one.into_raw();
                let one: BumpBox<D> = unsafe { BumpBox::from_raw(raw1) };
                if one.0 != fresh[0] { notes.push(format!("{head}: contents differ from std::vec::Vec after into_raw / from_raw of one value")); }
                let inner = one.into_inner();
                if inner.0 != fresh[0] { notes.push(format!("{head}: contents differ from std::vec::Vec after into_inner")); }
            }
            5 => {
                // plain references: the crate must never drop these
                let a: &mut D = BumpBox::leak(bump.alloc(D(fresh[0]))); born.push(fresh[0]); leaked.push(fresh[0]);
                let c: &mut [D] = BumpBox::leak(bump.alloc_iter(input.iter().map(|i| D(*i)))); leaked.extend(input.iter().copied());
                // the NoDrop conversions, on plain numbers
                let x: &u32 = bump.alloc(fresh[1]).into_ref();
                let y: &mut u32 = bump.alloc(fresh[2]).into_mut();
                let mut v: BumpVec<u32, &Bump> = BumpVec::new_in(&bump);
                for i in 0..k { v.push(base + 80 + i as u32); }
                let want_v: Vec<u32> = (0..k).map(|i| base + 80 + i as u32).collect();
                let d: &mut [u32] = v.into_slice();
                let z: &mut [u32] = bump.alloc_slice_copy(&input).into_mut();
                if a.0 != fresh[0] || *x != fresh[1] || *y != fresh[2] || ids(c) != input || d[..] != want_v[..] || z[..] != input[..] {
                    notes.push(format!("{head}: contents differ from std::vec::Vec after into_ref / into_mut / leak / into_slice"));
                }
                if !drops().is_empty() { notes.push(format!("{head}: drops do not match: a leaking conversion dropped something")); }
            }
            _ => {
                // the arena as a raw pointer and back: same chunks, same position, data intact
                let p1 = bump.alloc_iter(input.iter().map(|i| D(*i))).into_raw();
                leaked.extend(input.iter().copied());
                let snap = |b: &Bump| -> Vec<(usize, usize, usize)> {
                    b.stats().small_to_big().map(|c| (c.chunk_start().as_ptr() as usize, c.size(), c.bump_position().as_ptr() as usize)).collect()
                };
                let before = snap(&bump);
                let raw = bump.into_raw();
                let b2: Bump = unsafe { Bump::from_raw(raw) };
                if snap(&b2) != before { notes.push(format!("{head}: contents differ from std::vec::Vec: the arena's chunks or position changed by into_raw / from_raw")); }
                if ids(unsafe { p1.as_ref() }) != input { notes.push(format!("{head}: contents differ from std::vec::Vec: data changed by Bump::into_raw / from_raw")); }
                let more = b2.alloc(D(fresh[0])); born.push(fresh[0]);
                if ids(unsafe { p1.as_ref() }) != input || more.0 != fresh[0] { notes.push(format!("{head}: contents differ from std::vec::Vec: data changed by an allocation after from_raw")); }
                drop(more);
                bump = b2;
            }
        }
        drop(bump);
        let mut got = drops();
        got.sort();
        let mut want: Vec<u32> = born.iter().copied().filter(|x| !leaked.contains(x)).collect();
        want.sort();
        if got != want { notes.push(format!("{head}: drops do not match: dropped {got:?}, expected exactly {want:?} once each")); }
        notes
    }
}
use misc::misc_probe;
