// Shared by colls.rs (include!): the raw views of the vector types — spare_capacity_mut,
// split_at_spare_mut, set_len, from_init / from_uninit, is_full, BumpBox into_raw / from_raw /
// into_ref / into_mut / leak, Bump::into_raw / from_raw — with drop-counting elements and
// std::vec::Vec in lock-step.  Contents must agree with std after every step and every element
// must end up dropped exactly once.
mod misc {
    use bump_scope::{Bump, BumpBox, BumpVec, FixedBumpVec, MutBumpVec, MutBumpVecRev};
    use std::cell::RefCell;
    use std::mem::MaybeUninit;
    use verif_harness::Rng;

    thread_local! { static MDROPS: RefCell<Vec<u32>> = const { RefCell::new(Vec::new()) }; }

    #[derive(Debug, PartialEq)]
    pub struct D(pub u32);
    impl Drop for D { fn drop(&mut self) { MDROPS.with(|d| d.borrow_mut().push(self.0)); } }
    fn drops() -> Vec<u32> { MDROPS.with(|d| std::mem::take(&mut *d.borrow_mut())) }
    fn ids(s: &[D]) -> Vec<u32> { s.iter().map(|d| d.0).collect() }

    pub fn misc_probe(r: &mut Rng) -> Vec<String> {
        let mut notes: Vec<String> = vec![];
        drops();
        let n = r.range(0, 7) as usize;
        let base = r.below(1000) as u32 * 100;
        let input: Vec<u32> = (0..n as u32).map(|i| base + i).collect();
        let k = r.range(0, 5) as usize;
        let fresh: Vec<u32> = (0..k as u32 + 3).map(|i| base + 50 + i).collect();
        let room = k + r.below(4) as usize;
        let keep = r.below(n as u64 + 1) as usize;
        let which = r.below(7);
        let split = r.coin(1, 2);
        let what = ["BumpVec spare capacity", "MutBumpVec spare capacity", "MutBumpVecRev spare capacity", "FixedBumpVec::from_init / from_uninit",
                    "BumpBox<[T]> raw round trip", "BumpBox into_ref / into_mut / leak", "Bump::into_raw / from_raw"][which as usize];
        let head = format!("misc: {what} n={n} k={k} room={room} keep={keep} split={}", split as u8);
        let mut born: Vec<u32> = input.clone();      // every identity that came into existence
        let mut leaked: Vec<u32> = vec![];           // identities handed out as plain references: never dropped by the crate
        let mut bump: Bump = Bump::new();
        macro_rules! differ {
            ($step:expr, $got:expr, $want:expr) => {
                if $got != $want { notes.push(format!("{head}: contents differ from std::vec::Vec after {}: {:?} instead of {:?}", $step, $got, $want)); }
            };
        }
        // forward vectors: BumpVec and MutBumpVec share the body
        macro_rules! forward {
            ($v:ident) => {{
                for i in &input { $v.push(D(*i)); }
                $v.reserve(room);
                let (len, cap) = ($v.len(), $v.capacity());
                let mut want = input.clone();
                let spare: &mut [MaybeUninit<D>] = if split {
                    let (init, spare) = $v.split_at_spare_mut();
                    differ!("split_at_spare_mut (initialised part)", ids(init), want);
                    spare
                } else { $v.spare_capacity_mut() };
                if spare.len() != cap - len { notes.push(format!("{head}: capacity: the spare part has {} slots, capacity - len = {}", spare.len(), cap - len)); }
                if cap < 100_000 { super::gaps::kline(format!("K sp {len} {cap} {}", spare.len())); }
                let j = k.min(spare.len());
                for i in 0..j { spare[i].write(D(fresh[i])); born.push(fresh[i]); want.push(fresh[i]); }
                unsafe { $v.set_len(len + j) };
                differ!("set_len over written spare slots", ids(&$v), want);
                if $v.capacity() != cap { notes.push(format!("{head}: capacity: {} became {} by writing into the spare part", cap, $v.capacity())); }
                $v.push(D(fresh[k])); born.push(fresh[k]); want.push(fresh[k]);
                differ!("push", ids(&$v), want);
                // shorten by hand: drop the tail in place, then set_len
                let keep = keep.min($v.len());
                unsafe {
                    for i in keep..$v.len() { core::ptr::drop_in_place($v.as_mut_ptr().add(i)); }
                    $v.set_len(keep);
                }
                want.truncate(keep);
                differ!("set_len to a shorter length", ids(&$v), want);
                $v.push(D(fresh[k + 1])); born.push(fresh[k + 1]); want.push(fresh[k + 1]);
                differ!("push after set_len", ids(&$v), want);
            }};
        }
        match which {
            0 => { let mut v: BumpVec<D, &Bump> = BumpVec::new_in(&bump); forward!(v); }
            1 => { let mut v: MutBumpVec<D, &mut Bump> = MutBumpVec::new_in(&mut bump); forward!(v); }
            2 => {
                // the reversed vector grows at the front: the spare part lies before the elements
                let mut v: MutBumpVecRev<D, &mut Bump> = MutBumpVecRev::new_in(&mut bump);
                for i in input.iter().rev() { v.push(D(*i)); }
                v.reserve(room);
                let (len, cap) = (v.len(), v.capacity());
                let mut want = input.clone();
                differ!("pushes", ids(&v), want);
                let spare: &mut [MaybeUninit<D>] = if split {
                    let (init, spare) = v.split_at_spare_mut();
                    differ!("split_at_spare_mut (initialised part)", ids(init), want);
                    spare
                } else { v.spare_capacity_mut() };
                if spare.len() != cap - len { notes.push(format!("{head}: capacity: the spare part has {} slots, capacity - len = {}", spare.len(), cap - len)); }
                if cap < 100_000 { super::gaps::kline(format!("K sp {len} {cap} {}", spare.len())); }
                let j = k.min(spare.len());
                let sl = spare.len();
                for i in 0..j { spare[sl - j + i].write(D(fresh[i])); born.push(fresh[i]); }
                unsafe { v.set_len(len + j) };
                want = fresh[..j].iter().copied().chain(want.into_iter()).collect();
                differ!("set_len over written spare slots", ids(&v), want);
                if v.capacity() != cap { notes.push(format!("{head}: capacity: {} became {} by writing into the spare part", cap, v.capacity())); }
                v.push(D(fresh[k])); born.push(fresh[k]); want.insert(0, fresh[k]);
                differ!("push", ids(&v), want);
                // shorten by hand at the front
                let keep = keep.min(v.len());
                let gone = v.len() - keep;
                unsafe {
                    for i in 0..gone { core::ptr::drop_in_place(v.as_mut_ptr().add(i)); }
                    v.set_len(keep);
                }
                want.drain(..gone);
                differ!("set_len to a shorter length", ids(&v), want);
                v.push(D(fresh[k + 1])); born.push(fresh[k + 1]); want.insert(0, fresh[k + 1]);
                differ!("push after set_len", ids(&v), want);
            }
            3 => {
                let bx: BumpBox<[D]> = bump.alloc_iter(input.iter().map(|i| D(*i)));
                let mut f = FixedBumpVec::from_init(bx);
                let mut want = input.clone();
                differ!("from_init", ids(&f), want);
                if f.len() != n || f.capacity() != n || !f.is_full() { notes.push(format!("{head}: capacity: from_init gave len {} capacity {} is_full {}, expected {n} {n} true", f.len(), f.capacity(), f.is_full())); }
                born.push(fresh[0]);
                if f.try_push(D(fresh[0])).is_ok() { notes.push(format!("{head}: capacity: try_push on a full fixed vector reported success")); }
                differ!("a refused try_push", ids(&f), want);
                if let Some(d) = f.pop() {
                    if Some(d.0) != want.pop() { notes.push(format!("{head}: returned values differ from std::vec::Vec: pop gave {}", d.0)); }
                    if f.is_full() { notes.push(format!("{head}: capacity: is_full after pop")); }
                    f.push(D(fresh[1])); born.push(fresh[1]); want.push(fresh[1]);
                    if !f.is_full() { notes.push(format!("{head}: capacity: not is_full after refilling")); }
                    differ!("pop then push", ids(&f), want);
                }
                let u = bump.alloc_uninit_slice::<D>(room);
                let mut g = FixedBumpVec::from_uninit(u);
                if g.len() != 0 || g.capacity() != room || g.is_full() != (room == 0) { notes.push(format!("{head}: capacity: from_uninit gave len {} capacity {} is_full {}", g.len(), g.capacity(), g.is_full())); }
                let mut wg: Vec<u32> = vec![];
                for i in 0..room { let id = base + 80 + i as u32; g.push(D(id)); born.push(id); wg.push(id); }
                if !g.is_full() { notes.push(format!("{head}: capacity: not is_full after {room} pushes into capacity {room}")); }
                differ!("from_uninit then pushes", ids(&g), wg);
                differ!("filling the second vector (first vector)", ids(&f), want);
                let bx2 = g.into_boxed_slice();
                differ!("into_boxed_slice", ids(&bx2), wg);
            }
            4 => {
                let bx: BumpBox<[D]> = bump.alloc_iter(input.iter().map(|i| D(*i)));
                let mut want = input.clone();
                let raw = bx.into_raw();
                if !drops().is_empty() { notes.push(format!("{head}: drops do not match: into_raw dropped something")); }
                let mut bx: BumpBox<[D]> = unsafe { BumpBox::from_raw(raw) };
                differ!("into_raw / from_raw", ids(&bx), want);
                let keep = keep.min(bx.len());
                unsafe {
                    for i in keep..bx.len() { core::ptr::drop_in_place(bx.as_mut_ptr().add(i)); }
                    bx.set_len(keep);
                }
                want.truncate(keep);
                differ!("set_len to a shorter length", ids(&bx), want);
                // a single value
                let one = bump.alloc(D(fresh[0])); born.push(fresh[0]);
                let raw1 = one.into_raw();
                let one: BumpBox<D> = unsafe { BumpBox::from_raw(raw1) };
                if one.0 != fresh[0] { notes.push(format!("{head}: contents differ from std::vec::Vec after into_raw / from_raw of one value")); }
                let inner = one.into_inner();
                if inner.0 != fresh[0] { notes.push(format!("{head}: contents differ from std::vec::Vec after into_inner")); }
            }
            5 => {
                // plain references: the crate must never drop these
                let a: &mut D = BumpBox::leak(bump.alloc(D(fresh[0]))); born.push(fresh[0]); leaked.push(fresh[0]);
                let c: &mut [D] = BumpBox::leak(bump.alloc_iter(input.iter().map(|i| D(*i)))); leaked.extend(input.iter().copied());
                // the NoDrop conversions, on plain numbers
                let x: &u32 = bump.alloc(fresh[1]).into_ref();
                let y: &mut u32 = bump.alloc(fresh[2]).into_mut();
                let mut v: BumpVec<u32, &Bump> = BumpVec::new_in(&bump);
                for i in 0..k { v.push(base + 80 + i as u32); }
                let want_v: Vec<u32> = (0..k).map(|i| base + 80 + i as u32).collect();
                let d: &mut [u32] = v.into_slice();
                let z: &mut [u32] = bump.alloc_slice_copy(&input).into_mut();
                if a.0 != fresh[0] || *x != fresh[1] || *y != fresh[2] || ids(c) != input || d[..] != want_v[..] || z[..] != input[..] {
                    notes.push(format!("{head}: contents differ from std::vec::Vec after into_ref / into_mut / leak / into_slice"));
                }
                if !drops().is_empty() { notes.push(format!("{head}: drops do not match: a leaking conversion dropped something")); }
            }
            _ => {
                // the arena as a raw pointer and back: same chunks, same position, data intact
                let p1 = bump.alloc_iter(input.iter().map(|i| D(*i))).into_raw();
                leaked.extend(input.iter().copied());
                let snap = |b: &Bump| -> Vec<(usize, usize, usize)> {
                    b.stats().small_to_big().map(|c| (c.chunk_start().as_ptr() as usize, c.size(), c.bump_position().as_ptr() as usize)).collect()
                };
                let before = snap(&bump);
                let raw = bump.into_raw();
                let b2: Bump = unsafe { Bump::from_raw(raw) };
                if snap(&b2) != before { notes.push(format!("{head}: contents differ from std::vec::Vec: the arena's chunks or position changed by into_raw / from_raw")); }
                if ids(unsafe { p1.as_ref() }) != input { notes.push(format!("{head}: contents differ from std::vec::Vec: data changed by Bump::into_raw / from_raw")); }
                let more = b2.alloc(D(fresh[0])); born.push(fresh[0]);
                if ids(unsafe { p1.as_ref() }) != input || more.0 != fresh[0] { notes.push(format!("{head}: contents differ from std::vec::Vec: data changed by an allocation after from_raw")); }
                drop(more);
                bump = b2;
            }
        }
        drop(bump);
        let mut got = drops();
        got.sort();
        let mut want: Vec<u32> = born.iter().copied().filter(|x| !leaked.contains(x)).collect();
        want.sort();
        if got != want { notes.push(format!("{head}: drops do not match: dropped {got:?}, expected exactly {want:?} once each")); }
        notes
    }

    // ------------------------------------------------------------------------------------------
    // growth by a producer (Colls.v: op_extend_clones, op_resize_with, op_resize, op_extend_iter,
    // op_map, op_dedup_by_key): the k-th production / closure call may panic.  One `C` line per
    // case for the extracted model; identities of produced elements are base+50+k for call k.
    thread_local! { static PROD: RefCell<(usize, i64, u32)> = const { RefCell::new((0, -1, 0)) }; }
    fn prod_reset(pa: i64, first_id: u32) { PROD.with(|p| *p.borrow_mut() = (0, pa, first_id)); }
    fn prod_calls() -> usize { PROD.with(|p| p.borrow().0) }
    /// the next production: counts the call, panics when it is the scripted one
    fn produce() -> u32 {
        let (k, pa, first) = PROD.with(|p| { let mut p = p.borrow_mut(); let c = *p; p.0 += 1; c });
        if k as i64 == pa { panic!("scripted panic in a production") }
        first + k as u32
    }
    #[derive(Debug, PartialEq)]
    pub struct K(pub u32);
    impl Drop for K { fn drop(&mut self) { MDROPS.with(|d| d.borrow_mut().push(self.0)); } }
    impl Clone for K { fn clone(&self) -> K { K(produce()) } }
    /// a wider type for the branch of `map` that cannot reuse the buffer
    #[derive(Debug, PartialEq)]
    pub struct Wide(pub u32, pub [u64; 2]);
    impl Drop for Wide { fn drop(&mut self) { MDROPS.with(|d| d.borrow_mut().push(self.0)); } }
    fn kids(s: &[K]) -> Vec<u32> { s.iter().map(|d| d.0).collect() }

    pub fn producers_probe(r: &mut Rng) -> (Vec<String>, Option<String>) {
        use std::panic::{AssertUnwindSafe, catch_unwind};
        let mut notes: Vec<String> = vec![];
        let list = |v: &[u32]| v.iter().map(|x| x.to_string()).collect::<Vec<_>>().join(",");
        drops();
        let n = r.range(0, 7) as usize;
        let base = r.below(1000) as u32 * 100;
        let input: Vec<u32> = (0..n as u32).map(|i| base + i).collect();
        let m = r.range(0, 6) as usize;                       // productions asked for
        let pa: i64 = if r.coin(1, 2) { r.below(m as u64 + 1) as i64 } else { -1 };
        let first = base + 50;
        let which = r.below(7);
        let kind = r.below(3);                                // 0 BumpVec, 1 MutBumpVec, 2 FixedBumpVec
        let kname = match kind { 1 => "mv", 2 => "fv", _ => "bv" };
        let mut bump: Bump = Bump::new();
        let line: String;
        macro_rules! with_vec {
            ($v:ident, $body:block) => {{
                match kind {
                    0 => { let mut $v: BumpVec<K, &Bump> = BumpVec::new_in(&bump); for i in &input { $v.push(K(*i)); } $body }
                    1 => { let mut $v: MutBumpVec<K, &mut Bump> = MutBumpVec::new_in(&mut bump); for i in &input { $v.push(K(*i)); } $body }
                    _ => { let mut $v: FixedBumpVec<K> = FixedBumpVec::with_capacity_in(2 * n + m + 4, &bump); for i in &input { $v.push(K(*i)); } $body }
                }
            }};
        }
        // after the operation: what the vector holds, what was dropped meanwhile; then forget the vector's elements
        macro_rules! finish {
            ($v:ident, $res:expr, $head:expr, $ex:expr) => {{
                let uw = $res.is_err();
                let fin = kids(&$v);
                let dr = drops();
                let calls = prod_calls();
                unsafe { $v.set_len(0) };
                format!("C {kname} {};in={};ans=;dp=;ex={};fin={};yl=;dr={};uw={};calls={calls}", $head, list(&input), list(&$ex), list(&fin), list(&dr), uw as u8)
            }};
        }
        match which {
            0 => {
                // extend_from_slice_clone: the sources are foreign elements (never dropped here)
                let src: Vec<K> = (0..m as u32).map(|i| K(base + 90 + i)).collect();
                let ex: Vec<u32> = (0..m as u32).map(|k| first + k).collect();
                line = with_vec!(v, {
                    prod_reset(pa, first);
                    let res = catch_unwind(AssertUnwindSafe(|| v.extend_from_slice_clone(&src)));
                    finish!(v, res, format!("extend_clones {pa}"), ex)
                });
                core::mem::forget(src);
            }
            1 => {
                // extend_from_within_clone(a..b)
                let a = r.below(n as u64 + 1) as usize;
                let b = a + r.below((n - a) as u64 + 1) as usize;
                let cnt = b - a;
                let pa: i64 = if pa >= 0 { pa.min(cnt as i64) } else { -1 };
                let ex: Vec<u32> = (0..cnt as u32).map(|k| first + k).collect();
                line = with_vec!(v, {
                    prod_reset(pa, first);
                    let res = catch_unwind(AssertUnwindSafe(|| v.extend_from_within_clone(a..b)));
                    finish!(v, res, format!("extend_clones {pa}"), ex)
                });
            }
            2 => {
                let new_len = r.below((n + m) as u64 + 1) as usize;
                let ex: Vec<u32> = (0..new_len.saturating_sub(n) as u32).map(|k| first + k).collect();
                line = with_vec!(v, {
                    prod_reset(pa, first);
                    let res = catch_unwind(AssertUnwindSafe(|| v.resize_with(new_len, || K(produce()))));
                    finish!(v, res, format!("resize_with {new_len} {pa}"), ex)
                });
            }
            3 => {
                let new_len = r.below((n + m) as u64 + 1) as usize;
                let vid = base + 40;
                let ex: Vec<u32> = (0..new_len.saturating_sub(n + 1) as u32).map(|k| first + k).collect();
                line = with_vec!(v, {
                    let value = K(vid);
                    prod_reset(pa, first);
                    let res = catch_unwind(AssertUnwindSafe(|| v.resize(new_len, value)));
                    finish!(v, res, format!("resize {new_len} {pa} {vid}"), ex)
                });
            }
            4 => {
                // extend from an iterator whose `next` may panic; honest or absent size hint
                let ex: Vec<u32> = (0..m as u32).map(|k| first + k).collect();
                let honest = r.coin(1, 2);
                struct It { left: usize, honest: bool }
                impl Iterator for It {
                    type Item = K;
                    fn next(&mut self) -> Option<K> { if self.left == 0 { return None; } let id = produce(); self.left -= 1; Some(K(id)) }
                    fn size_hint(&self) -> (usize, Option<usize>) { if self.honest { (self.left, Some(self.left)) } else { (0, None) } }
                }
                line = with_vec!(v, {
                    prod_reset(pa, first);
                    let res = catch_unwind(AssertUnwindSafe(|| v.extend(It { left: m, honest })));
                    finish!(v, res, format!("extend_iter {pa}"), ex)
                });
            }
            5 => {
                // map (BumpVec only), into a type of the same size (in place) or a wider one (new buffer)
                let wide = r.coin(1, 2);
                let pa: i64 = if pa >= 0 { pa.min(n as i64) } else { -1 };
                let mut v: BumpVec<K, &Bump> = BumpVec::new_in(&bump);
                for i in &input { v.push(K(*i)); }
                prod_reset(pa, 0);
                let res = catch_unwind(AssertUnwindSafe(|| {
                    if wide {
                        let mut w = v.map(|k| { let id = k.0; let _ = produce(); core::mem::forget(k); Wide(id, [1, 2]) });
                        let f: Vec<u32> = w.iter().map(|x| x.0).collect();
                        if w.iter().any(|x| x.1 != [1, 2]) { notes.push("producers: contents differ from std::vec::Vec: map wrote a damaged element".into()); }
                        unsafe { w.set_len(0) };
                        f
                    } else {
                        let mut w = v.map(|k| { let id = k.0; let _ = produce(); core::mem::forget(k); K(id) });
                        let f = kids(&w);
                        unsafe { w.set_len(0) };
                        f
                    }
                }));
                let dr = drops();
                let calls = prod_calls();
                let (fin, uw) = match res { Ok(f) => (f, 0), Err(_) => (vec![], 1) };
                line = format!("C bv map {pa};in={};ans=;dp=;ex=;fin={};yl=;dr={};uw={uw};calls={calls}", list(&input), list(&fin), list(&dr));
            }
            _ => {
                // dedup_by_key with scripted keys: call k returns ans[k] ('0'..'2') or panics ('P')
                let mut ans: Vec<u8> = (0..2 * n + 2).map(|_| b'0' + r.below(3) as u8).collect();
                if r.coin(1, 3) { let k = r.below(ans.len() as u64) as usize; ans[k] = b'P'; }
                let ans_s = String::from_utf8(ans.clone()).unwrap();
                let mut kc = 0usize;
                line = with_vec!(v, {
                    let res = catch_unwind(AssertUnwindSafe(|| v.dedup_by_key(|_e| { let c = ans.get(kc).copied().unwrap_or(b'0'); kc += 1; if c == b'P' { panic!("scripted panic in key") } c })));
                    let uw = res.is_err();
                    let fin = kids(&v);
                    let dr = drops();
                    unsafe { v.set_len(0) };
                    format!("C {kname} dedup_by_key;in={};ans={ans_s};dp=;ex=;fin={};yl=;dr={};uw={};calls={}", list(&input), list(&fin), list(&dr), uw as u8, (kc + 1) / 2)
                });
            }
        }
        drop(bump);
        if !drops().is_empty() { notes.push("producers: drops do not match: something was dropped after the vector had been emptied".into()); }
        (notes, Some(line))
    }

    // ------------------------------------------------------------------------------------------
    // the trait surface of the vector types against std::vec::Vec: io::Write, the construction
    // macros, Clone, Extend<&T>, FromIterator, comparisons, Hash, Index, Debug, Borrow / AsRef
    pub fn traits_probe(r: &mut Rng) -> Vec<String> {
        use std::collections::hash_map::DefaultHasher;
        use std::hash::{Hash, Hasher};
        use std::io::{IoSlice, Write};
        use bump_scope::{bump_vec, mut_bump_vec, mut_bump_vec_rev};
        let mut notes: Vec<String> = vec![];
        let n = r.range(0, 9) as usize;
        let a: Vec<u8> = (0..n).map(|_| r.below(5) as u8 + 1).collect();
        let m = r.range(0, 9) as usize;
        let b: Vec<u8> = (0..m).map(|_| r.below(5) as u8 + 1).collect();
        let c: Vec<u8> = (0..r.range(0, 5) as usize).map(|_| r.below(250) as u8).collect();
        let head = format!("traits: a={a:?} b={b:?} c={c:?}");
        let hash_of = |x: &dyn Fn(&mut DefaultHasher)| { let mut h = DefaultHasher::new(); x(&mut h); h.finish() };
        let bump: Bump = Bump::new();
        let mut bump2: Bump = Bump::new();
        macro_rules! differ { ($what:expr, $got:expr, $want:expr) => { if $got != $want { notes.push(format!("{head}: contents differ from std::vec::Vec: {}: {:?} instead of {:?}", $what, $got, $want)); } }; }
        // ---- io::Write on the three byte vectors
        let mut want: Vec<u8> = a.clone();
        let mut bv: BumpVec<u8, &Bump> = BumpVec::from_iter_in(a.iter().copied(), &bump);
        let mut mv: MutBumpVec<u8, &mut Bump> = MutBumpVec::from_iter_in(a.iter().copied(), &mut bump2);
        let cap = n + m + c.len() + r.below(3) as usize;
        let mut fv: FixedBumpVec<u8> = FixedBumpVec::with_capacity_in(cap, &bump);
        fv.extend_from_slice_copy(&a);
        let w1 = want.write(&b).unwrap();
        differ!("io::Write::write (returned count, BumpVec)", bv.write(&b).unwrap(), w1);
        differ!("io::Write::write (returned count, MutBumpVec)", mv.write(&b).unwrap(), w1);
        differ!("io::Write::write (returned count, FixedBumpVec)", fv.write(&b).unwrap(), w1);
        want.write_all(&c).unwrap(); bv.write_all(&c).unwrap(); mv.write_all(&c).unwrap(); fv.write_all(&c).unwrap();
        differ!("io::Write::write / write_all (BumpVec)", bv.as_slice(), want.as_slice());
        differ!("io::Write::write / write_all (MutBumpVec)", mv.as_slice(), want.as_slice());
        differ!("io::Write::write / write_all (FixedBumpVec)", fv.as_slice(), want.as_slice());
        let slices = [IoSlice::new(&c), IoSlice::new(&a), IoSlice::new(&[]), IoSlice::new(&b)];
        let wv = want.write_vectored(&slices).unwrap();
        differ!("io::Write::write_vectored (returned count, BumpVec)", bv.write_vectored(&slices).unwrap(), wv);
        differ!("io::Write::write_vectored (returned count, MutBumpVec)", mv.write_vectored(&slices).unwrap(), wv);
        differ!("io::Write::write_vectored (BumpVec)", bv.as_slice(), want.as_slice());
        differ!("io::Write::write_vectored (MutBumpVec)", mv.as_slice(), want.as_slice());
        // the fixed vector has no room for all of it: an error and nothing written, or all of it
        let before = fv.to_vec();
        match fv.write_vectored(&slices) {
            Ok(k) => { if k != wv || fv.as_slice() != want.as_slice() { notes.push(format!("{head}: contents differ from std::vec::Vec: FixedBumpVec::write_vectored wrote {k} bytes: {:?}", fv.as_slice())); } }
            Err(_) => {
                if before.len() + wv <= fv.capacity() { notes.push(format!("{head}: capacity: FixedBumpVec::write_vectored failed although {} + {wv} <= capacity {}", before.len(), fv.capacity())); }
                if fv.as_slice() != before.as_slice() { notes.push(format!("{head}: contents differ from std::vec::Vec: a failed FixedBumpVec::write_vectored changed the contents")); }
            }
        }
        let full_before = fv.to_vec();
        let too_much = vec![9u8; fv.capacity() - fv.len() + 1];
        if fv.write(&too_much).is_ok() || fv.write_all(&too_much).is_ok() { notes.push(format!("{head}: capacity: a write beyond the capacity of a FixedBumpVec succeeded")); }
        differ!("a refused io::Write::write (FixedBumpVec)", fv.as_slice(), full_before.as_slice());
        write!(want, "{}-{:?}", n, b).unwrap(); write!(bv, "{}-{:?}", n, b).unwrap(); write!(mv, "{}-{:?}", n, b).unwrap();
        differ!("write! (BumpVec)", bv.as_slice(), want.as_slice());
        differ!("write! (MutBumpVec)", mv.as_slice(), want.as_slice());
        if bv.flush().is_err() || mv.flush().is_err() || fv.flush().is_err() { notes.push(format!("{head}: contents differ from std::vec::Vec: flush failed")); }
        drop(mv);
        // ---- macros
        let x = r.below(200) as u32;
        let k = r.range(0, 6) as usize;
        { let v = bump_vec![in &bump]; let e: &[u32] = &v; differ!("bump_vec![in]", e, &[] as &[u32]); }
        { let v = bump_vec![in &bump; x, x + 1, x + 2]; differ!("bump_vec![in; a, b, c]", v.as_slice(), vec![x, x + 1, x + 2].as_slice()); }
        { let v = bump_vec![in &bump; x; k]; differ!("bump_vec![in; x; n]", v.as_slice(), vec![x; k].as_slice()); }
        { let v = mut_bump_vec![in &mut bump2; x, x + 1, x + 2]; differ!("mut_bump_vec![in; a, b, c]", v.as_slice(), vec![x, x + 1, x + 2].as_slice()); }
        { let v = mut_bump_vec![in &mut bump2; x; k]; differ!("mut_bump_vec![in; x; n]", v.as_slice(), vec![x; k].as_slice()); }
        { let v = mut_bump_vec_rev![in &mut bump2; x, x + 1, x + 2]; differ!("mut_bump_vec_rev![in; a, b, c]", v.as_slice(), vec![x, x + 1, x + 2].as_slice()); }
        { let v = mut_bump_vec_rev![in &mut bump2; x; k]; differ!("mut_bump_vec_rev![in; x; n]", v.as_slice(), vec![x; k].as_slice()); }
        // ---- Clone, Extend<&T>, Extend<T>, comparisons, Hash, Index, Debug, Borrow
        let va: BumpVec<u8, &Bump> = BumpVec::from_iter_in(a.iter().copied(), &bump);
        let mut vc = va.clone();
        differ!("Clone", vc.as_slice(), a.as_slice());
        if n > 0 && vc.as_ptr() == va.as_ptr() { notes.push(format!("{head}: contents differ from std::vec::Vec: a clone shares the buffer of the original")); }
        vc.extend(b.iter());
        vc.extend(c.iter().copied());
        let mut wc = a.clone(); wc.extend(b.iter()); wc.extend(c.iter().copied());
        differ!("Extend<&T> / Extend<T>", vc.as_slice(), wc.as_slice());
        differ!("Extend on a clone (the original)", va.as_slice(), a.as_slice());
        let vb: BumpVec<u8, &Bump> = BumpVec::from_iter_in(b.iter().copied(), &bump);
        differ!("PartialEq between vectors", (va == vb), (a == b));
        differ!("PartialEq with a slice", (va == b.as_slice()), (a == b));
        differ!("Ord::cmp through the slices", va.as_slice().cmp(vb.as_slice()), a.cmp(&b));
        differ!("Hash", hash_of(&|h| va.hash(h)), hash_of(&|h| a.hash(h)));
        differ!("Debug", format!("{va:?}"), format!("{a:?}"));
        if n > 0 { let i = r.below(n as u64) as usize; differ!("Index", va[i], a[i]); differ!("Index<Range>", &va[i..], &a[i..]); }
        { let s: &[u8] = va.as_ref(); differ!("AsRef<[T]>", s, a.as_slice()); let s: &[u8] = std::borrow::Borrow::borrow(&va); differ!("Borrow<[T]>", s, a.as_slice()); }
        // the reversed vector extends at the front: after extend(b) it reads rev(b) ++ a
        {
            let mut rv: MutBumpVecRev<u8, &mut Bump> = MutBumpVecRev::from_iter_in(a.iter().copied(), &mut bump2);
            let first: Vec<u8> = rv.to_vec();
            rv.extend(b.iter().copied());
            let wantr: Vec<u8> = b.iter().rev().copied().chain(first.iter().copied()).collect();
            differ!("MutBumpVecRev::extend (pushes to the front, one by one)", rv.as_slice(), wantr.as_slice());
            differ!("Hash (MutBumpVecRev)", hash_of(&|h| rv.hash(h)), hash_of(&|h| wantr.hash(h)));
            differ!("Debug (MutBumpVecRev)", format!("{rv:?}"), format!("{wantr:?}"));
        }
        notes
    }

    // ------------------------------------------------------------------------------------------
    // into_flattened on BumpBox<[[T; N]]> and the four vector types, N = 0..3, sized and zero-sized
    // elements: contents as std's Vec::into_flattened, capacity = old capacity * N (usize::MAX for
    // zero-sized elements), the vector stays usable, every element is dropped exactly once
    thread_local! { static ZLIVE: std::cell::Cell<i64> = const { std::cell::Cell::new(0) }; }
    pub struct Zs;
    impl Zs { fn new() -> Zs { ZLIVE.with(|c| c.set(c.get() + 1)); Zs } }
    impl Drop for Zs { fn drop(&mut self) { ZLIVE.with(|c| c.set(c.get() - 1)); } }

    pub fn flatten_probe(r: &mut Rng) -> Vec<String> {
        let mut notes: Vec<String> = vec![];
        drops();
        let n = r.range(0, 6) as usize;
        let base = r.below(1000) as u32 * 100;
        let kind = r.below(5);        // 0 BumpBox, 1 BumpVec, 2 FixedBumpVec, 3 MutBumpVec, 4 MutBumpVecRev
        let arity = r.below(4) as usize;
        let zst = r.coin(1, 3);
        let extra = r.below(3) as usize;
        let kname = ["BumpBox<[[T; N]]>", "BumpVec<[T; N]>", "FixedBumpVec<[T; N]>", "MutBumpVec<[T; N]>", "MutBumpVecRev<[T; N]>"][kind as usize];
        let head = format!("flatten: {kname}::into_flattened N={arity} n={n} zero-sized={} extra={extra}", zst as u8);
        let mut bump: Bump = Bump::new();
        macro_rules! sized {
            ($N:literal) => {{
                let mk = |i: usize| -> [D; $N] { core::array::from_fn(|j| D(base + (i * $N + j) as u32)) };
                let want: Vec<u32> = (0..n * $N).map(|i| base + i as u32).collect();
                let mut born: Vec<u32> = want.clone();
                let check = |what: &str, got: Vec<u32>, want: &Vec<u32>, notes: &mut Vec<String>| { if &got != want { notes.push(format!("{head}: contents differ from std::vec::Vec after {what}: {got:?} instead of {want:?}")); } };
                match kind {
                    0 => { let b = bump.alloc_iter((0..n).map(mk)); let f = b.into_flattened(); check("into_flattened", ids(&f), &want, &mut notes); }
                    1 => {
                        let mut v: BumpVec<[D; $N], &Bump> = BumpVec::with_capacity_in(n + extra, &bump);
                        for i in 0..n { v.push(mk(i)); }
                        let cap = v.capacity();
                        let len_before_flatten = v.len();
                        let mut f = v.into_flattened();
                        if $N > 0 && cap != usize::MAX { super::gaps::kline(format!("K fl {} {cap} {} {len_before_flatten} {}", $N, f.capacity(), f.len())); }
                        check("into_flattened", ids(&f), &want, &mut notes);
                        if f.capacity() > cap * $N || f.capacity() < f.len() { notes.push(format!("{head}: capacity: {} after flattening a vector of capacity {cap} and length {}", f.capacity(), f.len())); }
                        let mut w = want.clone();
                        for i in 0..(extra * $N + 2) { let id = base + 90 + i as u32; f.push(D(id)); born.push(id); w.push(id); }
                        check("pushes onto the flattened vector", ids(&f), &w, &mut notes);
                    }
                    2 => {
                        let mut v: FixedBumpVec<[D; $N]> = FixedBumpVec::with_capacity_in(n + extra, &bump);
                        for i in 0..n { v.push(mk(i)); }
                        let cap = v.capacity();
                        let len_before_flatten = v.len();
                        let mut f = v.into_flattened();
                        if $N > 0 && cap != usize::MAX { super::gaps::kline(format!("K fl {} {cap} {} {len_before_flatten} {}", $N, f.capacity(), f.len())); }
                        check("into_flattened", ids(&f), &want, &mut notes);
                        if f.capacity() > cap * $N || f.capacity() < f.len() { notes.push(format!("{head}: capacity: {} after flattening a vector of capacity {cap} and length {}", f.capacity(), f.len())); }
                        let mut w = want.clone();
                        while f.len() < f.capacity() && f.len() < 64 { let id = base + 90 + f.len() as u32; f.push(D(id)); born.push(id); w.push(id); }
                        check("filling the flattened vector", ids(&f), &w, &mut notes);
                        if f.capacity() < 64 && f.try_push(D(base + 99)).is_ok() { notes.push(format!("{head}: capacity: a push beyond the capacity of the flattened fixed vector succeeded")); born.push(base + 99); } else if f.capacity() < 64 { born.push(base + 99); }
                    }
                    3 => {
                        let mut v: MutBumpVec<[D; $N], &mut Bump> = MutBumpVec::with_capacity_in(n + extra, &mut bump);
                        for i in 0..n { v.push(mk(i)); }
                        let cap = v.capacity();
                        let len_before_flatten = v.len();
                        let mut f = v.into_flattened();
                        if $N > 0 && cap != usize::MAX { super::gaps::kline(format!("K fl {} {cap} {} {len_before_flatten} {}", $N, f.capacity(), f.len())); }
                        check("into_flattened", ids(&f), &want, &mut notes);
                        if f.capacity() > cap * $N || f.capacity() < f.len() { notes.push(format!("{head}: capacity: {} after flattening a vector of capacity {cap} and length {}", f.capacity(), f.len())); }
                        let mut w = want.clone();
                        for i in 0..(extra * $N + 2) { let id = base + 90 + i as u32; f.push(D(id)); born.push(id); w.push(id); }
                        check("pushes onto the flattened vector", ids(&f), &w, &mut notes);
                    }
                    _ => {
                        let mut v: MutBumpVecRev<[D; $N], &mut Bump> = MutBumpVecRev::with_capacity_in(n + extra, &mut bump);
                        for i in (0..n).rev() { v.push(mk(i)); }
                        let cap = v.capacity();
                        let len_before_flatten = v.len();
                        let mut f = v.into_flattened();
                        if $N > 0 && cap != usize::MAX { super::gaps::kline(format!("K fl {} {cap} {} {len_before_flatten} {}", $N, f.capacity(), f.len())); }
                        check("into_flattened", ids(&f), &want, &mut notes);
                        if f.capacity() > cap * $N || f.capacity() < f.len() { notes.push(format!("{head}: capacity: {} after flattening a vector of capacity {cap} and length {}", f.capacity(), f.len())); }
                        let mut w = want.clone();
                        for i in 0..(extra * $N + 2) { let id = base + 90 + i as u32; f.push(D(id)); born.push(id); w.insert(0, id); }
                        check("pushes onto the flattened vector", ids(&f), &w, &mut notes);
                    }
                }
                let mut got = drops(); got.sort(); born.sort();
                if got != born { notes.push(format!("{head}: drops do not match: dropped {got:?}, expected exactly {born:?} once each")); }
            }};
        }
        macro_rules! zero {
            ($N:literal) => {{
                let mk = || -> [Zs; $N] { core::array::from_fn(|_| Zs::new()) };
                let live0 = ZLIVE.with(|c| c.get());
                let lens: (usize, usize) = match kind {
                    0 => { let b = bump.alloc_iter((0..n).map(|_| mk())); let f = b.into_flattened(); (f.len(), usize::MAX) }
                    1 => { let mut v: BumpVec<[Zs; $N], &Bump> = BumpVec::new_in(&bump); for _ in 0..n { v.push(mk()); } let mut f = v.into_flattened(); let l = f.len(); let c = f.capacity(); f.push(Zs::new()); if f.len() != l + 1 { notes.push(format!("{head}: contents differ from std::vec::Vec: push onto the flattened vector")); } (l, c) }
                    2 => { let mut v: FixedBumpVec<[Zs; $N]> = FixedBumpVec::with_capacity_in(n, &bump); for _ in 0..n { v.push(mk()); } let mut f = v.into_flattened(); let l = f.len(); let c = f.capacity(); f.push(Zs::new()); (l, c) }
                    3 => { let mut v: MutBumpVec<[Zs; $N], &mut Bump> = MutBumpVec::new_in(&mut bump); for _ in 0..n { v.push(mk()); } let mut f = v.into_flattened(); let l = f.len(); let c = f.capacity(); f.push(Zs::new()); (l, c) }
                    _ => { let mut v: MutBumpVecRev<[Zs; $N], &mut Bump> = MutBumpVecRev::new_in(&mut bump); for _ in 0..n { v.push(mk()); } let mut f = v.into_flattened(); let l = f.len(); let c = f.capacity(); f.push(Zs::new()); (l, c) }
                };
                if lens.0 != n * $N { notes.push(format!("{head}: contents differ from std::vec::Vec: length {} instead of {}", lens.0, n * $N)); }
                if lens.1 != usize::MAX { notes.push(format!("{head}: capacity: {} for zero-sized elements", lens.1)); }
                let live1 = ZLIVE.with(|c| c.get());
                if live1 != live0 { notes.push(format!("{head}: drops do not match: {} zero-sized elements still alive (negative = dropped more than once)", live1 - live0)); }
            }};
        }
        match (zst, arity) {
            (false, 0) => sized!(0), (false, 1) => sized!(1), (false, 2) => sized!(2), (false, _) => sized!(3),
            (true, 0) => zero!(0), (true, 1) => zero!(1), (true, 2) => zero!(2), (true, _) => zero!(3),
        }
        // zero-sized elements: split_at / split_off / merge of boxed slices count elements, nothing else
        if zst {
            let live0 = ZLIVE.with(|c| c.get());
            let a: BumpBox<[Zs]> = bump.alloc_iter((0..n).map(|_| Zs::new()));
            let k = r.below(n as u64 + 1) as usize;
            let (x, y) = a.split_at(k);
            if x.len() != k || y.len() != n - k { notes.push(format!("{head}: parts: split_at({k}) of {n} zero-sized elements gives {} and {}", x.len(), y.len())); }
            let mut m = if r.coin(1, 2) { x.merge(y) } else { y.merge(x) };
            if m.len() != n { notes.push(format!("{head}: parts: merging the parts of {n} zero-sized elements gives {}", m.len())); }
            let j = r.below(n as u64 + 1) as usize;
            let i = r.below(j as u64 + 1) as usize;
            let off = m.split_off(i..j);
            if off.len() != j - i || m.len() != n - (j - i) { notes.push(format!("{head}: parts: split_off({i}..{j}) of {n} zero-sized elements gives {} and keeps {}", off.len(), m.len())); }
            if ZLIVE.with(|c| c.get()) != live0 + n as i64 { notes.push(format!("{head}: drops do not match: dividing zero-sized elements changed how many are alive")); }
            drop(off);
            drop(m);
            if ZLIVE.with(|c| c.get()) != live0 { notes.push(format!("{head}: drops do not match: {} zero-sized elements still alive after the parts were dropped (negative = dropped more than once)", ZLIVE.with(|c| c.get()) - live0)); }
        }
        notes
    }

    // ------------------------------------------------------------------------------------------
    // collections whose allocator is a WithoutShrink / WithoutDealloc wrapper (C13: the opt-outs are
    // honoured, C08: the vector still behaves like std's): a random history with std::vec::Vec in
    // lock-step; with WithoutShrink the capacity never goes down and no byte is given back by a
    // shrink, with WithoutDealloc nothing is ever given back, not even by dropping the vector
    pub fn wrappers_probe(r: &mut Rng) -> Vec<String> {
        use bump_scope::{WithoutDealloc, WithoutShrink};
        let mut notes: Vec<String> = vec![];
        let which = r.below(4);
        let wname = ["WithoutShrink<&Bump>", "WithoutDealloc<&Bump>", "WithoutDealloc<WithoutShrink<&Bump>>", "&Bump"][which as usize];
        let up = r.coin(1, 2);
        let steps = r.range(3, 25) as usize;
        let script: Vec<(u64, usize)> = (0..steps).map(|_| (r.below(8), r.below(40) as usize)).collect();
        let head = format!("wrappers: BumpVec<u32, {wname}> UP={}", up as u8);
        macro_rules! run {
            ($bump:expr, $alloc:expr, $no_shrink:expr, $no_dealloc:expr) => {{
                let bump = $bump;
                let keep = bump.alloc_slice_fill(9, 0x6Bu8).as_ptr() as usize;
                let mut v = BumpVec::new_in($alloc(&bump));
                let mut w: Vec<u32> = vec![];
                let mut trace = String::new();
                let mut low_water = bump.stats().allocated();
                for (i, (op, n)) in script.iter().enumerate() {
                    let (cap0, alloc0) = (v.capacity(), bump.stats().allocated());
                    match op {
                        0 | 1 => { v.push(i as u32); w.push(i as u32); trace.push_str(" push"); }
                        2 => { v.extend_from_slice_copy(&vec![7u32; *n]); w.extend_from_slice(&vec![7u32; *n]); trace.push_str(&format!(" extend({n})")); }
                        3 => { let k = (*n).min(w.len()); v.truncate(k); w.truncate(k); trace.push_str(&format!(" truncate({k})")); }
                        4 => { v.shrink_to_fit(); trace.push_str(" shrink_to_fit"); }
                        5 => { v.shrink_to(*n); trace.push_str(&format!(" shrink_to({n})")); }
                        6 => { v.reserve(*n); trace.push_str(&format!(" reserve({n})")); }
                        _ => { bump.alloc(0xEEu8); trace.push_str(" other"); }
                    }
                    if v.as_slice() != w.as_slice() { notes.push(format!("{head}: contents differ from std::vec::Vec after{trace}")); break; }
                    if v.capacity() < v.len() { notes.push(format!("{head}: capacity: capacity {} below length {} after{trace}", v.capacity(), v.len())); }
                    let alloc1 = bump.stats().allocated();
                    if matches!(op, 4 | 5) {
                        if $no_shrink && alloc1 < alloc0 { notes.push(format!("{head}: capacity: a shrink through WithoutShrink took the allocated bytes from {alloc0} to {alloc1} (capacity {cap0} -> {}) after{trace}", v.capacity())); }
                        if v.capacity() > cap0 { notes.push(format!("{head}: capacity: a shrink raised the capacity from {cap0} to {} after{trace}", v.capacity())); }
                    }
                    if $no_dealloc && $no_shrink && alloc1 < low_water { notes.push(format!("{head}: capacity: allocated bytes fell from {low_water} to {alloc1} although nothing may be given back after{trace}")); }
                    low_water = low_water.max(alloc1);
                }
                let before_drop = bump.stats().allocated();
                drop(v);
                let after_drop = bump.stats().allocated();
                if $no_dealloc && after_drop < before_drop { notes.push(format!("{head}: capacity: dropping the vector gave {} bytes back through WithoutDealloc after{trace}", before_drop - after_drop)); }
                if after_drop > before_drop { notes.push(format!("{head}: capacity: dropping the vector allocated after{trace}")); }
                if unsafe { core::slice::from_raw_parts(keep as *const u8, 9) } != [0x6Bu8; 9] { notes.push(format!("{head}: contents differ from std::vec::Vec: an earlier allocation changed after{trace}")); }
            }};
        }
        use bump_scope::settings::BumpSettings;
        type Up = Bump<bump_scope::alloc::Global, BumpSettings<1, true>>;
        type Down = Bump<bump_scope::alloc::Global, BumpSettings<4, false>>;
        match (which, up) {
            (0, true) => run!(Up::with_size(256), |b| WithoutShrink(b), true, false),
            (0, false) => run!(Down::with_size(256), |b| WithoutShrink(b), true, false),
            (1, true) => run!(Up::with_size(256), |b| WithoutDealloc(b), false, true),
            (1, false) => run!(Down::with_size(256), |b| WithoutDealloc(b), false, true),
            (2, true) => run!(Up::with_size(256), |b| WithoutDealloc(WithoutShrink(b)), true, true),
            (2, false) => run!(Down::with_size(256), |b| WithoutDealloc(WithoutShrink(b)), true, true),
            (_, true) => run!(Up::with_size(256), |b| b, false, false),
            (_, false) => run!(Down::with_size(256), |b| b, false, false),
        }
        notes
    }

    // ------------------------------------------------------------------------------------------
    // every kind of owned slice as the source of append / alloc_slice_move / from_owned_slice_in
    // (src/owned_slice.rs): arrays, boxed arrays, std and bump vectors, boxed slices, partially
    // consumed iterators and drains, and `&mut` of them.  The elements move: nothing is dropped by
    // the hand-over, the destination reads like std's, a source passed by `&mut` is left empty but
    // usable, and in the end every element is dropped exactly once.
    pub fn sources_probe(r: &mut Rng) -> Vec<String> {
        let mut notes: Vec<String> = vec![];
        drops();
        let n = r.range(0, 6) as usize;          // elements already in the destination
        let base = r.below(1000) as u32 * 100;
        let dst_ids: Vec<u32> = (0..n as u32).map(|i| base + i).collect();
        let m = 3usize;                          // the sources hold three elements (arrays need a constant)
        let src_ids: Vec<u32> = (0..m as u32).map(|i| base + 50 + i).collect();
        let taken = r.below(3) as usize;         // iterators / drains: elements consumed before the hand-over
        let which = r.below(16);
        let sink = r.below(3);                   // 0 append onto a BumpVec, 1 alloc_slice_move, 2 BumpVec::from_owned_slice_in
        let by_ref = r.coin(1, 3);
        let sname = ["[T; 3]", "BumpBox<[T; 3]>", "Box<[T; 3]>", "array::IntoIter", "BumpBox<[T]>", "FixedBumpVec", "BumpVec", "MutBumpVec", "MutBumpVecRev",
                     "Box<[T]>", "Vec", "vec::IntoIter", "vec::Drain", "owned_slice::IntoIter", "owned_slice::Drain", "MutBumpVec (append sink)"][which as usize];
        let head = format!("sources: {} from {sname}{} n={n} taken={taken}", ["append", "alloc_slice_move", "from_owned_slice_in"][sink as usize], if by_ref { " by &mut" } else { "" });
        let bump: Bump = Bump::new();
        let mut other: Bump = Bump::new();
        let mk = |i: usize| D(src_ids[i]);
        let mut consumed: Vec<u32> = vec![];    // taken out of an iterator before the hand-over (dropped by this probe)
        let mut expect_src: Vec<u32> = src_ids.clone();
        // the destination
        let mut dst: BumpVec<D, &Bump> = BumpVec::new_in(&bump);
        for i in &dst_ids { dst.push(D(*i)); }
        let mut moved: Option<Vec<u32>> = None;   // what the non-append sinks produced
        macro_rules! hand_over {
            ($src:expr) => {{
                let before = drops();
                if !before.iter().all(|x| consumed.contains(x)) { notes.push(format!("{head}: drops do not match: building the source dropped {before:?}")); }
                match sink {
                    0 => dst.append($src),
                    1 => { let b = bump.alloc_slice_move($src); moved = Some(ids(&b)); core::mem::forget(b); }
                    _ => { let v: BumpVec<D, &Bump> = BumpVec::from_owned_slice_in($src, &bump); moved = Some(ids(&v)); core::mem::forget(v); }
                }
                let during = drops();
                if !during.is_empty() { notes.push(format!("{head}: drops do not match: the hand-over dropped {during:?}")); }
            }};
        }
        match which {
            0 => { let a: [D; 3] = [mk(0), mk(1), mk(2)]; hand_over!(a); }
            1 => { let a = bump.alloc([mk(0), mk(1), mk(2)]); hand_over!(a); }
            2 => { let a: Box<[D; 3]> = Box::new([mk(0), mk(1), mk(2)]); hand_over!(a); }
            3 => {
                let mut it = [mk(0), mk(1), mk(2)].into_iter();
                for _ in 0..taken { if let Some(d) = it.next() { consumed.push(d.0); expect_src.remove(0); } }
                if by_ref { hand_over!(&mut it); if it.next().is_some() { notes.push(format!("{head}: contents differ from std::vec::Vec: the iterator still yields after the hand-over")); } } else { hand_over!(it); }
            }
            4 => { let mut a: BumpBox<[D]> = other.alloc_iter((0..m).map(mk)); if by_ref { hand_over!(&mut a); if !a.is_empty() { notes.push(format!("{head}: contents differ from std::vec::Vec: the source is not empty after the hand-over")); } } else { hand_over!(a); } }
            5 => { let mut a: FixedBumpVec<D> = FixedBumpVec::with_capacity_in(m + 1, &other); for i in 0..m { a.push(mk(i)); } if by_ref { hand_over!(&mut a); if !a.is_empty() { notes.push(format!("{head}: contents differ from std::vec::Vec: the source is not empty after the hand-over")); } a.push(D(base + 70)); if ids(&a) != [base + 70] { notes.push(format!("{head}: contents differ from std::vec::Vec: the emptied source is not usable")); } } else { hand_over!(a); } }
            6 => { let mut a: BumpVec<D, &Bump> = BumpVec::new_in(&other); for i in 0..m { a.push(mk(i)); } if by_ref { hand_over!(&mut a); if !a.is_empty() { notes.push(format!("{head}: contents differ from std::vec::Vec: the source is not empty after the hand-over")); } a.push(D(base + 70)); if ids(&a) != [base + 70] { notes.push(format!("{head}: contents differ from std::vec::Vec: the emptied source is not usable")); } } else { hand_over!(a); } }
            7 | 15 => { let mut a: MutBumpVec<D, &mut Bump> = MutBumpVec::new_in(&mut other); for i in 0..m { a.push(mk(i)); } if by_ref { hand_over!(&mut a); if !a.is_empty() { notes.push(format!("{head}: contents differ from std::vec::Vec: the source is not empty after the hand-over")); } } else { hand_over!(a); } }
            8 => { let mut a: MutBumpVecRev<D, &mut Bump> = MutBumpVecRev::new_in(&mut other); for i in (0..m).rev() { a.push(mk(i)); } if by_ref { hand_over!(&mut a); if !a.is_empty() { notes.push(format!("{head}: contents differ from std::vec::Vec: the source is not empty after the hand-over")); } } else { hand_over!(a); } }
            9 => { let a: Box<[D]> = (0..m).map(mk).collect::<Vec<D>>().into_boxed_slice(); hand_over!(a); }
            10 => { let mut a: Vec<D> = (0..m).map(mk).collect(); if by_ref { hand_over!(&mut a); if !a.is_empty() { notes.push(format!("{head}: contents differ from std::vec::Vec: the source is not empty after the hand-over")); } a.push(D(base + 70)); } else { hand_over!(a); } }
            11 => {
                let mut it = (0..m).map(mk).collect::<Vec<D>>().into_iter();
                for _ in 0..taken { if let Some(d) = it.next_back() { consumed.push(d.0); expect_src.pop(); } }
                if by_ref { hand_over!(&mut it); if it.next().is_some() { notes.push(format!("{head}: contents differ from std::vec::Vec: the iterator still yields after the hand-over")); } } else { hand_over!(it); }
            }
            12 => {
                let mut v: Vec<D> = (0..m).map(mk).collect();
                v.push(D(base + 71));               // stays in the vector: the drain covers the first three only
                {
                    let mut dr = v.drain(..m);
                    for _ in 0..taken { if let Some(d) = dr.next() { consumed.push(d.0); expect_src.remove(0); } }
                    hand_over!(dr);
                }
                if ids(&v) != [base + 71] { notes.push(format!("{head}: contents differ from std::vec::Vec: the drained std vector holds {:?}", ids(&v))); }
            }
            13 => {
                let a: BumpBox<[D]> = other.alloc_iter((0..m).map(mk));
                let mut it = a.into_iter();
                for _ in 0..taken { if let Some(d) = it.next() { consumed.push(d.0); expect_src.remove(0); } }
                if by_ref { hand_over!(&mut it); if it.next().is_some() { notes.push(format!("{head}: contents differ from std::vec::Vec: the iterator still yields after the hand-over")); } } else { hand_over!(it); }
            }
            _ => {
                let mut a: BumpVec<D, &Bump> = BumpVec::new_in(&other);
                for i in 0..m { a.push(mk(i)); }
                a.push(D(base + 71));
                {
                    let mut dr = a.drain(..m);
                    for _ in 0..taken { if let Some(d) = dr.next_back() { consumed.push(d.0); expect_src.pop(); } }
                    hand_over!(dr);
                }
                if ids(&a) != [base + 71] { notes.push(format!("{head}: contents differ from std::vec::Vec: the drained bump vector holds {:?}", ids(&a))); }
            }
        }
        let mut want: Vec<u32> = dst_ids.clone();
        match &moved {
            None => { want.extend(expect_src.iter().copied()); }
            Some(got) => { if got != &expect_src { notes.push(format!("{head}: contents differ from std::vec::Vec: the new slice holds {got:?} instead of {expect_src:?}")); } }
        }
        if ids(&dst) != want { notes.push(format!("{head}: contents differ from std::vec::Vec: the destination holds {:?} instead of {want:?}", ids(&dst))); }
        // in the end: everything that was not forgotten on purpose is dropped exactly once
        let forgotten: Vec<u32> = moved.clone().unwrap_or_default();
        drop(dst);
        drop(other);
        drop(bump);
        let mut got = drops(); got.sort();
        let mut all: Vec<u32> = dst_ids.iter().chain(src_ids.iter()).copied().filter(|x| !forgotten.contains(x) && !consumed.contains(x)).collect();
        // extra elements some cases create
        if matches!(which, 12 | 14) { all.push(base + 71); }
        if by_ref && matches!(which, 5 | 6 | 10) { all.push(base + 70); }
        all.sort();
        if got != all { notes.push(format!("{head}: drops do not match: dropped {got:?}, expected exactly {all:?} once each")); }
        notes
    }

    // ------------------------------------------------------------------------------------------
    // C16, last clause: "each part is afterwards independent: growing, shrinking, dropping, boxing or
    // deallocating one part never changes the contents of another" - on arenas of both directions
    // and several minimum alignments, with byte-sized elements so that split points fall between
    // multiples of the minimum alignment, the split buffer being the newest allocation or not.
    pub fn independence_probe(r: &mut Rng) -> Vec<String> {
        use bump_scope::settings::BumpSettings;
        use bump_scope::alloc::Global;
        let mut notes: Vec<String> = vec![];
        let n = r.range(1, 24) as usize;
        let extra = r.below(6) as usize;
        let a = r.below(n as u64 + 1) as usize;
        let b = a + r.below((n - a) as u64 + 1) as usize;
        let shape = r.below(3);                 // 0 BumpVec::split_off(a..b), 1 BumpBox<[u8]>::split_at(a), 2 BumpString::split_off(a..b)
        let newest = r.coin(2, 3);              // is the split buffer the most recent allocation?
        let script: Vec<(u64, usize)> = (0..r.range(1, 6)).map(|_| (r.below(8), r.range(1, 20) as usize)).collect();
        let data: Vec<u8> = (0..n).map(|i| b'a' + (i % 26) as u8).collect();
        macro_rules! with {
            ($ma:literal, $up:literal) => {{
                type B = Bump<Global, BumpSettings<$ma, $up>>;
                let head = format!("parts: independence: shape={shape} n={n} extra={extra} range={a}..{b} newest={} script={script:?} MIN_ALIGN={} UP={}", newest as u8, $ma, $up);
                let bump: B = Bump::with_size(512);
                let before_it = bump.alloc_slice_fill(3, 0x11u8).as_ptr() as usize;
                let check_guard = |notes: &mut Vec<String>, when: &str| { if unsafe { core::slice::from_raw_parts(before_it as *const u8, 3) } != [0x11u8; 3] { notes.push(format!("{head}: an older allocation changed {when}")); } };
                match shape {
                    0 | 2 => {
                        // two vectors over one buffer (a string's split_off is the vector's on its bytes)
                        let mut v: BumpVec<u8, &B> = BumpVec::with_capacity_in(n + extra, &bump);
                        v.extend_from_slice_copy(&data);
                        if !newest { bump.alloc(0x22u8); }
                        let (mut keep, mut off): (Option<BumpVec<u8, &B>>, Option<BumpVec<u8, &B>>) = if shape == 0 {
                            let o = v.split_off(a..b); (Some(v), Some(o))
                        } else {
                            let mut s = unsafe { bump_scope::BumpString::from_utf8_unchecked(v) };
                            let o = s.split_off(a..b);
                            (Some(s.into_bytes()), Some(o.into_bytes()))
                        };
                        let mut want_keep: Vec<u8> = data[..a].iter().chain(data[b..].iter()).copied().collect();
                        let mut want_off: Vec<u8> = data[a..b].to_vec();
                        let mut trace = String::new();
                        for (op, m) in &script {
                            match op {
                                0 => { if keep.is_some() && off.is_some() { keep = None; trace.push_str(" drop(rest)"); } }
                                1 => { if keep.is_some() && off.is_some() { off = None; trace.push_str(" drop(split-off)"); } }
                                2 => { let f = bump.alloc_slice_fill(*m, 0xEEu8); if f.iter().any(|x| *x != 0xEE) { notes.push(format!("{head}: a fresh allocation reads back wrong after{trace}")); } trace.push_str(&format!(" alloc({m})")); }
                                3 => { if let Some(k) = keep.as_mut() { for j in 0..*m { k.push(b'0' + (j % 10) as u8); want_keep.push(b'0' + (j % 10) as u8); } trace.push_str(&format!(" rest.push*{m}")); } }
                                4 => { if let Some(o) = off.as_mut() { for j in 0..*m { o.push(b'A' + (j % 26) as u8); want_off.push(b'A' + (j % 26) as u8); } trace.push_str(&format!(" split-off.push*{m}")); } }
                                5 => { if let Some(k) = keep.as_mut() { k.shrink_to_fit(); trace.push_str(" rest.shrink_to_fit"); } }
                                6 => { if let Some(o) = off.as_mut() { o.shrink_to_fit(); trace.push_str(" split-off.shrink_to_fit"); } }
                                _ => { if let Some(o) = off.take() { let bx = o.into_boxed_slice(); if &*bx != want_off.as_slice() { notes.push(format!("{head}: boxing the split-off part changed it after{trace}")); } core::mem::forget(bx); trace.push_str(" split-off.into_boxed_slice"); } }
                            }
                            if let Some(k) = &keep { if k.as_slice() != want_keep.as_slice() { notes.push(format!("{head}: the remaining part changed after{trace}: {:?} instead of {:?}", k.as_slice(), want_keep)); break; } }
                            if let Some(o) = &off { if o.as_slice() != want_off.as_slice() { notes.push(format!("{head}: the split-off part changed after{trace}: {:?} instead of {:?}", o.as_slice(), want_off)); break; } }
                            check_guard(&mut notes, &format!("after{trace}"));
                        }
                    }
                    _ => {
                        let bx: BumpBox<[u8]> = bump.alloc_slice_copy(&data);
                        if !newest { bump.alloc(0x22u8); }
                        let (l, rr) = bx.split_at(a);
                        let (mut left, mut right) = (Some(l), Some(rr));
                        let (want_l, want_r) = (data[..a].to_vec(), data[a..].to_vec());
                        let mut trace = String::new();
                        for (op, m) in &script {
                            match op {
                                0 | 3 => { if left.is_some() && right.is_some() { bump.dealloc(left.take().unwrap()); trace.push_str(" dealloc(left)"); } }
                                1 | 4 => { if left.is_some() && right.is_some() { bump.dealloc(right.take().unwrap()); trace.push_str(" dealloc(right)"); } }
                                5 => { if left.is_some() && right.is_some() { drop(left.take()); trace.push_str(" drop(left)"); } }
                                _ => { let f = bump.alloc_slice_fill(*m, 0xEEu8); if f.iter().any(|x| *x != 0xEE) { notes.push(format!("{head}: a fresh allocation reads back wrong after{trace}")); } trace.push_str(&format!(" alloc({m})")); }
                            }
                            if let Some(x) = &left { if &**x != want_l.as_slice() { notes.push(format!("{head}: the left part changed after{trace}: {:?} instead of {:?}", &**x, want_l)); break; } }
                            if let Some(x) = &right { if &**x != want_r.as_slice() { notes.push(format!("{head}: the right part changed after{trace}: {:?} instead of {:?}", &**x, want_r)); break; } }
                            check_guard(&mut notes, &format!("after{trace}"));
                        }
                    }
                }
            }};
        }
        match r.below(6) {
            0 => with!(1, true), 1 => with!(8, true), 2 => with!(4, false), 3 => with!(8, false), 4 => with!(16, false), _ => with!(1, false),
        }
        notes
    }
}
use misc::{misc_probe, producers_probe, traits_probe, flatten_probe, wrappers_probe, sources_probe, independence_probe};
