// Shared by colls.rs (include!): probes for the branches that the source-coverage measurement
// (tools/coverage) showed no harness reached.  Every case announces itself first (`GB …`,
// flushed) so that a process that dies inside it is attributed to the case, and ends with `G …`.
//
//   regrow:  MutBumpVec / MutBumpVecRev whose capacity no longer covers the rest of the chunk
//            (after map_in_place to a smaller element type or into_flattened) grown inside the SAME
//            chunk: the new range overlaps the old buffer (genuine defect 8)
//   zst-iter: into_iter of zero-sized elements consumed from both ends (three iterator types)
//   leak:    Drain / ExtractIf / Splice / IntoIter leaked (mem::forget) after partial consumption,
//            then the owner dropped: an element may be leaked, never dropped twice
//   full:    a full FixedBumpVec: the panicking operations unwind, the try_ twins return Err, nothing changes
//   overflow: typed slice requests whose byte size overflows
mod gaps {
    use bump_scope::alloc::Global;
    use bump_scope::settings::BumpSettings;
    use bump_scope::{Bump, BumpBox, BumpVec, FixedBumpVec, MutBumpVec, MutBumpVecRev};
    use std::cell::RefCell;
    use std::panic::{AssertUnwindSafe, catch_unwind};
    use verif_harness::Rng;

    thread_local! { static GDROPS: RefCell<Vec<u32>> = const { RefCell::new(Vec::new()) }; static ZBORN: RefCell<(u64, u64)> = const { RefCell::new((0, 0)) }; }

    #[derive(Debug, PartialEq)]
    pub struct D(pub u32);
    impl Drop for D { fn drop(&mut self) { GDROPS.with(|d| d.borrow_mut().push(self.0)); } }
    fn drops() -> Vec<u32> { GDROPS.with(|d| std::mem::take(&mut *d.borrow_mut())) }

    /// zero-sized, counts births and drops
    #[derive(Debug)]
    pub struct Z;
    impl Z { fn new() -> Z { ZBORN.with(|z| z.borrow_mut().0 += 1); Z } }
    impl Drop for Z { fn drop(&mut self) { ZBORN.with(|z| z.borrow_mut().1 += 1); } }
    fn zcounts() -> (u64, u64) { ZBORN.with(|z| std::mem::replace(&mut *z.borrow_mut(), (0, 0))) }

    pub struct Case { pub kind: u64, pub a: u64, pub b: u64, pub c: u64, pub d: u64, pub script: Vec<(u64, u64)> }
    impl Case {
        pub fn line(&self) -> String {
            format!("{} {} {} {} {} {}", self.kind, self.a, self.b, self.c, self.d, self.script.iter().map(|(x, y)| format!("{x}:{y}")).collect::<Vec<_>>().join(","))
        }
        pub fn parse(s: &str) -> Option<Case> {
            let f: Vec<&str> = s.split(' ').collect();
            if f.len() < 5 { return None; }
            let n = |i: usize| f[i].parse::<u64>().ok();
            let script = if f.len() > 5 && !f[5].is_empty() { f[5].split(',').filter_map(|p| { let mut q = p.split(':'); Some((q.next()?.parse().ok()?, q.next()?.parse().ok()?)) }).collect() } else { vec![] };
            Some(Case { kind: n(0)?, a: n(1)?, b: n(2)?, c: n(3)?, d: n(4)?, script })
        }
    }

    pub fn gen_case(r: &mut Rng) -> Case {
        let kind = r.below(9);
        Case { kind, a: r.below(64), b: r.below(64), c: r.below(64), d: r.below(8),
               script: (0..r.range(1, 8)).map(|_| (r.below(6), r.range(1, 30))).collect() }
    }

    thread_local! { static KLINES: RefCell<Vec<String>> = const { RefCell::new(Vec::new()) }; }
    /// lines for the driver (capacity after a reshape), produced by the last `run`
    pub fn take_lines() -> Vec<String> { KLINES.with(|k| std::mem::take(&mut *k.borrow_mut())) }
    pub fn kline(s: String) { KLINES.with(|k| k.borrow_mut().push(s)); }

    pub fn run(c: &Case) -> Vec<String> {
        match c.kind {
            0 => regrow(c),
            1 => zst_iter(c),
            2 => leak(c),
            3 => full(c),
            4 => overflow(c),
            5 => refused(c),
            6 => small_paths(c),
            7 => str_parts(c),
            _ => typed_vs_dyn_shrink(c),
        }
    }

    // ------------------------------------------------------------------------------------------
    fn regrow(c: &Case) -> Vec<String> {
        let mut notes = vec![];
        let rest = 3 + c.a as usize;            // bytes left in the chunk when the vector is created
        let shape = c.b % 6;
        macro_rules! with {
            ($ma:literal, $up:literal) => {{
                type B = Bump<Global, BumpSettings<$ma, $up>>;
                let head = format!("regrow: shape={shape} rest={rest} script={:?} MIN_ALIGN={} UP={}", c.script, $ma, $up);
                let mut bump: B = Bump::with_size(512);
                let sentinel = bump.alloc_slice_fill(5, 0x5Au8).as_ptr() as usize;
                let rem = bump.stats().remaining();
                if rem > rest + 16 {
                    use bump_scope::traits::BumpAllocatorTyped;
                    bump.allocate_layout(std::alloc::Layout::from_size_align(rem - rest, 1).unwrap());
                }
                // the drive: reserve_exact / push / extend on the flattened or mapped vector, std Vec in lock-step
                macro_rules! drive {
                    ($w:ident, $want:ident, $rev:expr) => {{
                        let mut ctr = 100u8;
                        for (op, m) in &c.script {
                            let m = *m as usize;
                            match op % 4 {
                                0 => { $w.reserve_exact(1); }
                                1 => { $w.reserve_exact(m); }
                                2 => { ctr = ctr.wrapping_add(1); $w.push(ctr); if $rev { $want.insert(0, ctr) } else { $want.push(ctr) } }
                                _ => { let xs: Vec<u8> = (0..m as u8).map(|i| i ^ 0xC3).collect(); $w.extend_from_slice_copy(&xs);
                                       if $rev { let mut n = xs.clone(); n.extend($want.iter().copied()); $want = n; } else { $want.extend(xs) } }
                            }
                            if $w.as_slice() != $want.as_slice() { notes.push(format!("{head}: contents differ from std::vec::Vec after step ({op},{m}): {:?} instead of {:?}", $w.as_slice(), $want)); break; }
                            if $w.capacity() < $w.len() { notes.push(format!("{head}: capacity: {} < len {}", $w.capacity(), $w.len())); }
                        }
                        let s = $w.into_slice();
                        if &*s != $want.as_slice() { notes.push(format!("{head}: contents differ from std::vec::Vec after into_slice")); }
                    }};
                }
                match shape {
                    0 | 1 => {
                        // MutBumpVec<[u8; 3]> -> into_flattened
                        let k = rest / 3;
                        let mut v: MutBumpVec<[u8; 3], &mut B> = MutBumpVec::with_capacity_in(k.min(2), &mut bump);
                        let fill = if shape == 0 { v.capacity() } else { (c.c as usize) % (v.capacity() + 1) };
                        let mut want: Vec<u8> = vec![];
                        for i in 0..fill { let e = [i as u8, 7, 9]; v.push(e); want.extend(e); }
                        let (l0, c0) = (v.len(), v.capacity());
                        let mut w = v.into_flattened();
                        kline(format!("K fl 3 {c0} {} {l0} {}", w.capacity(), w.len()));
                        drive!(w, want, false);
                    }
                    2 | 3 => {
                        let k = rest / 3;
                        let mut v: MutBumpVecRev<[u8; 3], &mut B> = MutBumpVecRev::with_capacity_in(k.min(2), &mut bump);
                        let fill = if shape == 2 { v.capacity() } else { (c.c as usize) % (v.capacity() + 1) };
                        let mut want: Vec<u8> = vec![];
                        for i in 0..fill { let e = [i as u8, 7, 9]; v.push(e); let mut n = e.to_vec(); n.extend(want.iter().copied()); want = n; }
                        let (l0, c0) = (v.len(), v.capacity());
                        let mut w = v.into_flattened();
                        kline(format!("K fl 3 {c0} {} {l0} {}", w.capacity(), w.len()));
                        drive!(w, want, true);
                    }
                    _ => {
                        // MutBumpVec<u32> -> map_in_place to u8 (capacity in bytes is kept, the tail of the chunk is not covered)
                        let mut v: MutBumpVec<u32, &mut B> = MutBumpVec::with_capacity_in((rest / 4).min(2), &mut bump);
                        let fill = if shape == 4 { v.capacity() } else { (c.c as usize) % (v.capacity() + 1) };
                        let mut want: Vec<u8> = vec![];
                        for i in 0..fill { v.push((i as u32 + 40) & 0xff); want.push((i as u8).wrapping_add(40)); }
                        let c0 = v.capacity();
                        let mut w: MutBumpVec<u8, &mut B> = v.map_in_place(|x| x as u8);
                        kline(format!("K rs 4 1 {c0} {}", w.capacity()));
                        while w.len() < w.capacity() && w.len() < 64 { w.push(0xAB); want.push(0xAB); }
                        drive!(w, want, false);
                    }
                }
                if unsafe { core::slice::from_raw_parts(sentinel as *const u8, 5) } != [0x5Au8; 5] { notes.push(format!("{head}: overwrote a neighbouring allocation")); }
            }};
        }
        match c.d % 6 { 0 => with!(1, true), 1 => with!(1, false), 2 => with!(4, true), 3 => with!(4, false), 4 => with!(16, true), _ => with!(8, false) }
        notes
    }

    // ------------------------------------------------------------------------------------------
    fn zst_iter(c: &Case) -> Vec<String> {
        let mut notes = vec![];
        let n = (c.a % 12) as usize;
        let which = c.b % 4;
        let head = format!("zst-iter: which={which} n={n} script={:?}", c.script);
        zcounts();
        {
            let mut bump: Bump = Bump::new();
            let mut yielded = 0usize;
            macro_rules! consume {
                ($it:ident) => {{
                    for (op, _) in &c.script {
                        let before = $it.len();
                        let got = if op % 2 == 0 { $it.next() } else { $it.next_back() };
                        match got { Some(z) => { yielded += 1; if $it.len() + 1 != before { notes.push(format!("{head}: len() of the iterator went from {before} to {}", $it.len())); } drop(z); }
                                    None => { if before != 0 { notes.push(format!("{head}: the iterator yielded None with {before} elements left")); } } }
                    }
                    let left = $it.len();
                    if yielded + left != n { notes.push(format!("{head}: yielded {yielded} + {left} left != {n}")); }
                }};
            }
            match which {
                0 => { let b: BumpBox<[Z]> = bump.alloc_iter_exact((0..n).map(|_| Z::new())); let mut it = b.into_iter(); consume!(it); }
                1 => { let mut v: BumpVec<Z, &Bump> = BumpVec::new_in(&bump); for _ in 0..n { v.push(Z::new()); } let mut it = v.into_iter(); consume!(it); }
                2 => { let mut v: MutBumpVec<Z, &mut Bump> = MutBumpVec::new_in(&mut bump); for _ in 0..n { v.push(Z::new()); } let mut it = v.into_iter(); consume!(it); }
                _ => { let mut v: FixedBumpVec<Z> = FixedBumpVec::with_capacity_in(n, &bump); for _ in 0..n { v.push(Z::new()); } let mut it = v.into_iter(); consume!(it); }
            }
        }
        let (born, dropped) = zcounts();
        if born != dropped { notes.push(format!("{head}: drops do not match: {born} zero-sized elements came into existence, {dropped} were dropped")); }
        notes
    }

    // ------------------------------------------------------------------------------------------
    fn leak(c: &Case) -> Vec<String> {
        let mut notes = vec![];
        let n = 1 + (c.a % 10) as usize;
        let which = c.b % 5;                      // 0 drain, 1 extract_if, 2 splice, 3 into_iter, 4 extract_if on a boxed slice
        let lo = (c.c as usize) % (n + 1);
        let hi = lo + (c.d as usize) % (n - lo + 1);
        let zst = c.a >= 32;
        let head = format!("leak: which={which} n={n} range={lo}..{hi} zst={} script={:?}", zst as u8, c.script);
        drops(); zcounts();
        if zst {
            {
                let bump: Bump = Bump::new();
                let mut v: BumpVec<Z, &Bump> = BumpVec::new_in(&bump);
                for _ in 0..n { v.push(Z::new()); }
                match which {
                    0 => { let mut d = v.drain(lo..hi); for (op, _) in &c.script { if op % 2 == 0 { drop(d.next()); } else { drop(d.next_back()); } } core::mem::forget(d); }
                    1 | 4 => { let mut k = 0u64; let mut e = v.extract_if(|_| { k += 1; k % 2 == 1 }); for _ in 0..c.script.len().min(3) { drop(e.next()); } core::mem::forget(e); }
                    2 => { let mut s = v.splice(lo..hi, (0..2).map(|_| Z::new())); for _ in 0..c.script.len().min(2) { drop(s.next()); } core::mem::forget(s); }
                    _ => { let mut it = v.into_iter(); for (op, _) in &c.script { if op % 2 == 0 { drop(it.next()); } else { drop(it.next_back()); } } core::mem::forget(it); return notes_zst(head, notes); }
                }
                drop(v);
            }
            return notes_zst(head, notes);
        }
        let mut handed: Vec<u32> = vec![];
        {
            let bump: Bump = Bump::new();
            let mut v: BumpVec<D, &Bump> = BumpVec::new_in(&bump);
            for i in 0..n as u32 { v.push(D(i)); }
            match which {
                0 => { let mut d = v.drain(lo..hi); for (op, _) in &c.script { if let Some(x) = if op % 2 == 0 { d.next() } else { d.next_back() } { handed.push(x.0); } } core::mem::forget(d); drop(v); }
                1 => { let mut k = 0u64; let mut e = v.extract_if(|_| { k += 1; k % 2 == 1 }); for _ in 0..c.script.len().min(3) { if let Some(x) = e.next() { handed.push(x.0); } } core::mem::forget(e); drop(v); }
                2 => { let mut s = v.splice(lo..hi, (0..2u32).map(|i| D(1000 + i))); for _ in 0..c.script.len().min(2) { if let Some(x) = s.next() { handed.push(x.0); } } core::mem::forget(s); drop(v); }
                3 => { let mut it = v.into_iter(); for (op, _) in &c.script { if let Some(x) = if op % 2 == 0 { it.next() } else { it.next_back() } { handed.push(x.0); } } core::mem::forget(it); }
                _ => { let mut b = v.into_boxed_slice(); let mut k = 0u64; let mut e = b.extract_if(|_| { k += 1; k % 3 != 0 }); for _ in 0..c.script.len().min(3) { if let Some(x) = e.next() { handed.push(x.0); } } core::mem::forget(e); drop(b); }
            }
        }
        let mut ds = drops();
        ds.sort_unstable();
        for w in ds.windows(2) { if w[0] == w[1] { notes.push(format!("{head}: element {} accounted 2 times: it was dropped twice although the iterator was only leaked (handed out: {handed:?})", w[0])); break; } }
        for h in &handed { if !ds.contains(h) { notes.push(format!("{head}: element {h} was handed out and dropped by the caller, but no drop was recorded")); } }
        notes
    }
    fn notes_zst(head: String, mut notes: Vec<String>) -> Vec<String> {
        let (born, dropped) = zcounts();
        if dropped > born { notes.push(format!("{head}: drops do not match: {born} zero-sized elements came into existence, {dropped} were dropped (a leaked iterator may leak elements, never drop one twice)")); }
        notes
    }

    // ------------------------------------------------------------------------------------------
    fn full(c: &Case) -> Vec<String> {
        let mut notes = vec![];
        let cap = (c.a % 9) as usize;
        let head = format!("full: cap={cap} op={}", c.b % 8);
        drops();
        {
            let bump: Bump = Bump::new();
            let mut v: FixedBumpVec<D> = FixedBumpVec::with_capacity_in(cap, &bump);
            for i in 0..cap as u32 { v.push(D(i)); }
            let before: Vec<u32> = v.iter().map(|d| d.0).collect();
            let ptr = v.as_ptr() as usize;
            let extra = 1 + (c.c % 3) as usize;
            let r = catch_unwind(AssertUnwindSafe(|| match c.b % 8 {
                0 => { v.push(D(900)); 0 }
                1 => { v.insert(cap / 2, D(901)); 0 }
                2 => { v.extend((0..extra as u32).map(|i| D(910 + i))); 0 }
                3 => { if v.try_push(D(903)).is_err() { 1 } else { 2 } }
                4 => { if v.try_insert(0, D(904)).is_err() { 1 } else { 2 } }
                5 => { v.reserve(extra); 0 }
                6 => { if v.try_reserve(extra).is_err() { 1 } else { 2 } }
                _ => { v.resize_with(cap + extra, || D(905)); 0 }
            }));
            let after: Vec<u32> = v.iter().map(|d| d.0).collect();
            match (c.b % 8, &r) {
                (0 | 1 | 2 | 5 | 7, Ok(_)) => notes.push(format!("{head}: a failed reserve: a panicking operation on a full FixedBumpVec returned normally")),
                (3 | 4 | 6, Ok(1)) | (0 | 1 | 2 | 5 | 7, Err(_)) => {}
                (3 | 4 | 6, Ok(_)) => notes.push(format!("{head}: a failed reserve: a try_ operation on a full FixedBumpVec reported success")),
                (3 | 4 | 6, Err(_)) => notes.push(format!("{head}: the crate panicked in a try_ operation on a full FixedBumpVec")),
                _ => {}
            }
            if (after != before || v.capacity() != cap || v.as_ptr() as usize != ptr) { notes.push(format!("{head}: a failed reserve: a full FixedBumpVec changed (contents {before:?} -> {after:?}, capacity {} -> {})", cap, v.capacity())); }
        }
        let mut ds = drops();
        ds.sort_unstable();
        for w in ds.windows(2) { if w[0] == w[1] { notes.push(format!("{head}: element {} accounted 2 times", w[0])); break; } }
        for i in 0..cap as u32 { if !ds.contains(&i) { notes.push(format!("{head}: element {i} lost: it was never dropped")); break; } }
        notes
    }
    // ------------------------------------------------------------------------------------------
    // every typed try_ entry point and constructor when the base allocator refuses and the current chunk
    // cannot serve the request: Err, nothing changes, and the same call succeeds once memory is back
    thread_local! { static GREFUSE: std::cell::Cell<bool> = const { std::cell::Cell::new(false) }; }
    #[derive(Clone, Default)]
    pub struct Moody3;
    unsafe impl bump_scope::alloc::Allocator for Moody3 {
        fn allocate(&self, layout: std::alloc::Layout) -> Result<std::ptr::NonNull<[u8]>, bump_scope::alloc::AllocError> {
            if GREFUSE.with(|r| r.get()) { return Err(bump_scope::alloc::AllocError); }
            Global.allocate(layout)
        }
        unsafe fn deallocate(&self, ptr: std::ptr::NonNull<u8>, layout: std::alloc::Layout) { unsafe { Global.deallocate(ptr, layout) } }
    }
    use bump_scope::alloc::Allocator as _;

    #[derive(Clone, Copy)] pub struct BigDefault([u64; 100]);
    impl Default for BigDefault { fn default() -> Self { BigDefault([0; 100]) } }

    fn refused(c: &Case) -> Vec<String> {
        let mut notes = vec![];
        let which = c.a % 22;
        let head = format!("refused: entry={which} up={}", c.d % 2);
        macro_rules! with {
            ($up:literal) => {{
                type B = Bump<Moody3, BumpSettings<1, $up>>;
                let mut bump: B = Bump::with_size_in(512, Moody3);
                let sentinel = bump.alloc_slice_fill(6, 0x3Cu8).as_ptr() as usize;
                let big = 600 + (c.b as usize) * 16;          // more than the 512-byte chunk has left
                let text = "x".repeat(big);
                let data = vec![7u32; big / 4];
                let before = (bump.stats().count(), bump.stats().allocated(), bump.stats().remaining());
                macro_rules! call {
                    () => { catch_unwind(AssertUnwindSafe(|| match which {
                        0 => bump.try_alloc([0u64; 100]).is_err(),
                        1 => bump.try_alloc_with(|| [0u64; 100]).is_err(),
                        2 => bump.try_alloc_default::<BigDefault>().is_err(),
                        3 => bump.try_alloc_slice_copy(&data).is_err(),
                        4 => bump.try_alloc_slice_clone(&data).is_err(),
                        5 => bump.try_alloc_slice_fill(big, 1u8).is_err(),
                        6 => bump.try_alloc_slice_fill_with(big, || 1u8).is_err(),
                        7 => bump.try_alloc_str(&text).is_err(),
                        8 => bump.try_alloc_fmt(format_args!("{text}{}", 1)).is_err(),
                        9 => bump.try_alloc_iter(data.iter().copied()).is_err(),
                        10 => bump.try_alloc_iter_exact(data.iter().copied()).is_err(),
                        11 => bump.try_alloc_uninit::<[u64; 100]>().is_err(),
                        12 => bump.try_alloc_uninit_slice::<u32>(big).is_err(),
                        13 => bump.try_alloc_cstr_from_str(&text).is_err(),
                        14 => BumpVec::<u32, &B>::try_with_capacity_in(big, &bump).is_err(),
                        15 => BumpVec::<u32, &B>::try_from_elem_in(5, big, &bump).is_err(),
                        16 => BumpVec::<u32, &B>::try_from_iter_in(data.iter().copied(), &bump).is_err(),
                        17 => FixedBumpVec::<u32>::try_with_capacity_in(big, &bump).is_err(),
                        18 => bump_scope::BumpString::<&B>::try_with_capacity_in(big, &bump).is_err(),
                        19 => bump_scope::BumpString::<&B>::try_from_str_in(&text, &bump).is_err(),
                        20 => bump.try_reserve(big).is_err(),
                        _ => bump.try_alloc_slice_move(data.clone()).is_err(),
                    })) };
                }
                GREFUSE.with(|r| r.set(true));
                let r1 = call!();
                GREFUSE.with(|r| r.set(false));
                match r1 {
                    Err(_) => notes.push(format!("{head}: the crate panicked in a try_ entry point when the base allocator refused")),
                    Ok(false) => notes.push(format!("{head}: a failed reserve: a try_ entry point reported success although the base allocator refused a request that does not fit the chunk")),
                    Ok(true) => {}
                }
                let after = (bump.stats().count(), bump.stats().allocated(), bump.stats().remaining());
                if after != before { notes.push(format!("{head}: a failed reserve: a refused try_ entry point changed the statistics {before:?} -> {after:?}")); }
                if unsafe { core::slice::from_raw_parts(sentinel as *const u8, 6) } != [0x3Cu8; 6] { notes.push(format!("{head}: an older allocation changed")); }
                // memory is back: the same request goes through
                match call!() {
                    Ok(false) => {}
                    other => notes.push(format!("{head}: a failed reserve: the arena does not keep working after a refusal ({other:?})")),
                }
            }};
        }
        if c.d % 2 == 0 { with!(true) } else { with!(false) }
        notes
    }

    // ------------------------------------------------------------------------------------------
    // short-cut branches: zero-sized values through alloc_try_with(_mut) / alloc_uninit never touch the arena;
    // the `args.as_str()` fast path of the formatting helpers gives what the general path gives
    fn small_paths(c: &Case) -> Vec<String> {
        let mut notes = vec![];
        let head = format!("small-paths: k={}", c.a % 8);
        let mut bump: Bump = Bump::new();
        bump.alloc(1u8);
        let before = (bump.stats().allocated(), bump.stats().count());
        let pos = |b: &Bump| b.stats().current_chunk().map(|c| c.bump_position().as_ptr() as usize);
        let p0 = pos(&bump);
        match c.a % 8 {
            0 => { let r: Result<BumpBox<()>, u8> = bump.alloc_try_with(|| Ok(())); if r.is_err() { notes.push(format!("{head}: contents differ from std::vec::Vec: alloc_try_with(Ok(())) gave Err")); } }
            1 => { let r: Result<BumpBox<()>, u8> = bump.alloc_try_with(|| Err(7)); if !matches!(r, Err(7)) { notes.push(format!("{head}: contents differ from std::vec::Vec: alloc_try_with(Err(7)) lost the error")); } }
            2 => { let r: Result<BumpBox<()>, u8> = bump.alloc_try_with_mut(|| Ok(())); if r.is_err() { notes.push(format!("{head}: contents differ from std::vec::Vec: alloc_try_with_mut(Ok(())) gave Err")); } }
            3 => { let r: Result<BumpBox<()>, u8> = bump.alloc_try_with_mut(|| Err(9)); if !matches!(r, Err(9)) { notes.push(format!("{head}: contents differ from std::vec::Vec: alloc_try_with_mut(Err(9)) lost the error")); } }
            4 => { let b = bump.alloc_uninit::<()>(); let _ = b.init(()); let b2 = bump.try_alloc_uninit::<[u64; 0]>(); if b2.is_err() { notes.push(format!("{head}: a failed reserve: try_alloc_uninit of a zero-sized type failed")); } }
            _ => {}
        }
        if c.a % 8 <= 4 && ((bump.stats().allocated(), bump.stats().count()) != before || pos(&bump) != p0) {
            notes.push(format!("{head}: helpers: position moved: a zero-sized value changed the arena ({before:?} -> ({}, {}))", bump.stats().allocated(), bump.stats().count()));
        }
        if c.a % 8 >= 5 {
            let lit = ["", "a", "plain literal \u{e9}\u{4e16}"][(c.b % 3) as usize];
            let n = c.c;
            let a: &str = bump.alloc_fmt(format_args!("plain literal \u{e9}\u{4e16}")).into_ref();
            let b: &str = bump.alloc_fmt(format_args!("{}{n}", lit)).into_ref();
            if a != "plain literal \u{e9}\u{4e16}" || b != format!("{lit}{n}") { notes.push(format!("{head}: contents differ from std::vec::Vec: alloc_fmt gave {a:?} / {b:?}")); }
            let (ap, al) = (a.as_ptr() as usize, a.len());
            let a2 = bump.alloc_cstr_fmt(format_args!("c literal"));
            if a2.to_bytes() != b"c literal" { notes.push(format!("{head}: contents differ from std::vec::Vec: alloc_cstr_fmt(literal) gave {:?}", a2)); }
            let a3: String = bump.alloc_fmt_mut(format_args!("mut literal")).into_ref().to_string();
            let a4 = bump.alloc_cstr_fmt_mut(format_args!("mut c\0tail")).to_bytes().to_vec();
            if a3 != "mut literal" || a4 != b"mut c" { notes.push(format!("{head}: contents differ from std::vec::Vec: the *_mut formatting helpers gave {a3:?} / {a4:?}")); }
            if unsafe { core::slice::from_raw_parts(ap as *const u8, al) } != "plain literal \u{e9}\u{4e16}".as_bytes() { notes.push(format!("{head}: an older allocation changed")); }
        }
        // C strings from text with several NULs: the text up to the FIRST one, and the position advances by exactly that
        // much plus the terminator (MIN_ALIGN 1), in both directions, for the finalised MutBumpString and the helper
        {
            let texts = ["ab\0cd\0ef", "\0\0", "xyz", "q\0", "long prefix \u{4e16}\0\0tail\0"];
            let t = texts[(c.d as usize) % texts.len()];
            let want: Vec<u8> = t.bytes().take_while(|b| *b != 0).collect();
            macro_rules! dir {
                ($up:literal) => {{
                    let mut b: Bump<Global, BumpSettings<1, $up>> = Bump::with_size(512);
                    b.alloc(3u8);
                    let a0 = b.stats().allocated();
                    let got: Vec<u8> = if c.b % 2 == 0 {
                        let mut s = bump_scope::MutBumpString::new_in(&mut b); s.push_str(t); s.into_cstr().to_bytes().to_vec()
                    } else { b.alloc_cstr_fmt_mut(format_args!("{}", t)).to_bytes().to_vec() };
                    let adv = b.stats().allocated() - a0;
                    if got != want { notes.push(format!("{head}: contents differ from std::vec::Vec: C string of {t:?} is {got:?} (UP={})", $up)); }
                    if adv != want.len() + 1 { notes.push(format!("{head}: helpers: position moved by {adv} bytes for a C string of {} bytes plus its terminator (text {t:?}, UP={})", want.len(), $up)); }
                }};
            }
            dir!(true); dir!(false);
        }
        notes
    }

    // ------------------------------------------------------------------------------------------
    // C16 names BumpBox<str>::split_off and BumpString::split_off among the operations that divide exactly: every range on
    // character boundaries (prefix, suffix, interior with a shorter or a longer head, empty, full) of texts mixing 1-4 byte
    // characters; the split-off part is the range, the rest is what std's drain leaves, both stay independent
    fn str_parts(c: &Case) -> Vec<String> {
        let mut notes = vec![];
        let alphabet = ['a', 'b', 'c', 'd', '\u{e9}', '\u{4e16}', '\u{1F600}', 'z', 'y', '\u{df}'];
        let n = 1 + (c.a % 12) as usize;
        let text: String = (0..n).map(|i| alphabet[((c.b as usize) * 7 + i * 3 + (c.c as usize)) % alphabet.len()]).collect();
        let bounds: Vec<usize> = text.char_indices().map(|(i, _)| i).chain(std::iter::once(text.len())).collect();
        let ia = (c.c as usize) % bounds.len();
        let ib = ia + (c.d as usize + c.a as usize) % (bounds.len() - ia);
        let (a, b) = (bounds[ia], bounds[ib]);
        let which = c.b % 3;
        let head = format!("parts: str split_off which={which} text={text:?} range={a}..{b}");
        let mut std_rest = text.clone();
        let std_off: String = std_rest.drain(a..b).collect();
        let bump: Bump = Bump::new();
        let (off, rest): (String, String) = match which {
            0 => { let mut bx = bump.alloc_str(&text); let o = bx.split_off(a..b); let r = (o.to_string(), bx.to_string()); r }
            1 => { let mut s = bump_scope::BumpString::from_str_in(&text, &bump); let mut o = s.split_off(a..b);
                   // the parts are independent: growing one does not touch the other
                   let before = s.to_string(); o.push_str("++"); if s.as_str() != before { notes.push(format!("{head}: pushing onto the split-off part changed the remaining part")); }
                   o.truncate(o.len() - 2); (o.to_string(), s.to_string()) }
            _ => { let mut s = bump_scope::FixedBumpString::with_capacity_in(text.len() + 3, &bump); s.push_str(&text); let o = s.split_off(a..b); (o.to_string(), s.to_string()) }
        };
        if off != std_off { notes.push(format!("{head}: the split_off part is {off:?}, the range is {std_off:?}")); }
        if rest != std_rest { notes.push(format!("{head}: split_off changed the remaining part to {rest:?} instead of {std_rest:?}")); }
        notes
    }

    // ------------------------------------------------------------------------------------------
    // C17 / C13: the typed shrink_slice and the Allocator::shrink reached through a trait object have their own copies of
    // the arithmetic; from equal states they must end at the same offset with the same allocated byte count, keep the
    // contents, and leave the position a multiple of MIN_ALIGN (element alignments below and above MIN_ALIGN, both directions)
    fn typed_vs_dyn_shrink(c: &Case) -> Vec<String> {
        use bump_scope::traits::{BumpAllocatorCore, BumpAllocatorTyped};
        let mut notes = vec![];
        let old_len = 1 + (c.a % 40) as usize;
        let new_len = (c.b as usize) % (old_len + 1);
        let pre = (c.c % 9) as usize;
        macro_rules! with {
            ($ma:literal, $up:literal, $t:ty) => {{
                type B = Bump<Global, BumpSettings<$ma, $up>>;
                let head = format!("typed-vs-dyn shrink: elem={} old_len={old_len} new_len={new_len} pre={pre} MIN_ALIGN={} UP={}", core::any::type_name::<$t>(), $ma, $up);
                let (b1, b2): (B, B) = (Bump::with_size(1024), Bump::with_size(1024));
                let run = |b: &B, typed: bool| -> (usize, usize, Vec<u8>, usize) {
                    if pre > 0 { b.alloc_slice_fill(pre, 0xEEu8); }
                    let es = core::mem::size_of::<$t>();
                    let p: core::ptr::NonNull<$t> = b.allocate_slice::<$t>(old_len);
                    unsafe { core::ptr::write_bytes(p.as_ptr() as *mut u8, 0, old_len * es); for i in 0..old_len * es { *(p.as_ptr() as *mut u8).add(i) = (i * 7 + 3) as u8; } }
                    let np: usize = unsafe {
                        if typed { b.shrink_slice(p, old_len, new_len).map_or(p.as_ptr() as usize, |q| q.as_ptr() as usize) }
                        else {
                            let d: &dyn BumpAllocatorCore = b;
                            let (ol, nl) = (core::alloc::Layout::array::<$t>(old_len).unwrap(), core::alloc::Layout::array::<$t>(new_len).unwrap());
                            bump_scope::alloc::Allocator::shrink(&d, p.cast(), ol, nl).map_or(p.as_ptr() as usize, |q| q.as_ptr() as *mut u8 as usize)
                        }
                    };
                    let st = b.stats();
                    let cs = st.current_chunk().unwrap();
                    let bytes = unsafe { core::slice::from_raw_parts(np as *const u8, new_len * es) }.to_vec();
                    (np - cs.chunk_start().as_ptr() as usize, st.allocated(), bytes, cs.bump_position().as_ptr() as usize % $ma)
                };
                let (o1, a1, c1, m1) = run(&b1, true);
                let (o2, a2, c2, m2) = run(&b2, false);
                let want: Vec<u8> = (0..new_len * core::mem::size_of::<$t>()).map(|i| (i * 7 + 3) as u8).collect();
                if (o1, a1) != (o2, a2) { notes.push(format!("{head}: returned values differ: the typed shrink_slice ends at offset {o1} with {a1} bytes allocated, Allocator::shrink through a trait object at offset {o2} with {a2}")); }
                if c1 != want || c2 != want { notes.push(format!("{head}: contents differ from std::vec::Vec after the shrink (typed ok: {}, dyn ok: {})", c1 == want, c2 == want)); }
                if m1 != 0 || m2 != 0 { notes.push(format!("{head}: returned values differ: the position is not a multiple of MIN_ALIGN after the shrink (typed {m1}, dyn {m2})")); }
            }};
        }
        match c.d % 8 { 0 => with!(8, false, u8), 1 => with!(8, true, u8), 2 => with!(16, false, u16), 3 => with!(4, false, [u8; 3]),
                        4 => with!(1, false, u32), 5 => with!(2, true, u64), 6 => with!(16, false, u8), _ => with!(4, true, u16) }
        notes
    }

    // ------------------------------------------------------------------------------------------
    fn overflow(c: &Case) -> Vec<String> {
        let mut notes = vec![];
        let head = format!("overflow: op={} k={}", c.b % 8, c.a);
        let mut bump: Bump = Bump::new();
        let sentinel: &mut [u8] = bump.alloc_slice_fill(4, 0x77u8).into_mut();
        let sp = sentinel.as_ptr() as usize;
        let before = (bump.stats().allocated(), bump.stats().count());
        let huge = usize::MAX / 8 + 1 + c.a as usize;         // * 8 overflows usize / exceeds isize::MAX
        let r = catch_unwind(AssertUnwindSafe(|| match c.b % 8 {
            0 => bump.try_alloc_uninit_slice::<u64>(huge).is_err(),
            1 => bump.try_alloc_slice_fill::<u64>(huge, 1).is_err(),
            2 => bump.try_alloc_slice_fill_with::<u64>(huge, || 1).is_err(),
            3 => BumpVec::<u64, &Bump>::try_with_capacity_in(huge, &bump).is_err(),
            4 => FixedBumpVec::<u64>::try_with_capacity_in(huge, &bump).is_err(),
            5 => bump.try_reserve(usize::MAX - c.a as usize).is_err(),
            6 => bump.try_alloc_uninit_slice::<[u8; 3]>(usize::MAX / 3 + 1 + c.a as usize).is_err(),
            _ => bump_scope::Bump::<Global>::try_with_capacity(std::alloc::Layout::from_size_align(isize::MAX as usize - 15 - (c.a as usize & !15), 16).unwrap()).is_err(),
        }));
        match r {
            Err(_) => notes.push(format!("{head}: the crate panicked in a try_ / non-failing operation whose size overflows")),
            Ok(false) => notes.push(format!("{head}: overflow: a request whose size overflows reported success")),
            Ok(true) => {}
        }
        let after = (bump.stats().allocated(), bump.stats().count());
        if after != before { notes.push(format!("{head}: overflow: a failed request changed the statistics {before:?} -> {after:?}")); }
        if unsafe { core::slice::from_raw_parts(sp as *const u8, 4) } != [0x77u8; 4] { notes.push(format!("{head}: overflow: an older allocation changed")); }
        {
            let mut v: MutBumpVec<u64, &mut Bump> = MutBumpVec::new_in(&mut bump);
            v.push(5);
            let r2 = catch_unwind(AssertUnwindSafe(|| v.try_reserve(huge).is_err()));
            if !matches!(r2, Ok(true)) { notes.push(format!("{head}: overflow: MutBumpVec::try_reserve of an overflowing size gave {r2:?}")); }
            if v.as_slice() != [5] { notes.push(format!("{head}: a failed reserve: MutBumpVec changed after an overflowing try_reserve")); }
        }
        notes
    }
}
