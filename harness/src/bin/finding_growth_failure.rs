//! Demonstration of the genuine defect recorded in /verif/known_findings.json
//! (C07/C15: a failed MutBumpVec growth leaves the arena pointing at another chunk than the vector).
//! Prints "DEFECT …" and exits 1 when the defect is present, "OK" and exits 0 otherwise.
use bump_scope::alloc::{AllocError, Allocator, Global};
use bump_scope::traits::BumpAllocatorTyped;
use bump_scope::{Bump, MutBumpVec};
use std::alloc::Layout;
use std::cell::Cell;
use std::ptr::NonNull;

#[derive(Clone)]
struct Limited<'a> { left: &'a Cell<usize> }
unsafe impl Allocator for Limited<'_> {
    fn allocate(&self, layout: Layout) -> Result<NonNull<[u8]>, AllocError> {
        if self.left.get() < layout.size() { return Err(AllocError); }
        self.left.set(self.left.get() - layout.size());
        Global.allocate(layout)
    }
    unsafe fn deallocate(&self, ptr: NonNull<u8>, layout: Layout) { unsafe { Global.deallocate(ptr, layout) } }
}

fn main() {
    let left = Cell::new(usize::MAX);
    let mut bump: Bump<Limited> = Bump::new_in(Limited { left: &left });
    // two chunks, then back to the first one
    let cp = bump.checkpoint();
    bump.allocate_layout(Layout::from_size_align(2000, 1).unwrap());
    unsafe { bump.reset_to(cp) };
    assert_eq!(bump.stats().count(), 2);
    let first = bump.stats().current_chunk().unwrap();
    let (first_start, first_end) = (first.chunk_start().as_ptr() as usize, first.chunk_end().as_ptr() as usize);
    let survivor_ptr = bump.alloc_slice_copy(&[0xAAu8; 16]).into_raw().as_ptr() as *const u8;

    let mut v: MutBumpVec<u8, &mut Bump<Limited>> = MutBumpVec::new_in(&mut bump);
    v.try_extend_from_slice_copy(&[1, 2, 3, 4]).unwrap();
    let vec_ptr = v.as_ptr() as usize;
    assert!(first_start <= vec_ptr && vec_ptr < first_end, "the vector lives in the first chunk");
    // the base allocator refuses any further memory: this growth must fail and change nothing
    left.set(0);
    assert!(v.try_reserve(1 << 20).is_err());
    assert_eq!(&*v, &[1, 2, 3, 4]);
    let r = std::panic::catch_unwind(std::panic::AssertUnwindSafe(move || { let s = v.into_slice(); s.as_ptr() as usize }));
    let Ok(slice_ptr) = r else { println!("DEFECT into_slice panicked after a failed growth"); std::process::exit(1) };
    // the position of the current chunk must lie inside the current chunk
    let cur = bump.stats().current_chunk().unwrap();
    let (s, e, p) = (cur.chunk_start().as_ptr() as usize, cur.chunk_end().as_ptr() as usize, cur.bump_position().as_ptr() as usize);
    if !(s <= p && p <= e) {
        println!("DEFECT after a failed growth and into_slice the current chunk [{s:#x},{e:#x}) has its bump position at {p:#x} (the slice is at {slice_ptr:#x}, in the first chunk [{first_start:#x},{first_end:#x}))");
        std::process::exit(1);
    }
    let _ = survivor_ptr;
    println!("OK");
}
