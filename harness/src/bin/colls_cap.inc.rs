// Shared by colls.rs (include!): capacity histories of BumpVec<T>, FixedBumpVec<T>, MutBumpVec<T>
// and MutBumpVecRev<T> for the Coq model coq/VecCap.v.  One `V` line per history: element size / alignment, the initial
// with_capacity, then per operation: name, argument, whether the base allocator was refusing,
// whether the try_ method returned Ok, the length and the capacity afterwards, and whether the
// buffer address changed.  Element types cover the three classes of min_non_zero_cap.
mod capx {
    use bump_scope::alloc::{AllocError, Allocator, Global};
    use bump_scope::{Bump, BumpVec, FixedBumpVec, MutBumpVec, MutBumpVecRev};
    use bump_scope::settings::BumpSettings;
    type BumpA = Bump<Moody2, BumpSettings<1, true>>;
    type BumpB = Bump<Moody2, BumpSettings<8, false>>;
    use std::alloc::Layout;
    use std::cell::Cell;
    use std::ptr::NonNull;
    use verif_harness::Rng;

    thread_local! { static REFUSE: Cell<bool> = const { Cell::new(false) }; }
    // the history so far and the operation in flight, for the report when the crate panics
    thread_local! { static PROGRESS: std::cell::RefCell<(String, String)> = std::cell::RefCell::new((String::new(), String::new())); }

    #[derive(Clone, Default)]
    pub struct Moody2;
    unsafe impl Allocator for Moody2 {
        fn allocate(&self, layout: Layout) -> Result<NonNull<[u8]>, AllocError> {
            if REFUSE.with(|r| r.get()) { return Err(AllocError); }
            Global.allocate(layout)
        }
        unsafe fn deallocate(&self, ptr: NonNull<u8>, layout: Layout) { unsafe { Global.deallocate(ptr, layout) } }
    }

    // BumpString / MutBumpString driven through the vector interface of the histories (kinds bs / ms, byte elements):
    // a string is its vector of bytes, the capacity bookkeeping is the same code (`generic_reserve` of the inner vector);
    // the element pushed is always the ASCII letter 'Z' (= 0x5A, the fill byte of the histories)
    pub struct SW<S>(pub S);
    impl<S: StrOps> SW<S> {
        pub fn len(&self) -> usize { self.0.s_len() }
        pub fn capacity(&self) -> usize { self.0.s_capacity() }
        pub fn as_ptr(&self) -> *const u8 { self.0.s_ptr() }
        pub fn try_reserve(&mut self, n: usize) -> Result<(), AllocError> { self.0.s_try_reserve(n) }
        pub fn try_reserve_exact(&mut self, n: usize) -> Result<(), AllocError> { self.0.s_try_reserve_exact(n) }
        pub fn reserve(&mut self, n: usize) { self.0.s_reserve(n) }
        pub fn reserve_exact(&mut self, n: usize) { self.0.s_reserve_exact(n) }
        pub fn try_push<T>(&mut self, _x: T) -> Result<(), AllocError> { self.0.s_try_push() }
        pub fn try_extend_from_slice_copy<T>(&mut self, xs: &[T]) -> Result<(), AllocError> { self.0.s_try_push_str(&"Z".repeat(xs.len())) }
        pub fn pop(&mut self) { self.0.s_pop() }
        pub fn truncate(&mut self, k: usize) { self.0.s_truncate(k) }
        pub fn shrink_to_fit(&mut self) { self.0.s_shrink_to_fit() }
        pub fn shrink_to(&mut self, m: usize) { self.0.s_shrink_to(m) }
    }
    pub trait StrOps {
        fn s_len(&self) -> usize; fn s_capacity(&self) -> usize; fn s_ptr(&self) -> *const u8;
        fn s_try_reserve(&mut self, n: usize) -> Result<(), AllocError>; fn s_try_reserve_exact(&mut self, n: usize) -> Result<(), AllocError>;
        fn s_reserve(&mut self, n: usize); fn s_reserve_exact(&mut self, n: usize);
        fn s_try_push(&mut self) -> Result<(), AllocError>; fn s_try_push_str(&mut self, s: &str) -> Result<(), AllocError>;
        fn s_pop(&mut self); fn s_truncate(&mut self, k: usize); fn s_shrink_to_fit(&mut self); fn s_shrink_to(&mut self, m: usize);
    }
    macro_rules! str_ops {
        ($ty:ty, [$($g:tt)*], $shrink:expr) => {
            impl<$($g)*> StrOps for $ty {
                fn s_len(&self) -> usize { self.len() } fn s_capacity(&self) -> usize { self.capacity() } fn s_ptr(&self) -> *const u8 { self.as_ptr() }
                fn s_try_reserve(&mut self, n: usize) -> Result<(), AllocError> { self.try_reserve(n) }
                fn s_try_reserve_exact(&mut self, n: usize) -> Result<(), AllocError> { self.try_reserve_exact(n) }
                fn s_reserve(&mut self, n: usize) { self.reserve(n) } fn s_reserve_exact(&mut self, n: usize) { self.reserve_exact(n) }
                fn s_try_push(&mut self) -> Result<(), AllocError> { self.try_push('Z') }
                fn s_try_push_str(&mut self, s: &str) -> Result<(), AllocError> { self.try_push_str(s) }
                fn s_pop(&mut self) { self.pop(); } fn s_truncate(&mut self, k: usize) { if k <= self.len() { self.truncate(k) } }
                fn s_shrink_to_fit(&mut self) { $shrink(self, None) } fn s_shrink_to(&mut self, m: usize) { $shrink(self, Some(m)) }
            }
        };
    }
    str_ops!(bump_scope::BumpString<&'b B>, ['b, B: bump_scope::traits::BumpAllocatorTyped], |s: &mut bump_scope::BumpString<&'b B>, m: Option<usize>| match m { None => s.shrink_to_fit(), Some(m) => s.shrink_to(m) });
    str_ops!(bump_scope::MutBumpString<&'b mut B>, ['b, B: bump_scope::traits::MutBumpAllocatorTyped], |_s: &mut bump_scope::MutBumpString<&'b mut B>, _m: Option<usize>| ());

    #[derive(Clone, Copy, Debug)]
    pub enum VOp { Reserve(usize), ReserveExact(usize), Push, Extend(usize), Pop, Truncate(usize), ShrinkToFit, ShrinkTo(usize) }

    fn gen_ops(r: &mut Rng, kind: u8) -> Vec<(VOp, bool)> {
        let fixed = kind == 1;
        let n = r.range(1, 40) as usize;
        let huge = |r: &mut Rng| -> usize { match r.below(4) { 0 => usize::MAX, 1 => usize::MAX - r.below(40) as usize, 2 => (isize::MAX as usize) - r.below(3000) as usize, _ => (1usize << 62) + r.below(1000) as usize } };
        (0..n).map(|_| {
            let refuse = r.coin(1, 5);
            let op = loop {
                let op = match r.below(20) {
                    0..=5 => VOp::Push,
                    6..=8 => VOp::Extend(match r.below(4) { 0 => 0, 1 => r.range(1, 4) as usize, _ => r.range(1, 30) as usize }),
                    9..=11 => VOp::Reserve(match r.below(6) { 0 => 0, 1 => huge(r), 2 => r.range(1, 4) as usize, _ => r.range(1, 60) as usize }),
                    12..=13 => VOp::ReserveExact(match r.below(6) { 0 => 0, 1 => huge(r), _ => r.range(1, 60) as usize }),
                    14..=15 => VOp::Pop,
                    16 => VOp::Truncate(r.below(30) as usize),
                    17 => VOp::ShrinkToFit,
                    _ => VOp::ShrinkTo(r.below(40) as usize),
                };
                if fixed && matches!(op, VOp::Reserve(_) | VOp::ReserveExact(_) | VOp::ShrinkToFit | VOp::ShrinkTo(_)) { continue; }
                if (kind == 2 || kind == 3 || kind == 5) && matches!(op, VOp::ShrinkToFit | VOp::ShrinkTo(_)) { continue; }
                break op;
            };
            (op, refuse)
        }).collect()
    }

    fn name(op: &VOp) -> (&'static str, usize) {
        match *op { VOp::Reserve(n) => ("reserve", n), VOp::ReserveExact(n) => ("reserve_exact", n), VOp::Push => ("push", 0), VOp::Extend(n) => ("extend", n),
                    VOp::Pop => ("pop", 0), VOp::Truncate(k) => ("truncate", k), VOp::ShrinkToFit => ("shrink_to_fit", 0), VOp::ShrinkTo(m) => ("shrink_to", m) }
    }

    macro_rules! history {
        ($t:ty, $bt:ty, $cfg:expr, $kind:expr, $init:expr, $ops:expr, $chunk:expr, $other:expr) => {{
            let kind: u8 = $kind;
            let fixed = kind == 1;
            let rev = kind == 3;
            let mut bump: $bt = Bump::with_size_in($chunk, Moody2);
            let cfg_: u8 = $cfg;
            let mut line = format!("V {} {} {} {} {} {}", ["bv", "fv", "mv", "rv", "bs", "ms"][kind as usize], core::mem::size_of::<$t>(), core::mem::align_of::<$t>(), $init, $chunk, $other as u8);
            let mut notes: Vec<String> = vec![];
            // element value: every byte 0x5A (all element types here are plain integers / arrays of them)
            let zero: $t = unsafe { let mut m = core::mem::MaybeUninit::<$t>::uninit(); core::ptr::write_bytes(m.as_mut_ptr(), 0x5A, 1); m.assume_init() };
            // foreign allocations made while the vector lives: one byte 0xA5 each, must stay intact and
            // must never lie inside the capacity the vector reports
            let mut foreign: Vec<usize> = vec![];
            macro_rules! drive {
                ($v:ident, $foreign:expr) => {{
                    // the capacity the vector starts with (MutBumpVec: the rest of the chunk)
                    line.push_str(&format!(" {} {}", $v.capacity(), cfg_));
                    for (op, refuse) in $ops.iter() {
                        // sometimes something else is allocated in between: the vector is then not the last allocation
                        if $other && matches!(op, VOp::Push | VOp::ShrinkToFit | VOp::ShrinkTo(_) | VOp::Extend(_)) { if let Some(a) = $foreign { foreign.push(a); } }
                        PROGRESS.with(|p| *p.borrow_mut() = (line.clone(), format!("{:?}", op)));
                        // the fixed end of the buffer: its start, or for the rev vector its end
                        let anchor = |p: usize, len: usize| if rev { p + len * core::mem::size_of::<$t>() } else { p };
                        let before_ptr = anchor($v.as_ptr() as usize, $v.len());
                        let (len0, cap0) = ($v.len(), $v.capacity());
                        let before: Vec<u8> = unsafe { core::slice::from_raw_parts($v.as_ptr() as *const u8, $v.len() * core::mem::size_of::<$t>()) }.to_vec();
                        REFUSE.with(|r| r.set(*refuse));
                        let (ok, kept) = drive_op!($v, op);
                        REFUSE.with(|r| r.set(false));
                        let moved = (anchor($v.as_ptr() as usize, $v.len()) != before_ptr) as u8;
                        let (nm, arg) = name(op);
                        line.push_str(&format!(";{nm},{arg},{},{},{},{},{moved}", *refuse as u8, ok as u8, $v.len(), $v.capacity()));
                        // contents: the first `kept` elements are the old ones
                        let es = core::mem::size_of::<$t>();
                        let all: &[u8] = unsafe { core::slice::from_raw_parts($v.as_ptr() as *const u8, $v.len() * es) };
                        // the rev vector keeps its old elements at the back (truncate / pop remove from the front)
                        let same = if rev { all[all.len() - kept * es..] == before[before.len() - kept * es..] } else { all[..kept * es] == before[..kept * es] };
                        if !same { notes.push(format!("capacity: {nm}({arg}) changed the contents of the vector")); }
                        if !ok && $v.len() * core::mem::size_of::<$t>() != before.len() { notes.push(format!("capacity: a failed {nm}({arg}) changed the length")); }
                        // the clauses of C08 / C07 themselves, on the implementation
                        let (len1, cap1) = ($v.len(), $v.capacity());
                        if cap1 < len1 { notes.push(format!("capacity: capacity {cap1} below length {len1} after {nm}({arg})")); }
                        if !ok && (len1, cap1) != (len0, cap0) { notes.push(format!("capacity: a failed {nm}({arg}) changed length or capacity ({len0},{cap0}) -> ({len1},{cap1})")); }
                        let needs = match *op { VOp::Reserve(n) | VOp::ReserveExact(n) | VOp::Extend(n) => Some(n), VOp::Push => Some(1), _ => None };
                        if let Some(n) = needs {
                            if n <= cap0 - len0 {
                                if !ok { notes.push(format!("capacity: {nm}({arg}) failed although {} slots were free", cap0 - len0)); }
                                if cap1 != cap0 || moved == 1 { notes.push(format!("capacity: {nm}({arg}) reallocated although the capacity sufficed ({cap0} -> {cap1}, moved {moved})")); }
                            } else if fixed && ok { notes.push(format!("capacity: a fixed vector accepted {nm}({arg}) with only {} free slots", cap0 - len0)); }
                            if ok && matches!(op, VOp::Reserve(_) | VOp::ReserveExact(_)) && cap1 - len1 < n { notes.push(format!("capacity: {nm}({arg}) returned Ok with only {} free slots", cap1 - len1)); }
                        }
                        if fixed && (cap1 != cap0 || moved == 1) { notes.push(format!("capacity: a fixed vector changed its buffer on {nm}({arg})")); }
                        if let VOp::ShrinkTo(m) = *op { if cap1 < m.min(cap0) || cap1 > cap0 { notes.push(format!("capacity: shrink_to({m}) took the capacity from {cap0} to {cap1}")); } }
                        if cap1 > 0 {
                            let lo = if rev { anchor($v.as_ptr() as usize, $v.len()) - cap1 * es } else { $v.as_ptr() as usize };
                            let hi = lo + cap1 * es;
                            for a in &foreign {
                                if lo <= *a && *a < hi { notes.push(format!("capacity: after {nm}({arg}) the reported capacity [{lo:#x}, {hi:#x}) covers a neighbouring allocation at {a:#x}")); }
                                if unsafe { *(*a as *const u8) } != 0xA5 { notes.push(format!("capacity: {nm}({arg}) overwrote a neighbouring allocation at {a:#x}")); }
                            }
                        }
                        if matches!(op, VOp::ShrinkToFit) && cap1 > cap0 { notes.push(format!("capacity: shrink_to_fit raised the capacity from {cap0} to {cap1}")); }
                    }
                }};
            }
            if kind == 4 || kind == 5 {
                // strings through the vector interface (meaningful for byte elements only; histories use u8)
                macro_rules! drive_op { ($vv:ident, $op:expr) => {{ match *$op {
                    VOp::Reserve(n) if n >= usize::MAX - 64 && n % 2 == 1 => { let l = $vv.len(); (std::panic::catch_unwind(std::panic::AssertUnwindSafe(|| $vv.reserve(n))).is_ok(), l) }
                    VOp::ReserveExact(n) if n >= usize::MAX - 64 && n % 2 == 1 => { let l = $vv.len(); (std::panic::catch_unwind(std::panic::AssertUnwindSafe(|| $vv.reserve_exact(n))).is_ok(), l) }
                    VOp::Reserve(n) => { let l = $vv.len(); ($vv.try_reserve(n).is_ok(), l) }
                    VOp::ReserveExact(n) => { let l = $vv.len(); ($vv.try_reserve_exact(n).is_ok(), l) }
                    VOp::Push => { let l = $vv.len(); ($vv.try_push(zero).is_ok(), l) }
                    VOp::Extend(n) => { let l = $vv.len(); ($vv.try_extend_from_slice_copy(&vec![zero; n]).is_ok(), l) }
                    VOp::Pop => { $vv.pop(); (true, $vv.len()) }
                    VOp::Truncate(k) => { $vv.truncate(k); (true, $vv.len()) }
                    VOp::ShrinkToFit => { $vv.shrink_to_fit(); (true, $vv.len()) }
                    VOp::ShrinkTo(m) => { $vv.shrink_to(m); (true, $vv.len()) }
                } }}; }
                if kind == 4 { let mut v = SW(bump_scope::BumpString::with_capacity_in($init, &bump)); drive!(v, Some(bump.alloc(0xA5u8).into_raw().as_ptr() as usize)); }
                else { let mut v = SW(bump_scope::MutBumpString::with_capacity_in($init, &mut bump)); drive!(v, None::<usize>); }
            } else if kind >= 2 {
                macro_rules! drive_op { ($vv:ident, $op:expr) => {{ match *$op {
                    // absurd sizes: every second one goes through the PANICKING method inside catch_unwind (a capacity
                    // overflow unwinds; the vector is used again afterwards) — the same failure, the same atomicity
                    VOp::Reserve(n) if n >= usize::MAX - 64 && n % 2 == 1 => { let l = $vv.len(); (std::panic::catch_unwind(std::panic::AssertUnwindSafe(|| $vv.reserve(n))).is_ok(), l) }
                    VOp::ReserveExact(n) if n >= usize::MAX - 64 && n % 2 == 1 => { let l = $vv.len(); (std::panic::catch_unwind(std::panic::AssertUnwindSafe(|| $vv.reserve_exact(n))).is_ok(), l) }
                    VOp::Reserve(n) => { let l = $vv.len(); ($vv.try_reserve(n).is_ok(), l) }
                    VOp::ReserveExact(n) => { let l = $vv.len(); ($vv.try_reserve_exact(n).is_ok(), l) }
                    VOp::Push => { let l = $vv.len(); ($vv.try_push(zero).is_ok(), l) }
                    VOp::Extend(n) => { let l = $vv.len(); ($vv.try_extend_from_slice_copy(&vec![zero; n]).is_ok(), l) }
                    VOp::Pop => { $vv.pop(); (true, $vv.len()) }
                    VOp::Truncate(k) => { $vv.truncate(k); (true, $vv.len()) }
                    _ => (true, $vv.len()),
                } }}; }
                if rev { let mut v: MutBumpVecRev<$t, &mut $bt> = MutBumpVecRev::with_capacity_in($init, &mut bump); drive!(v, None::<usize>); }
                else { let mut v: MutBumpVec<$t, &mut $bt> = MutBumpVec::with_capacity_in($init, &mut bump); drive!(v, None::<usize>); }
            } else if fixed {
                let mut v: FixedBumpVec<$t> = FixedBumpVec::with_capacity_in($init, &bump);
                macro_rules! drive_op { ($vv:ident, $op:expr) => {{ match *$op {
                    VOp::Push => { let l = $vv.len(); ($vv.try_push(zero).is_ok(), l) }
                    VOp::Extend(n) => { let l = $vv.len(); ($vv.try_extend_from_slice_copy(&vec![zero; n]).is_ok(), l) }
                    VOp::Pop => { $vv.pop(); (true, $vv.len()) }
                    VOp::Truncate(k) => { $vv.truncate(k); (true, $vv.len()) }
                    _ => (true, $vv.len()),
                } }}; }
                drive!(v, Some(bump.alloc(0xA5u8).into_raw().as_ptr() as usize));
            } else {
                let mut v: BumpVec<$t, &$bt> = BumpVec::with_capacity_in($init, &bump);
                macro_rules! drive_op { ($vv:ident, $op:expr) => {{ match *$op {
                    // absurd sizes: every second one goes through the PANICKING method inside catch_unwind (a capacity
                    // overflow unwinds; the vector is used again afterwards) — the same failure, the same atomicity
                    VOp::Reserve(n) if n >= usize::MAX - 64 && n % 2 == 1 => { let l = $vv.len(); (std::panic::catch_unwind(std::panic::AssertUnwindSafe(|| $vv.reserve(n))).is_ok(), l) }
                    VOp::ReserveExact(n) if n >= usize::MAX - 64 && n % 2 == 1 => { let l = $vv.len(); (std::panic::catch_unwind(std::panic::AssertUnwindSafe(|| $vv.reserve_exact(n))).is_ok(), l) }
                    VOp::Reserve(n) => { let l = $vv.len(); ($vv.try_reserve(n).is_ok(), l) }
                    VOp::ReserveExact(n) => { let l = $vv.len(); ($vv.try_reserve_exact(n).is_ok(), l) }
                    VOp::Push => { let l = $vv.len(); ($vv.try_push(zero).is_ok(), l) }
                    VOp::Extend(n) => { let l = $vv.len(); ($vv.try_extend_from_slice_copy(&vec![zero; n]).is_ok(), l) }
                    VOp::Pop => { $vv.pop(); (true, $vv.len()) }
                    VOp::Truncate(k) => { $vv.truncate(k); (true, $vv.len()) }
                    VOp::ShrinkToFit => { $vv.shrink_to_fit(); (true, $vv.len()) }
                    VOp::ShrinkTo(m) => { $vv.shrink_to(m); (true, $vv.len()) }
                } }}; }
                drive!(v, Some(bump.alloc(0xA5u8).into_raw().as_ptr() as usize));
            }
            (notes, line)
        }};
    }

    fn run_history(ty: u64, kind: u8, init: usize, ops: &[(VOp, bool)], chunk: usize, other: bool) -> (Vec<String>, String) {
        PROGRESS.with(|p| *p.borrow_mut() = (String::new(), "with_capacity".into()));
        let r = std::panic::catch_unwind(std::panic::AssertUnwindSafe(|| run_history_inner(ty, kind, init, ops, chunk, other)));
        REFUSE.with(|r| r.set(false));
        match r {
            Ok(x) => x,
            Err(_) => {
                let (line, op) = PROGRESS.with(|p| p.borrow().clone());
                let line = if line.is_empty() { format!("V {} 0 0 {init} {chunk} {}", ["bv", "fv", "mv", "rv", "bs", "ms"][kind as usize], other as u8) } else { line };
                (vec![format!("capacity: the crate panicked in a try_ / non-failing operation ({op}) of this history")], line)
            }
        }
    }

    fn run_history_inner(ty: u64, kind: u8, init: usize, ops: &[(VOp, bool)], chunk: usize, other: bool) -> (Vec<String>, String) {
        // ty = element type + 5 * settings (0: upwards, MIN_ALIGN 1; 1: downwards, MIN_ALIGN 8)
        match ty {
            0 => history!(u8, BumpA, 0, kind, init, ops, chunk, other),
            1 => history!(u32, BumpA, 0, kind, init, ops, chunk, other),
            2 => history!(u64, BumpA, 0, kind, init, ops, chunk, other),
            3 => history!([u8; 24], BumpA, 0, kind, init, ops, chunk, other),
            4 => history!([u64; 200], BumpA, 0, kind, init, ops, chunk, other),
            5 => history!(u8, BumpB, 1, kind, init, ops, chunk, other),
            6 => history!(u32, BumpB, 1, kind, init, ops, chunk, other),
            7 => history!(u64, BumpB, 1, kind, init, ops, chunk, other),
            8 => history!([u8; 24], BumpB, 1, kind, init, ops, chunk, other),
            _ => history!([u64; 200], BumpB, 1, kind, init, ops, chunk, other),
        }
    }

    /// the input of a history (no results), written and flushed before it runs: if the crate then
    /// corrupts memory and the process dies, this line is the failing input
    pub fn input_line(ty: u64, kind: u8, init: usize, ops: &[(VOp, bool)], chunk: usize, other: bool) -> String {
        let (sz, al) = [(1, 1), (4, 4), (8, 8), (24, 1), (1600, 8)][(ty % 5) as usize];
        let mut l = format!("VB {} {sz} {al} {init} {chunk} {} 0 {}", ["bv", "fv", "mv", "rv", "bs", "ms"][kind.min(5) as usize], other as u8, ty / 5);
        for (op, refuse) in ops { let (nm, arg) = name(op); l.push_str(&format!(";{nm},{arg},{}", *refuse as u8)); }
        l
    }

    /// returns (monitor notes, the V line); `announce` receives the input line first
    pub fn cap_history(r: &mut Rng, announce: &mut dyn FnMut(&str)) -> (Vec<String>, String) {
        let kind: u8 = match r.below(10) { 0 | 1 => 1, 2 | 3 => 2, 4 => 3, 5 => 4, 6 => 5, _ => 0 };
        let fixed = kind == 1;
        let init = match r.below(4) { 0 => 0usize, 1 => r.range(1, 5) as usize, _ => r.range(1, 24) as usize };
        let init = if fixed && init == 0 { 3 } else { init };
        let ops = gen_ops(r, kind);
        let chunk = match r.below(3) { 0 => 512usize, 1 => 2048, _ => 16384 };
        let other = r.coin(1, 3);
        let ty = if kind >= 4 { 5 * r.below(2) } else { r.below(10) };      // strings: byte elements
        announce(&input_line(ty, kind, init, &ops, chunk, other));
        run_history(ty, kind, init, &ops, chunk, other)
    }

    /// re-run a recorded `V ...` line (same element type, initial capacity, chunk size, operations and refusals)
    pub fn cap_replay(line: &str) -> Option<(Vec<String>, String)> {
        let mut fields = line.strip_prefix("V ")?.split(';');
        let head: Vec<&str> = fields.next()?.split(' ').collect();
        if head.len() < 6 { return None; }
        let kind: u8 = match head[0] { "fv" => 1, "mv" => 2, "rv" => 3, "bs" => 4, "ms" => 5, _ => 0 };
        if head[1] == "0" { return zst_replay(kind, fields); }
        let ty = match (head[1], head[2]) { ("1", _) => 0, ("4", _) => 1, ("8", _) => 2, ("24", _) => 3, _ => 4 } + 5 * head.get(7).and_then(|x| x.parse::<u64>().ok()).unwrap_or(0).min(1);
        let init: usize = head[3].parse().ok()?;
        let chunk: usize = head[4].parse().ok()?;
        let other = head[5] == "1";
        let mut ops = vec![];
        for f in fields {
            let p: Vec<&str> = f.split(',').collect();
            if p.len() < 3 { continue; }
            let a: usize = p[1].parse().ok()?;
            let op = match p[0] { "reserve" => VOp::Reserve(a), "reserve_exact" => VOp::ReserveExact(a), "push" => VOp::Push, "extend" => VOp::Extend(a),
                                  "pop" => VOp::Pop, "truncate" => VOp::Truncate(a), "shrink_to_fit" => VOp::ShrinkToFit, "shrink_to" => VOp::ShrinkTo(a), _ => return None };
            ops.push((op, p[2] == "1"));
        }
        Some(run_history(ty, kind, init, &ops, chunk, other))
    }

    // ---------------------------------------------------------------- zero-sized elements
    // A vector of () reports capacity usize::MAX and never asks the allocator: it behaves like a
    // fixed vector of that capacity.  Lengths near usize::MAX are reached in one step by extending
    // from a slice of units, so that `len + n` overflows in the operations that follow.
    fn units(n: usize) -> &'static [()] { unsafe { core::slice::from_raw_parts(NonNull::<()>::dangling().as_ptr(), n) } }

    #[derive(Clone, Copy, Debug)]
    pub enum ZOp { Push, Extend(usize), ExtendClone(usize), WithinCopy(usize), WithinClone(usize), Reserve(usize), ReserveExact(usize), Pop, Truncate(usize) }

    fn zname(op: &ZOp) -> (&'static str, usize) {
        match *op { ZOp::Push => ("push", 0), ZOp::Extend(n) => ("extend", n), ZOp::ExtendClone(n) => ("extend_clone", n), ZOp::WithinCopy(n) => ("within_copy", n),
                    ZOp::WithinClone(n) => ("within_clone", n), ZOp::Reserve(n) => ("reserve", n), ZOp::ReserveExact(n) => ("reserve_exact", n), ZOp::Pop => ("pop", 0), ZOp::Truncate(k) => ("truncate", k) }
    }

    macro_rules! zst_drive {
        ($v:ident, $res:ident, $resx:ident, $ops:expr, $line:ident, $notes:ident) => {{
            $line.push_str(&format!(" {}", $v.capacity()));
            for op in $ops.iter() {
                PROGRESS.with(|p| *p.borrow_mut() = ($line.clone(), format!("{:?}", op)));
                let (len0, cap0) = ($v.len(), $v.capacity());
                let ok = match *op {
                    ZOp::Push => $v.try_push(()).is_ok(),
                    ZOp::Extend(n) => $v.try_extend_from_slice_copy(units(n)).is_ok(),
                    ZOp::ExtendClone(n) => $v.try_extend_from_slice_clone(units(n)).is_ok(),
                    ZOp::WithinCopy(n) => $v.try_extend_from_within_copy(0..n.min(len0)).is_ok(),
                    ZOp::WithinClone(n) => $v.try_extend_from_within_clone(0..n.min(len0)).is_ok(),
                    ZOp::Reserve(n) => $v.$res(n).is_ok(),
                    ZOp::ReserveExact(n) => $v.$resx(n).is_ok(),
                    ZOp::Pop => { $v.pop(); true }
                    ZOp::Truncate(k) => { $v.truncate(k); true }
                };
                let (nm, arg) = zname(op);
                let arg = match *op { ZOp::WithinCopy(n) | ZOp::WithinClone(n) => n.min(len0), _ => arg };
                let (len1, cap1) = ($v.len(), $v.capacity());
                $line.push_str(&format!(";{nm},{arg},0,{},{len1},{cap1},0", ok as u8));
                let needs = match *op { ZOp::Push => Some(1), ZOp::Extend(n) | ZOp::ExtendClone(n) | ZOp::Reserve(n) | ZOp::ReserveExact(n) => Some(n), ZOp::WithinCopy(n) | ZOp::WithinClone(n) => Some(n.min(len0)), _ => None };
                if cap1 != cap0 { $notes.push(format!("capacity: the capacity of a vector of zero-sized elements changed from {cap0} to {cap1} on {nm}({arg})")); }
                if let Some(n) = needs {
                    let fits = n <= cap0 - len0;
                    if fits != ok { $notes.push(format!("capacity: {nm}({arg}) on a vector of {len0} zero-sized elements (capacity {cap0}) returned {}", if ok { "Ok although the length would overflow" } else { "Err although it fits" })); }
                    let grows = !matches!(op, ZOp::Reserve(_) | ZOp::ReserveExact(_));
                    if ok && grows && len1 != len0.wrapping_add(n) { $notes.push(format!("capacity: {nm}({arg}) took the length from {len0} to {len1}")); }
                    if (!ok || !grows) && len1 != len0 { $notes.push(format!("capacity: a failed {nm}({arg}) changed the length from {len0} to {len1}")); }
                }
            }
        }};
    }
    fn gen_zops(r: &mut Rng, kind: u8) -> Vec<ZOp> {
        let n = r.range(2, 14) as usize;
        let mut len_guess: usize = 0;
        (0..n).map(|i| {
            let amount = |r: &mut Rng, len: usize| -> usize { match r.below(8) { 0 => 1, 1 => 2, 2 => 5, 3 => usize::MAX - len, 4 => (usize::MAX - len).wrapping_add(1), 5 => usize::MAX - 1, 6 => (isize::MAX as usize), _ => r.range(0, 9) as usize } };
            let small = |a: usize| if a > 64 { a % 64 + 1 } else { a };
            let op = loop {
                let op = if i == 0 && r.coin(2, 3) { ZOp::Extend(usize::MAX - r.below(4) as usize) } else { match r.below(12) {
                    // the clone variants loop once per element: keep their counts small (an overflow only needs
                    // a length near usize::MAX, which the copy variants reach in one step)
                    0 | 1 => ZOp::Push, 2 => ZOp::Extend(amount(r, len_guess)), 3 => ZOp::ExtendClone(small(amount(r, len_guess))),
                    4 | 5 => ZOp::WithinCopy(amount(r, len_guess)), 6 | 7 => ZOp::WithinClone(small(amount(r, len_guess))),
                    8 => ZOp::Reserve(amount(r, len_guess)), 9 => ZOp::ReserveExact(amount(r, len_guess)), 10 => ZOp::Pop, _ => ZOp::Truncate(r.below(4) as usize) } };
                // cloning 2^63 units one by one would take forever: keep the clone loops short
                break op;
            };
            // track the length the history will have (to aim at the overflow boundary)
            len_guess = match op {
                ZOp::Push => if len_guess < usize::MAX { len_guess + 1 } else { len_guess },
                ZOp::Extend(n) | ZOp::ExtendClone(n) => if n <= usize::MAX - len_guess { len_guess + n } else { len_guess },
                ZOp::WithinCopy(n) | ZOp::WithinClone(n) => { let n = n.min(len_guess); if n <= usize::MAX - len_guess { len_guess + n } else { len_guess } }
                ZOp::Pop => len_guess.saturating_sub(1), ZOp::Truncate(k) => len_guess.min(k), _ => len_guess };
            op
        }).collect()
    }

    fn run_zst(kind: u8, ops: &[ZOp]) -> (Vec<String>, String) {
        PROGRESS.with(|p| *p.borrow_mut() = (String::new(), "new".into()));
        let r = std::panic::catch_unwind(std::panic::AssertUnwindSafe(|| {
            let mut bump: Bump<Moody2> = Bump::with_size_in(512, Moody2);
            let mut line = format!("V {} 0 1 0 512 0", ["bv", "fv", "mv", "rv", "bs", "ms"][kind as usize]);
            let mut notes: Vec<String> = vec![];
            match kind {
                0 => { let mut v: BumpVec<(), &Bump<Moody2>> = BumpVec::new_in(&bump); zst_drive!(v, try_reserve, try_reserve_exact, ops, line, notes); }
                1 => { let mut v: FixedBumpVec<()> = FixedBumpVec::with_capacity_in(0, &bump); zst_drive!(v, try_reserve, try_reserve, ops, line, notes); }
                2 => { let mut v: MutBumpVec<(), &mut Bump<Moody2>> = MutBumpVec::new_in(&mut bump); zst_drive!(v, try_reserve, try_reserve_exact, ops, line, notes); }
                _ => { let mut v: MutBumpVecRev<(), &mut Bump<Moody2>> = MutBumpVecRev::new_in(&mut bump); zst_drive!(v, try_reserve, try_reserve_exact, ops, line, notes); }
            }
            (notes, line)
        }));
        match r {
            Ok(x) => x,
            Err(_) => {
                let (line, op) = PROGRESS.with(|p| p.borrow().clone());
                (vec![format!("capacity: the crate panicked in a try_ / non-failing operation ({op}) on a vector of zero-sized elements")], if line.is_empty() { format!("V {} 0 1 0 512 0 0", ["bv", "fv", "mv", "rv", "bs", "ms"][kind as usize]) } else { line })
            }
        }
    }

    pub fn zst_history(r: &mut Rng, announce: &mut dyn FnMut(&str)) -> (Vec<String>, String) {
        let kind = r.below(4) as u8;
        let ops = gen_zops(r, kind);
        let mut l = format!("VB {} 0 1 0 512 0 0", ["bv", "fv", "mv", "rv", "bs", "ms"][kind as usize]);
        for op in &ops { let (nm, arg) = zname(op); l.push_str(&format!(";{nm},{arg},0")); }
        announce(&l);
        run_zst(kind, &ops)
    }

    fn zst_replay(kind: u8, fields: std::str::Split<'_, char>) -> Option<(Vec<String>, String)> {
        let mut ops = vec![];
        for f in fields {
            let p: Vec<&str> = f.split(',').collect();
            if p.len() < 2 { continue; }
            let a: usize = p[1].parse().ok()?;
            ops.push(match p[0] { "push" => ZOp::Push, "extend" => ZOp::Extend(a), "extend_clone" => ZOp::ExtendClone(a), "within_copy" => ZOp::WithinCopy(a), "within_clone" => ZOp::WithinClone(a),
                                  "reserve" => ZOp::Reserve(a), "reserve_exact" => ZOp::ReserveExact(a), "pop" => ZOp::Pop, "truncate" => ZOp::Truncate(a), _ => return None });
        }
        Some(run_zst(kind, &ops))
    }
}
