#![allow(dead_code, unused, clippy::all)]
//! Arena correspondence harness (shared core): drives the REAL crate through its public API over the
//! instrumented base allocator and writes a trace (operation, base-allocator events, result,
//! statistics, block contents) that the extracted Coq model replays.  Property monitors run on
//! the implementation's own observations and print `X <kind> ...` lines.
use bump_scope::alloc::{AllocError, Allocator};
use bump_scope::settings::BumpSettings;
use bump_scope::traits::{BumpAllocator, BumpAllocatorCore, BumpAllocatorScope, BumpAllocatorTyped, BumpAllocatorTypedScope};
use bump_scope::{Bump, BumpBox, BumpScope, WithoutDealloc, WithoutShrink};
use core::alloc::Layout;
use core::ptr::NonNull;
use std::fmt::Write as _;
use std::io::Write as _;
use std::panic::{AssertUnwindSafe, catch_unwind};
use crate::pool::{Ev, P32, P64, TA, with_pool};
use crate::{Rng, arg};

// ------------------------------------------------------------------ scripted operations
#[derive(Clone, Debug)]
pub enum Op {
    /// cls: 0 Allocator::allocate, 1 typed slice, 2 typed sized, 3 allocate_zeroed
    Alloc { w: u8, size: usize, align: usize, cls: u8, ty: u8, len: usize },
    Dealloc { w: u8, b: usize },
    Grow { w: u8, b: usize, size: usize, align: usize, zeroed: bool },
    Shrink { w: u8, b: usize, size: usize, align: usize },
    Checkpoint,
    ResetTo { cp: usize },
    ScopeEnter,
    ScopeExit { panic: bool },
    Reset,
    ResetToStart,
    Reserve { n: usize },
    /// alloc_try_with(_mut) whose closure returns Err; ty selects the payload size
    TryErr { mutable: bool, ty: u8 },
    /// the owner of block `b` divides it after `mid` bytes (BumpBox::split_at and friends): no call into the
    /// arena, but from now on the two parts are deallocated / grown / shrunk on their own
    Split { b: usize, mid: usize },
    End,
}

pub struct Blk {
    pub id: usize,
    pub ptr: usize,
    pub size: usize,
    pub align: usize,
    pub shadow: Vec<u8>,
    pub born: u64,
}

pub struct St {
    pub out: String,
    pub rng: Rng,
    pub script: Option<std::collections::VecDeque<(bool, Op)>>,
    pub blocks: Vec<Blk>,
    pub next_id: usize,
    pub seed_ctr: u64,
    pub epoch: u64,
    pub cp_store: Vec<(usize, u64, bump_scope::Checkpoint)>, // (cp id, epoch, Checkpoint)
    pub next_cp: usize,
    pub ops_left: usize,
    pub depth: usize,
    pub max_depth: usize,
    pub fail_rate: u64,
    pub big: bool,
    pub xlines: usize,
    pub dead: bool,
    /// the next few reclaim operations act on the SECOND newest block (seam scenarios)
    pub second_newest: u8,
    /// index of the active handle = number of outstanding claim guards
    pub h: usize,
}

pub fn pattern(seed: u64, i: usize) -> u8 {
    ((seed.wrapping_mul(31).wrapping_add((i as u64).wrapping_mul(7)).wrapping_add(1)) % 251 + 1) as u8
}

pub const TY_SIZED: &[(usize, usize)] = &[(1, 1), (3, 1), (2, 2), (4, 4), (13, 1), (8, 8), (16, 16), (40, 8), (32, 32), (128, 64), (20, 4), (17, 1)];
pub const TY_SLICE: &[(usize, usize)] = &[(1, 1), (2, 2), (4, 4), (8, 8), (16, 16), (32, 32), (12, 4)];

#[derive(Clone, Copy)] #[repr(align(32))] pub struct T32([u8; 32]);
#[derive(Clone, Copy)] #[repr(align(64))] pub struct T64([u8; 128]);

impl St {
    pub fn x(&mut self, kind: &str, detail: &str) {
        if self.xlines < 50 {
            let _ = writeln!(self.out, "X {kind} {detail}");
        }
        self.xlines += 1;
    }

    /// choose the next operation (online generation, or the next line of a replay script)
    pub fn next_op(&mut self, top_level: bool) -> (bool, Op) {
        if let Some(s) = &mut self.script {
            return s.pop_front().unwrap_or((false, Op::End));
        }
        if self.ops_left == 0 {
            return (false, if self.depth > 0 { Op::ScopeExit { panic: false } } else { Op::End });
        }
        self.ops_left -= 1;
        let fail = self.rng.below(100) < self.fail_rate;
        let r = &mut self.rng;
        let nb = self.blocks.len();
        loop {
            let k = r.below(100);
            let w = if r.coin(3, 4) { 0 } else { r.range(1, 4) as u8 };
            let op = match k {
                0..=37 => {
                    // 0 Allocator::allocate, 1 typed slice, 2 typed sized, 3 allocate_zeroed,
                    // 4 dyn try_allocate_layout, 5 dyn try_allocate_slice, 6 typed try_allocate_layout, 7 panicking allocate_layout
                    let cls = match r.below(16) { 0..=4 => 0, 5..=6 => 1, 7..=8 => 2, 9..=10 => 3, 11 => 4, 12 => 5, 13 => 6, 14 => 7, _ => 0 };
                    match cls {
                        1 | 5 => {
                            let ty = r.below(TY_SLICE.len() as u64) as u8;
                            let (es, ea) = TY_SLICE[ty as usize];
                            let len = match r.below(6) { 0 => 0, 1..=3 => r.range(1, 12) as usize, 4 => r.range(10, 200) as usize, _ => r.range(100, 3000) as usize };
                            Op::Alloc { w: 0, size: es * len, align: ea, cls, ty, len }
                        }
                        2 => {
                            let ty = r.below(TY_SIZED.len() as u64) as u8;
                            let (s, a) = TY_SIZED[ty as usize];
                            Op::Alloc { w: 0, size: s, align: a, cls, ty, len: 0 }
                        }
                        _ => {
                            let align = 1usize << match r.below(10) { 0..=5 => r.below(5), 6..=8 => r.below(8), _ => r.below(13) };
                            let size = match r.below(12) {
                                0 => 0,
                                1..=4 => r.below(40) as usize,
                                5..=7 => r.below(400) as usize,
                                8..=9 => r.below(3000) as usize,
                                10 => r.below(20000) as usize,
                                _ => if self.big { r.below(300000) as usize } else { r.below(5000) as usize },
                            };
                            Op::Alloc { w, size, align, cls, ty: 0, len: 0 }
                        }
                    }
                }
                40..=49 if nb > 0 => {
                    // bias towards the newest block (the one that can be reclaimed)
                    let b = if self.second_newest > 0 && nb >= 2 { self.second_newest -= 1; self.blocks[nb - 2].id }
                            else if r.coin(2, 3) { self.blocks[nb - 1].id } else { self.blocks[r.below(nb as u64) as usize].id };
                    Op::Dealloc { w, b }
                }
                50..=61 if nb > 0 => {
                    let i = if self.second_newest > 0 && nb >= 2 { self.second_newest -= 1; nb - 2 } else if r.coin(2, 3) { nb - 1 } else { r.below(nb as u64) as usize };
                    let blk = &self.blocks[i];
                    let add = match r.below(6) { 0 => 0, 1..=3 => r.below(64) as usize, 4 => r.below(2000) as usize, _ => r.below(20000) as usize };
                    let align = if r.coin(3, 4) { blk.align } else { 1usize << r.below(8) };
                    Op::Grow { w, b: blk.id, size: blk.size + add, align, zeroed: r.coin(1, 3) }
                }
                62..=73 if nb > 0 => {
                    let i = if self.second_newest > 0 && nb >= 2 { self.second_newest -= 1; nb - 2 } else if r.coin(2, 3) { nb - 1 } else { r.below(nb as u64) as usize };
                    let blk = &self.blocks[i];
                    let size = if blk.size == 0 { 0 } else { r.below(blk.size as u64 + 1) as usize };
                    let align = if r.coin(2, 3) { blk.align } else { 1usize << r.below(8) };
                    Op::Shrink { w, b: blk.id, size, align }
                }
                74..=78 => Op::Checkpoint,
                79..=83 if !self.cp_store.is_empty() => {
                    let i = r.below(self.cp_store.len() as u64) as usize;
                    Op::ResetTo { cp: self.cp_store[i].0 }
                }
                84..=88 if self.depth < self.max_depth => Op::ScopeEnter,
                89..=92 if self.depth > 0 => Op::ScopeExit { panic: r.coin(1, 4) },
                93..=94 if top_level => Op::Reset,
                95 if top_level => Op::ResetToStart,
                96 => Op::TryErr { mutable: r.coin(1, 2), ty: r.below(6) as u8 },
                38..=39 | 97 if nb > 0 => {
                    let i = if r.coin(1, 2) { nb - 1 } else { r.below(nb as u64) as usize };
                    let blk = &self.blocks[i];
                    let mid = match r.below(6) { 0 => 0, 1 => blk.size, _ => r.below(blk.size as u64 + 1) as usize };
                    Op::Split { b: blk.id, mid }
                }
                98..=99 => Op::Reserve { n: match r.below(4) { 0 => r.below(64) as usize, 1 => r.below(5000) as usize, 2 => r.below(100000) as usize, _ => r.below(2000) as usize } },
                _ => continue,
            };
            return (fail, op);
        }
    }
}

// ------------------------------------------------------------------ the generic driver
pub trait Cfg {
    type A: bump_scope::BaseAllocator<<Self::S as bump_scope::settings::BumpAllocatorSettings>::GuaranteedAllocated> + Clone + Default + 'static;
    type S: bump_scope::settings::BumpAllocatorSettings + 'static;
}

pub fn stats_line<A, S>(st: &mut St, scope: &BumpScope<'_, A, S>)
where
    A: bump_scope::BaseAllocator<S::GuaranteedAllocated>,
    S: bump_scope::settings::BumpAllocatorSettings,
{
    let s = scope.stats();
    let a = scope.any_stats();
    let mut line = String::new();
    let cur_start = s.current_chunk().map(|c| c.chunk_start().as_ptr() as usize);
    let mut cur_idx: i64 = if scope.is_claimed() { -2 } else { -1 };
    let mut chunks = vec![];
    for (i, c) in s.small_to_big().enumerate() {
        let start = c.chunk_start().as_ptr() as usize;
        if Some(start) == cur_start {
            cur_idx = i as i64;
        }
        chunks.push((start, c.size(), c.bump_position().as_ptr() as usize, c.capacity(), c.allocated(), c.remaining(),
                     c.content_start().as_ptr() as usize, c.content_end().as_ptr() as usize, c.chunk_end().as_ptr() as usize));
    }
    let _ = write!(line, "T {} {} {} {} {} {}", s.count(), s.size(), s.capacity(), s.allocated(), s.remaining(), cur_idx);
    for c in &chunks {
        let _ = write!(line, " {}:{}:{}", c.0, c.1, c.2);
    }
    let _ = writeln!(st.out, "{line}");
    flush(st);
    // ---- C10 monitors on the implementation's own numbers
    if s.allocated() + s.remaining() != s.capacity() || s.capacity() > s.size() || s.count() != chunks.len() {
        st.x("stats-identity", &format!("count={} size={} capacity={} allocated={} remaining={} chunks={}", s.count(), s.size(), s.capacity(), s.allocated(), s.remaining(), chunks.len()));
    }
    // forwards == backwards
    let back: Vec<usize> = s.big_to_small().map(|c| c.chunk_start().as_ptr() as usize).collect();
    let fwd: Vec<usize> = chunks.iter().map(|c| c.0).collect();
    if back.iter().rev().copied().collect::<Vec<_>>() != fwd {
        st.x("chunk-list-forward-backward-differ", "");
    }
    for w in chunks.windows(2) {
        if w[1].1 <= w[0].1 {
            st.x("chunk-not-larger-than-predecessor", &format!("{} then {}", w[0].1, w[1].1));
        }
        // C12: a later chunk is never smaller than twice the previous one less 16 bytes
        if w[1].1 + 16 < 2 * w[0].1 {
            st.x("chunk-smaller-than-twice-its-predecessor-less-16", &format!("{} then {}", w[0].1, w[1].1));
        }
    }
    for c in &chunks {
        if c.1 % 16 != 0 {
            st.x("chunk-size-not-multiple-of-16", &format!("{}", c.1));
        }
        if !(c.6 <= c.2 && c.2 <= c.7) {
            st.x("position-outside-content-range", &format!("pos={} content={}..{}", c.2, c.6, c.7));
        }
        if !with_pool(|p| p.owns(c.0, c.1)) {
            st.x("chunk-outside-granted-block", &format!("start={} size={}", c.0, c.1));
        }
        // the header is where the model puts it (ArenaHeader.header_start): the header_size bytes at the low end of the
        // chunk when bumping upwards, at the high end when bumping downwards; the content range is the rest
        let (hsz, up) = (header_size::<A>(), <S as bump_scope::settings::BumpAllocatorSettings>::UP);
        let header_ok = if up { c.6 == c.0 + hsz && c.7 == c.0 + c.1 && c.8 == c.0 + c.1 } else { c.6 == c.0 && c.7 + hsz == c.0 + c.1 && c.8 == c.0 + c.1 };
        if !header_ok {
            st.x("chunk-outside-granted-block", &format!("header not where the model puts it: start={} size={} content={}..{} end={} header_size={hsz} up={up}", c.0, c.1, c.6, c.7, c.8));
        }
    }
    if let Some(i) = (cur_idx >= 0).then_some(cur_idx as usize) {
        let m = <S as bump_scope::settings::BumpAllocatorSettings>::MIN_ALIGN;
        if chunks[i].2 % m != 0 {
            st.x("position-not-multiple-of-min-align", &format!("pos={} min_align={m}", chunks[i].2));
        }
    }
    // type-erased statistics must report the same numbers and ranges
    let any: Vec<(usize, usize, usize, usize, usize, usize, usize, usize, usize)> = a
        .small_to_big()
        .map(|c| (c.chunk_start().as_ptr() as usize, c.size(), c.bump_position().as_ptr() as usize, c.capacity(), c.allocated(), c.remaining(),
                  c.content_start().as_ptr() as usize, c.content_end().as_ptr() as usize, c.chunk_end().as_ptr() as usize))
        .collect();
    if (a.count(), a.size(), a.capacity(), a.allocated(), a.remaining()) != (s.count(), s.size(), s.capacity(), s.allocated(), s.remaining()) || any != chunks {
        st.x("any-stats-differ-from-typed-stats",
             &format!("typed=({},{},{},{},{}) any=({},{},{},{},{}) header_size={}", s.count(), s.size(), s.capacity(), s.allocated(), s.remaining(),
                      a.count(), a.size(), a.capacity(), a.allocated(), a.remaining(), header_size::<A>()));
    }
    // walking the list from the current chunk with prev()/next()/iter_prev()/iter_next() gives the same sequence,
    // for the typed and the type-erased view alike
    let fwd_rev = |v: Vec<usize>| -> Vec<usize> { v.into_iter().rev().collect() };
    match (s.current_chunk(), cur_idx >= 0) {
        (Some(c), true) => {
            let i = cur_idx as usize;
            let before: Vec<usize> = fwd_rev(c.iter_prev().map(|c| c.chunk_start().as_ptr() as usize).collect());
            let after: Vec<usize> = c.iter_next().map(|c| c.chunk_start().as_ptr() as usize).collect();
            let mut walk_back = vec![];
            let mut k = c.prev();
            while let Some(x) = k { walk_back.push(x.chunk_start().as_ptr() as usize); k = x.prev(); if walk_back.len() > 4096 { break; } }
            let mut walk_fwd = vec![];
            let mut k = c.next();
            while let Some(x) = k { walk_fwd.push(x.chunk_start().as_ptr() as usize); k = x.next(); if walk_fwd.len() > 4096 { break; } }
            if before != fwd[..i] || after != fwd[i + 1..] || fwd_rev(walk_back) != fwd[..i] || walk_fwd != fwd[i + 1..] {
                st.x("chunk-walk-from-current-differs", &format!("list={fwd:?} current={i} iter_prev={before:?} iter_next={after:?}"));
            }
        }
        (None, false) => {}
        (c, _) => st.x("current-chunk-not-in-list", &format!("current={:?} idx={cur_idx}", c.map(|c| c.chunk_start().as_ptr() as usize))),
    }
    let any_back: Vec<usize> = a.big_to_small().map(|c| c.chunk_start().as_ptr() as usize).collect();
    let any_cur = a.current_chunk().map(|c| c.chunk_start().as_ptr() as usize);
    let mut any_ok = fwd_rev(any_back) == fwd && any_cur == cur_start;
    if let Some(c) = a.current_chunk() {
        if cur_idx >= 0 {
            let i = cur_idx as usize;
            let before: Vec<usize> = fwd_rev(c.iter_prev().map(|c| c.chunk_start().as_ptr() as usize).collect());
            let after: Vec<usize> = c.iter_next().map(|c| c.chunk_start().as_ptr() as usize).collect();
            any_ok &= before == fwd[..i] && after == fwd[i + 1..];
            any_ok &= c.prev().map(|c| c.chunk_start().as_ptr() as usize) == i.checked_sub(1).map(|j| fwd[j]);
            any_ok &= c.next().map(|c| c.chunk_start().as_ptr() as usize) == fwd.get(i + 1).copied();
            any_ok &= (c.size(), c.capacity(), c.allocated(), c.remaining(), c.bump_position().as_ptr() as usize)
                == (chunks[i].1, chunks[i].3, chunks[i].4, chunks[i].5, chunks[i].2);
        }
    }
    // the conversions between the two views agree with asking the arena directly
    let conv: bump_scope::stats::AnyStats<'_> = s.into();
    any_ok &= (conv.count(), conv.size(), conv.capacity(), conv.allocated(), conv.remaining()) == (a.count(), a.size(), a.capacity(), a.allocated(), a.remaining());
    if let Some(c) = s.current_chunk() {
        let ac: bump_scope::stats::AnyChunk<'_> = c.into();
        any_ok &= (ac.chunk_start(), ac.size(), ac.bump_position(), ac.capacity(), ac.allocated(), ac.remaining(), ac.content_start(), ac.content_end(), ac.chunk_end())
            == (c.chunk_start(), c.size(), c.bump_position(), c.capacity(), c.allocated(), c.remaining(), c.content_start(), c.content_end(), c.chunk_end());
    }
    if !any_ok {
        st.x("any-stats-differ-from-typed-stats", &format!("walks or conversions of the type-erased view differ: list={fwd:?} current={cur_idx} header_size={}", header_size::<A>()));
    }
    // per-chunk identities
    for c in &chunks {
        if c.4 + c.5 != c.3 || c.3 != c.7 - c.6 || c.8 != c.0 + c.1 || !(c.0 <= c.6 && c.7 <= c.8) {
            st.x("stats-identity", &format!("chunk start={} size={} capacity={} allocated={} remaining={} content={}..{} end={}", c.0, c.1, c.3, c.4, c.5, c.6, c.7, c.8));
        }
    }
    if chunks.iter().map(|c| c.1).sum::<usize>() != s.size() || chunks.iter().map(|c| c.3).sum::<usize>() != s.capacity() {
        st.x("stats-identity", &format!("totals are not the sums over the chunks: size={} capacity={}", s.size(), s.capacity()));
    }
}

pub fn flush(st: &mut St) {
    let so = std::io::stdout();
    let mut l = so.lock();
    let _ = l.write_all(st.out.as_bytes());
    let _ = l.flush();
    st.out.clear();
}

pub fn header_size<A>() -> usize {
    #[repr(C, align(16))]
    struct H<A> { a: [usize; 4], b: A }
    core::mem::size_of::<H<A>>()
}
pub fn header_align<A>() -> usize {
    #[repr(C, align(16))]
    struct H<A> { a: [usize; 4], b: A }
    core::mem::align_of::<H<A>>()
}

pub fn events_lines(st: &mut St) {
    let evs: Vec<Ev> = with_pool(|p| std::mem::take(&mut p.events));
    for e in evs {
        match e {
            Ev::Alloc { size, align, addr, granted } => { let _ = writeln!(st.out, "E A {size} {align} {addr} {granted}"); }
            Ev::Dealloc { addr, size, align } => { let _ = writeln!(st.out, "E D {addr} {size} {align}"); }
        }
    }
    let errs: Vec<String> = with_pool(|p| std::mem::take(&mut p.errors));
    for e in errs {
        st.x("base-allocator-ledger", &e);
    }
}

pub fn mem_line(st: &mut St, ptr: usize, size: usize) {
    if size > 0 && size <= 512 {
        let s = unsafe { core::slice::from_raw_parts(ptr as *const u8, size) };
        let mut line = String::with_capacity(2 * size + 4);
        line.push_str("M ");
        for b in s {
            let _ = write!(line, "{b:02x}");
        }
        let _ = writeln!(st.out, "{line}");
    }
}

/// C01 / C02 monitors: every live block is inside owned memory, aligned, disjoint from the
/// others, and still holds the bytes its owner wrote.
pub fn monitors(st: &mut St) {
    let mut msgs = vec![];
    for b in &st.blocks {
        if b.size > 0 && !with_pool(|p| p.owns(b.ptr, b.size)) {
            msgs.push(("block-outside-owned-memory", format!("id={} ptr={} size={}", b.id, b.ptr, b.size)));
        }
        if b.ptr % b.align != 0 {
            msgs.push(("block-misaligned", format!("id={} ptr={} align={}", b.id, b.ptr, b.align)));
        }
        let cur = unsafe { core::slice::from_raw_parts(b.ptr as *const u8, b.size) };
        if cur != &b.shadow[..] {
            let at = cur.iter().zip(b.shadow.iter()).position(|(x, y)| x != y).unwrap_or(0);
            msgs.push(("block-contents-changed", format!("id={} ptr={} size={} first_diff_at={} expected={} found={}", b.id, b.ptr, b.size, at, b.shadow[at], cur[at])));
        }
    }
    let mut iv: Vec<(usize, usize, usize)> = st.blocks.iter().filter(|b| b.size > 0).map(|b| (b.ptr, b.ptr + b.size, b.id)).collect();
    iv.sort();
    for w in iv.windows(2) {
        if w[1].0 < w[0].1 {
            msgs.push(("live-blocks-overlap", format!("id={} [{}..{}) and id={} [{}..{})", w[0].2, w[0].0, w[0].1, w[1].2, w[1].0, w[1].1)));
        }
    }
    for (k, d) in msgs {
        st.x(k, &d);
    }
}

pub fn fill_new<A, S>(st: &mut St, scope: &BumpScope<'_, A, S>, ptr: usize, size: usize, align: usize, keep_prefix: Option<Vec<u8>>)
where
    A: bump_scope::BaseAllocator<S::GuaranteedAllocated>,
    S: bump_scope::settings::BumpAllocatorSettings,
{
    let id = st.next_id;
    st.next_id += 1;
    // contents right after the operation (prefix preserved / zero tail) are checked by the caller
    st.seed_ctr += 1;
    let seed = st.seed_ctr;
    let _ = writeln!(st.out, "O F {id} {seed}");
    let mut shadow = vec![0u8; size];
    for i in 0..size {
        shadow[i] = pattern(seed, i);
    }
    unsafe { core::ptr::copy_nonoverlapping(shadow.as_ptr(), ptr as *mut u8, size) };
    let _ = writeln!(st.out, "R U");
    st.blocks.push(Blk { id, ptr, size, align, shadow, born: st.epoch });
    st.epoch += 1; // the fill is an operation of its own in the model
    stats_line(st, scope);
}

#[macro_export]
macro_rules! with_wrapper {
    ($w:expr, $scope:expr, |$a:ident| $body:expr) => {
        match $w {
            0 => { let $a = $scope; $body }
            1 => { let $a = WithoutDealloc($scope); $body }
            2 => { let $a = WithoutShrink($scope); $body }
            3 => { let $a = WithoutDealloc(WithoutShrink($scope)); $body }
            _ => { let $a = WithoutShrink(WithoutDealloc($scope)); $body }
        }
    };
}

pub fn typed_sized<A, S>(scope: &BumpScope<'_, A, S>, ty: u8) -> Result<usize, AllocError>
where
    A: bump_scope::BaseAllocator<S::GuaranteedAllocated>,
    S: bump_scope::settings::BumpAllocatorSettings,
{
    macro_rules! go { ($t:ty) => { scope.try_alloc_uninit::<$t>().map(|b| BumpBox::into_raw(b).as_ptr() as *mut u8 as usize) }; }
    match ty {
        0 => go!(u8), 1 => go!([u8; 3]), 2 => go!(u16), 3 => go!(u32), 4 => go!([u8; 13]), 5 => go!(u64),
        6 => go!(u128), 7 => go!([u64; 5]), 8 => go!(T32), 9 => go!(T64), 10 => go!([u32; 5]), _ => go!([u8; 17]),
    }
}

pub fn typed_slice<A, S>(scope: &BumpScope<'_, A, S>, ty: u8, len: usize) -> Result<usize, AllocError>
where
    A: bump_scope::BaseAllocator<S::GuaranteedAllocated>,
    S: bump_scope::settings::BumpAllocatorSettings,
{
    macro_rules! go { ($t:ty) => { scope.try_alloc_uninit_slice::<$t>(len).map(|b| BumpBox::into_raw(b).as_ptr() as *mut u8 as usize) }; }
    match ty {
        0 => go!(u8), 1 => go!(u16), 2 => go!(u32), 3 => go!(u64), 4 => go!(u128), 5 => go!(T32), _ => go!([u32; 3]),
    }
}

pub fn typed_slice_dyn<A, S>(scope: &BumpScope<'_, A, S>, ty: u8, len: usize) -> Result<usize, AllocError>
where
    A: bump_scope::BaseAllocator<S::GuaranteedAllocated>,
    S: bump_scope::settings::BumpAllocatorSettings,
{
    let d: &dyn BumpAllocatorCore = scope;
    macro_rules! go { ($t:ty) => { d.try_allocate_slice::<$t>(len).map(|p| p.as_ptr() as *mut u8 as usize) }; }
    match ty {
        0 => go!(u8), 1 => go!(u16), 2 => go!(u32), 3 => go!(u64), 4 => go!(u128), 5 => go!(T32), _ => go!([u32; 3]),
    }
}

/// executes one non-structural operation on the active scope
pub fn exec<A, S>(st: &mut St, scope: &BumpScope<'_, A, S>, fail: bool, op: &Op)
where
    A: bump_scope::BaseAllocator<S::GuaranteedAllocated>,
    S: bump_scope::settings::BumpAllocatorSettings,
{
    flush(st);
    if fail {
        let _ = writeln!(st.out, "FAIL");
        with_pool(|p| p.fail_next = true);
    }
    let find = |st: &St, id: usize| st.blocks.iter().position(|b| b.id == id);
    match op {
        Op::Alloc { w, size, align, cls, ty, len } => {
            let _ = writeln!(st.out, "O A {} {w} {size} {align} {} {cls}", st.h, (*cls == 3) as u8);
            let layout = Layout::from_size_align(*size, *align).unwrap();
            let res: Result<usize, AllocError> = match cls {
                4 => { let d: &dyn BumpAllocatorCore = scope; d.try_allocate_layout(layout).map(|p| p.as_ptr() as usize) }
                5 => typed_slice_dyn(scope, *ty, *len),
                6 => scope.try_allocate_layout(layout).map(|p| p.as_ptr() as usize),
                7 => {
                    // the panicking twin; only when the request certainly needs no new chunk
                    // (an allocation failure in a panicking method aborts the process)
                    if !fail && scope.stats().current_chunk().map_or(false, |c| c.remaining() >= size + align + 16) {
                        Ok(scope.allocate_layout(layout).as_ptr() as usize)
                    } else {
                        scope.try_allocate_layout(layout).map(|p| p.as_ptr() as usize)
                    }
                }
                1 => typed_slice(scope, *ty, *len),
                2 => typed_sized(scope, *ty),
                3 => with_wrapper!(*w, scope, |a| a.allocate_zeroed(layout).map(|p| p.as_ptr() as *mut u8 as usize)),
                _ => with_wrapper!(*w, scope, |a| a.allocate(layout).map(|p| p.as_ptr() as *mut u8 as usize)),
            };
            st.epoch += 1;
            events_lines(st);
            match res {
                Ok(ptr) => {
                    let _ = writeln!(st.out, "R B {ptr} {size}");
                    if *cls == 3 {
                        mem_line(st, ptr, *size);
                        let s = unsafe { core::slice::from_raw_parts(ptr as *const u8, *size) };
                        if s.iter().any(|x| *x != 0) {
                            st.x("zeroed-allocation-not-zero", &format!("ptr={ptr} size={size}"));
                        }
                    }
                    stats_line(st, scope);
                    monitors(st);
                    // blocks of size 0 with typed zero-length slices may be dangling: still tracked
                    fill_new(st, scope, ptr, *size, *align, None);
                }
                Err(_) => {
                    let _ = writeln!(st.out, "R E");
                    stats_line(st, scope);
                    monitors(st);
                }
            }
        }
        Op::Dealloc { w, b } => {
            let Some(i) = find(st, *b) else { return };
            let blk = st.blocks.remove(i);
            let _ = writeln!(st.out, "O D {} {w} {}", st.h, blk.id);
            let layout = Layout::from_size_align(blk.size, blk.align).unwrap();
            let before = scope.stats().allocated();
            with_wrapper!(*w, scope, |a| unsafe { a.deallocate(NonNull::new(blk.ptr as *mut u8).unwrap(), layout) });
            st.epoch += 1;
            events_lines(st);
            let _ = writeln!(st.out, "R U");
            let after = scope.stats().allocated();
            // C13: opt-outs are honoured
            let dealloc_off = !<S as bump_scope::settings::BumpAllocatorSettings>::DEALLOCATES || matches!(*w, 1 | 3 | 4);
            if dealloc_off && after != before {
                st.x("deallocate-changed-allocated-although-deallocation-is-off", &format!("before={before} after={after}"));
            }
            stats_line(st, scope);
            monitors(st);
        }
        Op::Grow { w, b, size, align, zeroed } => {
            let Some(i) = find(st, *b) else { return };
            let (id, ptr, osize, oalign) = { let k = &st.blocks[i]; (k.id, k.ptr, k.size, k.align) };
            let _ = writeln!(st.out, "O G {} {w} {id} {size} {align} {}", st.h, *zeroed as u8);
            let old = Layout::from_size_align(osize, oalign).unwrap();
            let new = Layout::from_size_align(*size, *align).unwrap();
            let p = NonNull::new(ptr as *mut u8).unwrap();
            let res = with_wrapper!(*w, scope, |a| unsafe { if *zeroed { a.grow_zeroed(p, old, new) } else { a.grow(p, old, new) } });
            st.epoch += 1;
            events_lines(st);
            match res {
                Ok(np) => {
                    let blk = st.blocks.remove(i);
                    let (nptr, nlen) = (np.as_ptr() as *mut u8 as usize, np.len());
                    let _ = writeln!(st.out, "R B {nptr} {nlen}");
                    mem_line(st, nptr, nlen);
                    let cur = unsafe { core::slice::from_raw_parts(nptr as *const u8, nlen) };
                    if cur[..osize] != blk.shadow[..] {
                        st.x("grow-lost-contents", &format!("id={id} old_ptr={ptr} new_ptr={nptr} old_size={osize} new_size={nlen}"));
                    }
                    if *zeroed && cur[osize..*size].iter().any(|x| *x != 0) {
                        st.x("grow-zeroed-tail-not-zero", &format!("id={id} new_ptr={nptr} old_size={osize} new_size={nlen} wrapper={w}"));
                    }
                    if nlen < *size {
                        st.x("block-smaller-than-requested", &format!("requested={size} got={nlen}"));
                    }
                    stats_line(st, scope);
                    monitors(st);
                    fill_new(st, scope, nptr, nlen, *align, None);
                }
                Err(_) => {
                    let _ = writeln!(st.out, "R E");
                    stats_line(st, scope);
                    monitors(st);
                }
            }
        }
        Op::Shrink { w, b, size, align } => {
            let Some(i) = find(st, *b) else { return };
            let (id, ptr, osize, oalign) = { let k = &st.blocks[i]; (k.id, k.ptr, k.size, k.align) };
            let _ = writeln!(st.out, "O S {} {w} {id} {size} {align}", st.h);
            let old = Layout::from_size_align(osize, oalign).unwrap();
            let new = Layout::from_size_align(*size, *align).unwrap();
            let p = NonNull::new(ptr as *mut u8).unwrap();
            let before = scope.stats().allocated();
            let res = with_wrapper!(*w, scope, |a| unsafe { a.shrink(p, old, new) });
            st.epoch += 1;
            events_lines(st);
            match res {
                Ok(np) => {
                    let blk = st.blocks.remove(i);
                    let (nptr, nlen) = (np.as_ptr() as *mut u8 as usize, np.len());
                    let _ = writeln!(st.out, "R B {nptr} {nlen}");
                    mem_line(st, nptr, nlen);
                    let cur = unsafe { core::slice::from_raw_parts(nptr as *const u8, nlen) };
                    let keep = (*size).min(osize);
                    if cur[..keep] != blk.shadow[..keep] {
                        st.x("shrink-lost-contents", &format!("id={id} old_ptr={ptr} new_ptr={nptr} old_size={osize} new_size={size}"));
                    }
                    if nlen < *size {
                        st.x("block-smaller-than-requested", &format!("requested={size} got={nlen}"));
                    }
                    let after = scope.stats().allocated();
                    let shrink_off = !<S as bump_scope::settings::BumpAllocatorSettings>::SHRINKS || matches!(*w, 2 | 3 | 4);
                    if shrink_off && after < before {
                        st.x("shrink-decreased-allocated-although-shrinking-is-off", &format!("before={before} after={after} wrapper={w}"));
                    }
                    stats_line(st, scope);
                    monitors(st);
                    fill_new(st, scope, nptr, nlen, *align, None);
                }
                Err(_) => {
                    let _ = writeln!(st.out, "R E");
                    stats_line(st, scope);
                    monitors(st);
                }
            }
        }
        Op::Split { b, mid } => {
            let Some(i) = find(st, *b) else { return };
            let blk = st.blocks.remove(i);
            let mid = (*mid).min(blk.size);
            let rptr = blk.ptr + mid;
            // the alignment the owner of the second part can quote: the largest power of two, at most
            // the original alignment, that divides its address (a slice of T split at an element boundary)
            let mut ralign = blk.align;
            while rptr % ralign != 0 { ralign /= 2; }
            let _ = writeln!(st.out, "O SP {} {} {mid} {ralign}", st.h, blk.id);
            let _ = writeln!(st.out, "R U");
            let (l, r_) = blk.shadow.split_at(mid);
            let id = st.next_id;
            st.next_id += 2;
            st.blocks.push(Blk { id, ptr: blk.ptr, size: mid, align: blk.align, shadow: l.to_vec(), born: blk.born });
            st.blocks.push(Blk { id: id + 1, ptr: rptr, size: blk.size - mid, align: ralign, shadow: r_.to_vec(), born: blk.born });
            stats_line(st, scope);
            monitors(st);
        }
        Op::Checkpoint => {
            let _ = writeln!(st.out, "O CP {}", st.h);
            let cp = scope.checkpoint();
            st.epoch += 1;
            let id = st.next_cp;
            st.next_cp += 1;
            st.cp_store.push((id, st.epoch, cp));
            events_lines(st);
            let _ = writeln!(st.out, "R C {id}");
            stats_line(st, scope);
        }
        Op::ResetTo { cp } => {
            let Some(i) = st.cp_store.iter().position(|c| c.0 == *cp) else { return };
            let _ = writeln!(st.out, "O RT {} {cp}", st.h);
            let ep = st.cp_store[i].1;
            let before_chunks = scope.stats().count();
            let c = st.cp_store[i].2;
            unsafe { scope.reset_to(c) };
            st.epoch += 1;
            // checkpoints taken later are no longer valid; this one stays valid
            st.cp_store.truncate(i + 1);
            st.blocks.retain(|b| b.born < ep);
            events_lines(st);
            let _ = writeln!(st.out, "R U");
            if scope.stats().count() < before_chunks {
                st.x("scope-exit-released-a-chunk", "");
            }
            stats_line(st, scope);
            monitors(st);
        }
        Op::Reserve { n } => {
            let _ = writeln!(st.out, "O RV {} {n}", st.h);
            let res = scope.try_reserve(*n);
            st.epoch += 1;
            events_lines(st);
            match res {
                Ok(()) => {
                    let _ = writeln!(st.out, "R U");
                    if scope.stats().remaining() < *n {
                        st.x("reserve-did-not-provide-capacity", &format!("n={n} remaining={}", scope.stats().remaining()));
                    }
                }
                Err(_) => { let _ = writeln!(st.out, "R E"); }
            }
            stats_line(st, scope);
            monitors(st);
        }
        _ => {}
    }
}

pub fn try_err<A, S>(st: &mut St, scope: &mut BumpScope<'_, A, S>, fail: bool, mutable: bool, ty: u8)
where
    A: bump_scope::BaseAllocator<S::GuaranteedAllocated>,
    S: bump_scope::settings::BumpAllocatorSettings,
{
    flush(st);
    if fail {
        let _ = writeln!(st.out, "FAIL");
        with_pool(|p| p.fail_next = true);
    }
    let before_alloc = scope.stats().allocated();
    let before_pos = scope.stats().current_chunk().map(|c| c.bump_position().as_ptr() as usize);
    let before_count = scope.stats().count();
    macro_rules! go {
        ($t:ty) => {{
            let (sz, al) = (core::mem::size_of::<Result<$t, u32>>(), core::mem::align_of::<Result<$t, u32>>());
            let _ = writeln!(st.out, "O TW {} {} {sz} {al}", st.h, mutable as u8);
            let r: Result<Result<(), u32>, AllocError> = if mutable {
                scope.try_alloc_try_with_mut::<$t, u32>(|| Err(7)).map(|r| r.map(|_| ()))
            } else {
                scope.try_alloc_try_with::<$t, u32>(|| Err(7)).map(|r| r.map(|_| ()))
            };
            r
        }};
    }
    let r = match ty {
        0 => go!(u32),
        1 => go!([u64; 3]),
        2 => go!([u8; 100]),
        3 => go!([u8; 1000]),
        4 => go!([u64; 700]),
        _ => go!([u8; 40000]),
    };
    st.epoch += 1;
    events_lines(st);
    match r {
        Ok(Err(7)) => {
            let _ = writeln!(st.out, "R U");
            // C03: an Err from the closure leaves allocated bytes and position exactly as before
            let after_alloc = scope.stats().allocated();
            let after_pos = scope.stats().current_chunk().map(|c| c.bump_position().as_ptr() as usize);
            if before_pos.is_some() && (after_alloc != before_alloc || after_pos != before_pos) {
                st.x("scope-exit-did-not-restore-position", &format!("alloc_try_with{} returning Err: allocated {before_alloc} -> {after_alloc}, position {before_pos:?} -> {after_pos:?}", if mutable { "_mut" } else { "" }));
            }
            if scope.stats().count() < before_count {
                st.x("scope-exit-released-a-chunk", "");
            }
        }
        Ok(_) => { st.x("panic", "alloc_try_with returned Ok although the closure returned Err"); }
        Err(_) => { let _ = writeln!(st.out, "R E"); }
    }
    stats_line(st, scope);
    monitors(st);
}


pub fn guarded_exec<A, S>(st: &mut St, scope: &BumpScope<'_, A, S>, fail: bool, op: &Op)
where
    A: bump_scope::BaseAllocator<S::GuaranteedAllocated>,
    S: bump_scope::settings::BumpAllocatorSettings,
{
    let stp: *mut St = st;
    let r = catch_unwind(AssertUnwindSafe(|| exec(unsafe { &mut *stp }, scope, fail, op)));
    if r.is_err() {
        let msg = LAST_PANIC.with(|m| m.borrow().clone());
        st.x("panic", &msg.replace('\n', " "));
        st.dead = true;
        st.script = Some(Default::default());
        st.ops_left = 0;
    }
}

thread_local! { pub static LAST_PANIC: std::cell::RefCell<String> = const { std::cell::RefCell::new(String::new()) }; }

