//! Instrumented base allocator: controlled placement, over-granting, failure injection, ledger
//! with guard bytes and poisoning.  One pool per thread (the arena harness is single threaded).
use bump_scope::alloc::{AllocError, Allocator};
use core::alloc::Layout;
use core::ptr::NonNull;
use std::cell::RefCell;
use std::collections::BTreeMap;

use crate::Rng;

pub const GUARD: usize = 64;
const GUARD_BYTE: u8 = 0xA5;
const POISON: u8 = 0xDD;
const FRESH: u8 = 0xEE;

#[derive(Clone, Debug, PartialEq)]
pub enum Ev {
    /// addr == 0: refused
    Alloc { size: usize, align: usize, addr: usize, granted: usize },
    Dealloc { addr: usize, size: usize, align: usize },
}

pub struct LiveBlock {
    pub req: usize,
    pub align: usize,
    pub granted: usize,
    pub front_guard: bool,
    pub rear_guard: bool,
}

pub struct Pool {
    base: usize,
    len: usize,
    next: usize,
    pub rng: Rng,
    pub events: Vec<Ev>,
    pub fail_next: bool,
    pub live: BTreeMap<usize, LiveBlock>,
    pub released: Vec<(usize, usize)>,
    pub errors: Vec<String>,
    pub calls: u64,
    pub total_allocs: u64,
    pub total_deallocs: u64,
    last_end: usize,
    /// 0: exact, 1: small extra, 2: page extra, 3: mixed
    pub overgrant: u8,
}

impl Pool {
    fn new() -> Self {
        let len = 1usize << 28;
        let layout = Layout::from_size_align(len, 1 << 16).unwrap();
        let base = unsafe { std::alloc::alloc_zeroed(layout) } as usize;
        assert!(base != 0, "cannot reserve the pool region");
        Pool {
            base, len, next: 4096, rng: Rng::new(0), events: vec![], fail_next: false,
            live: BTreeMap::new(), released: vec![], errors: vec![], calls: 0, total_allocs: 0,
            total_deallocs: 0, last_end: 0, overgrant: 0,
        }
    }

    /// forget everything (between runs); memory is not reused within a run
    pub fn reset(&mut self, seed: u64, overgrant: u8) {
        // re-zero only what was touched
        unsafe { core::ptr::write_bytes(self.base as *mut u8, 0, self.next.min(self.len)) };
        self.next = 4096;
        self.rng = Rng::new(seed);
        self.events.clear();
        self.fail_next = false;
        self.live.clear();
        self.released.clear();
        self.errors.clear();
        self.calls = 0;
        self.total_allocs = 0;
        self.total_deallocs = 0;
        self.last_end = 0;
        self.overgrant = overgrant;
    }

    fn allocate(&mut self, layout: Layout) -> Result<NonNull<[u8]>, AllocError> {
        self.calls += 1;
        let (size, align) = (layout.size(), layout.align());
        if self.fail_next {
            self.fail_next = false;
            self.events.push(Ev::Alloc { size, align, addr: 0, granted: 0 });
            return Err(AllocError);
        }
        let extra = match self.overgrant {
            0 => 0,
            1 => self.rng.pick(&[0usize, 1, 8, 15, 16, 17, 31]),
            2 => self.rng.pick(&[0usize, 4096, 16, 100]),
            _ => self.rng.pick(&[0usize, 0, 1, 15, 16, 17, 48, 4096, 5000]),
        };
        let granted = size + extra;
        // adjacency: start exactly where the previous block ended (if alignment allows)
        let adjacent = self.last_end != 0 && self.rng.coin(1, 3) && self.last_end % align == 0;
        let start = if adjacent {
            self.last_end
        } else {
            let s = self.base + self.next + GUARD;
            let s = (s + align - 1) & !(align - 1);
            // vary the residue modulo larger alignments: skip 0..3 multiples of `align`
            s + align * (self.rng.below(4) as usize)
        };
        if start + granted + GUARD > self.base + self.len {
            self.events.push(Ev::Alloc { size, align, addr: 0, granted: 0 });
            return Err(AllocError);
        }
        unsafe {
            if adjacent {
                if let Some((_, prev)) = self.live.iter_mut().find(|(a, b)| **a + b.granted == start) {
                    prev.rear_guard = false;
                }
            } else {
                core::ptr::write_bytes((start - GUARD) as *mut u8, GUARD_BYTE, GUARD);
            }
            core::ptr::write_bytes(start as *mut u8, FRESH, granted);
            core::ptr::write_bytes((start + granted) as *mut u8, GUARD_BYTE, GUARD);
        }
        self.live.insert(start, LiveBlock { req: size, align, granted, front_guard: !adjacent, rear_guard: true });
        self.last_end = start + granted;
        self.next = start + granted + GUARD - self.base;
        self.total_allocs += 1;
        self.events.push(Ev::Alloc { size, align, addr: start, granted });
        let ptr = NonNull::new(start as *mut u8).unwrap();
        Ok(NonNull::slice_from_raw_parts(ptr, granted))
    }

    fn check_guards(&mut self, addr: usize, b: &LiveBlock) {
        unsafe {
            if b.front_guard {
                let g = core::slice::from_raw_parts((addr - GUARD) as *const u8, GUARD);
                if g.iter().any(|x| *x != GUARD_BYTE) {
                    self.errors.push(format!("write-before-block addr={addr}"));
                }
            }
            if b.rear_guard {
                let g = core::slice::from_raw_parts((addr + b.granted) as *const u8, GUARD);
                if g.iter().any(|x| *x != GUARD_BYTE) {
                    self.errors.push(format!("write-past-block addr={addr} granted={}", b.granted));
                }
            }
        }
    }

    fn deallocate(&mut self, ptr: NonNull<u8>, layout: Layout) {
        self.calls += 1;
        let addr = ptr.as_ptr() as usize;
        self.events.push(Ev::Dealloc { addr, size: layout.size(), align: layout.align() });
        match self.live.remove(&addr) {
            None => {
                if self.released.iter().any(|(a, _)| *a == addr) {
                    self.errors.push(format!("double-release addr={addr}"));
                } else {
                    self.errors.push(format!("release-of-unknown-block addr={addr}"));
                }
            }
            Some(b) => {
                if layout.align() != b.align {
                    self.errors.push(format!("release-with-different-alignment addr={addr} allocated_align={} released_align={}", b.align, layout.align()));
                }
                if layout.size() < b.req || layout.size() > b.granted {
                    self.errors.push(format!("release-size-does-not-fit addr={addr} requested={} granted={} released={}", b.req, b.granted, layout.size()));
                }
                self.check_guards(addr, &b);
                unsafe { core::ptr::write_bytes(addr as *mut u8, POISON, b.granted) };
                self.released.push((addr, b.granted));
                self.total_deallocs += 1;
            }
        }
    }

    /// end-of-run checks: guards of live blocks, poison of released blocks
    pub fn final_check(&mut self) {
        let addrs: Vec<usize> = self.live.keys().copied().collect();
        for a in addrs {
            let b = self.live.remove(&a).unwrap();
            self.check_guards(a, &b);
            self.live.insert(a, b);
        }
        for (a, n) in self.released.clone() {
            let s = unsafe { core::slice::from_raw_parts(a as *const u8, n) };
            if s.iter().any(|x| *x != POISON) {
                self.errors.push(format!("write-after-release addr={a}"));
            }
        }
    }

    pub fn owns(&self, addr: usize, len: usize) -> bool {
        self.live.range(..=addr).next_back().map_or(false, |(a, b)| addr >= *a && addr + len <= *a + b.granted)
    }
}

thread_local! {
    pub static POOL: RefCell<Pool> = RefCell::new(Pool::new());
}

pub fn with_pool<R>(f: impl FnOnce(&mut Pool) -> R) -> R {
    POOL.with(|p| f(&mut p.borrow_mut()))
}

/// Base allocator handle whose value layout is that of `P` (changes the chunk header layout).
#[derive(Clone, Default, Debug)]
pub struct TA<P: Clone + Default>(pub P);

unsafe impl<P: Clone + Default> Allocator for TA<P> {
    fn allocate(&self, layout: Layout) -> Result<NonNull<[u8]>, AllocError> {
        with_pool(|p| p.allocate(layout))
    }
    unsafe fn deallocate(&self, ptr: NonNull<u8>, layout: Layout) {
        with_pool(|p| p.deallocate(ptr, layout))
    }
}

#[derive(Clone, Copy, Default, Debug)]
#[repr(align(32))]
pub struct P32(pub u8);
#[derive(Clone, Copy, Debug)]
#[repr(align(64))]
pub struct P64(pub [u8; 64]);
impl Default for P64 {
    fn default() -> Self {
        P64([0; 64])
    }
}
