#!/usr/bin/env python3
"""splitsites.py — the window arithmetic of FixedBumpVec::split_off (src/fixed_bump_vec.rs; BumpVec::split_off wraps it),
cut out branch by branch: for each of the four branches (range reaches the end / range starts at 0 / head shorter than
tail / otherwise) the offset of the right-hand part, both lengths, both capacities, which part `self` keeps, and the
rotation that moves the range — as integer functions of the Rust subset of tools/rs2v.py plus boolean shape facts.
coq/SplitRefine.v proves them equal to SplitCap.split_off_windows / split_off_buffer.  Usage: splitsites.py <repo> <out.rs> <facts.v>"""
import re, sys, os

class Bad(Exception):
    pass

def strip_comments(s):
    s = re.sub(r'//[^\n]*', '', s)
    return re.sub(r'/\*.*?\*/', '', s, flags=re.S)

def close(src, i):
    depth = 0
    for j in range(i, len(src)):
        if src[j] == '{': depth += 1
        elif src[j] == '}':
            depth -= 1
            if depth == 0: return j
    raise Bad('unbalanced braces')

def block_after(src, pat, what):
    m = re.search(pat, src)
    if not m: raise Bad('%s: `%s` not found' % (what, pat))
    i = src.index('{', m.end() - 1)
    j = close(src, i)
    return src[i + 1:j], j

def let(text, name, what):
    ms = re.findall(r'\blet\s+%s\s*=\s*([^;]+);' % name, text)
    if len(ms) != 1: raise Bad('%s: expected one `let %s`, found %d' % (what, name, len(ms)))
    e = ' '.join(ms[0].split())
    e = e.replace('self.capacity', 'cap')
    m = re.fullmatch(r'ptr\.add\((\w+)\)', e)
    if m: e = m.group(1)
    if e == 'ptr': e = '0'
    if not re.fullmatch(r'[a-z_0-9 +\-]+', e): raise Bad('%s: unsupported expression for %s: %s' % (what, name, e))
    return e

def main():
    repo, out_rs, out_v = sys.argv[1], sys.argv[2], sys.argv[3]
    try:
        src = strip_comments(open(os.path.join(repo, 'src/fixed_bump_vec.rs')).read())
        m = re.search(r'pub fn split_off\(&mut self, range: impl RangeBounds<usize>\) -> Self \{', src)
        if not m: raise Bad('split_off not found')
        i = src.index('{', m.end() - 1); body = src[i + 1:close(src, i)]
        k = body.index('if end == len')
        body = body[k:]
        b1, e1 = block_after(body, r'if end == len \{', 'branch end == len')
        rest = body[e1 + 1:]
        b2, e2 = block_after(rest, r'if start == 0 \{', 'branch start == 0')
        rest = rest[e2 + 1:]
        b3, e3 = block_after(rest, r'if start == end \{', 'branch start == end')
        if ' '.join(b3.split()) != 'return FixedBumpVec::new();': raise Bad('the empty interior range does not return a fresh empty vector')
        rest = rest[e3 + 1:]
        pre = rest[:rest.index('if head_len < tail_len')]
        defs = {}
        for nm in ('head_len', 'tail_len', 'range_len', 'remaining_len'):
            defs[nm] = let(pre, nm, 'interior range')
        b4, e4 = block_after(rest, r'if head_len < tail_len \{', 'branch head < tail')
        m2 = re.match(r'\s*else\s*\{', rest[e4 + 1:])
        if not m2: raise Bad('no else branch after head_len < tail_len')
        k5 = e4 + 1 + m2.end() - 1
        b5 = rest[k5 + 1:close(rest, k5)]
        funs = []; facts = {}
        params = {'start': 1, 'end': 1, 'len': 1, 'cap': 1, 'range_len': 1, 'remaining_len': 1}
        def emit(tag, blk, rot):
            for nm in ('rhs', 'lhs_len', 'rhs_len', 'lhs_cap', 'rhs_cap'):
                e = let(blk, nm, 'split_off ' + tag)
                # inline the interior-range definitions
                for d in ('range_len', 'remaining_len', 'head_len', 'tail_len'):
                    e = re.sub(r'\b%s\b' % d, '(%s)' % defs[d], e) if d in defs else e
                e = re.sub(r'\blhs_cap\b', '(%s)' % ' '.join(let(blk, 'lhs_cap', tag).split()), e) if nm == 'rhs_cap' else e
                for _ in range(4):
                    for d in ('remaining_len', 'range_len', 'head_len', 'tail_len'):
                        e = re.sub(r'\b%s\b' % d, '(%s)' % defs[d], e)
                vs = [v for v in ('start', 'end', 'len', 'cap') if re.search(r'\b%s\b' % v, e)]
                funs.append('pub fn so_%s_%s(%s) -> usize { %s }\n' % (tag, 'rhs_off' if nm == 'rhs' else nm, ', '.join(v + ': usize' for v in vs), e))
            if let(blk, 'lhs', 'split_off ' + tag) != '0': raise Bad('%s: lhs is not the buffer start' % tag)
            keep = re.findall(r'self\.set_ptr\((lhs|rhs)\); self\.set_len\((lhs|rhs)_len\); self\.set_cap\((lhs|rhs)_cap\);', ' '.join(blk.split()))
            if len(keep) != 1 or len(set(keep[0])) != 1: raise Bad('%s: self does not keep one consistent part' % tag)
            kept = keep[0][0]; other = 'rhs' if kept == 'lhs' else 'lhs'
            ret = re.search(r'initialized: BumpBox::from_raw\(NonNull::slice_from_raw_parts\((lhs|rhs), (lhs|rhs)_len\)\), capacity: (lhs|rhs)_cap,', ' '.join(blk.split()))
            if not ret or set(ret.groups()) != {other}: raise Bad('%s: the returned vector is not the other part' % tag)
            facts['so_%s_self_keeps_lhs' % tag] = (kept == 'lhs')
            r = re.findall(r'self\.as_mut_slice\(\)\.get_unchecked_mut\(([^)]*)\)\.(rotate_left|rotate_right)\((\w+)\)', blk)
            facts['so_%s_rotation_ok' % tag] = (r == rot)
        emit('tail', b1, [])
        emit('front', b2, [])
        emit('headshort', b4, [('..end', 'rotate_right', 'range_len')])
        emit('taillong', b5, [('start..', 'rotate_left', 'range_len')])
        facts['so_interior_defs_ok'] = (defs == {'head_len': 'start', 'tail_len': 'len - end', 'range_len': 'end - start', 'remaining_len': 'len - range_len'})
    except (Bad, ValueError) as ex:
        print('splitsites: unsupported: %s' % ex)
        sys.exit(2)
    text = '// GENERATED by tools/splitsites.py from src/fixed_bump_vec.rs - do not edit\n\n' + '\n'.join(funs)
    old = open(out_rs).read() if os.path.exists(out_rs) else None
    if old != text:
        os.makedirs(os.path.dirname(out_rs), exist_ok=True); open(out_rs, 'w').write(text)
    L = ['(* GENERATED by tools/splitsites.py from src/fixed_bump_vec.rs on every run — do not edit *)', 'From Coq Require Import Bool.', '']
    for k in facts: L.append('Definition %s : bool := %s.' % (k, 'true' if facts[k] else 'false'))
    vt = '\n'.join(L) + '\n'
    oldv = open(out_v).read() if os.path.exists(out_v) else None
    if oldv != vt: open(out_v, 'w').write(vt)
    print('splitsites: %d expressions, %d shape facts cut out of FixedBumpVec::split_off' % (len(funs), len(facts)))

if __name__ == '__main__':
    main()
