#!/usr/bin/env python3
"""C04 machinery: signature tables extracted from the current source (-> coq/gen/Tables.v) and the
corpus of safe Rust programs (escape attempts and their controls) judged by rustc."""
import json
import os
import re
import subprocess
import sys
from concurrent.futures import ThreadPoolExecutor

# ------------------------------------------------------------------------------------------
# signature tables (translator: Rust signatures -> coq/gen/Tables.v)
# ------------------------------------------------------------------------------------------
class Unsupported(Exception):
    pass


def strip_comments(t):
    t = re.sub(r'//[^\n]*', '', t)
    return re.sub(r'/\*.*?\*/', '', t, flags=re.S)


FN_RE = re.compile(r'\bfn\s+(\w+)\s*(<[^(]*?>)?\s*\(([^)]*(?:\([^)]*\)[^)]*)*)\)\s*(?:->\s*([^{;]+?))?\s*(?:where\b[^{;]*)?[{;]', re.S)
IMPL_RE = re.compile(r'^(?:unsafe\s+)?impl\s*(<[^{]*?>)?\s*([^{]*?)\{', re.M | re.S)


def fns(text):
    """[(name, receiver, params, ret, pos)]"""
    out = []
    for m in FN_RE.finditer(text):
        params = ' '.join(m.group(3).split())
        recv = 'none'
        first = params.split(',')[0].strip()
        if first in ('&self', "&'_ self"):
            recv = 'shared'
        elif first in ('&mut self', 'mut self', 'self'):
            recv = 'mut' if first == '&mut self' else 'value'
        out.append((m.group(1), recv, params, ' '.join((m.group(4) or '').split()), m.start()))
    return out


def impl_at(text, pos):
    """header (generics, rest) of the impl block that contains pos (nearest preceding column-0 impl)"""
    best = None
    for m in IMPL_RE.finditer(text):
        if m.start() <= pos:
            best = m
        else:
            break
    if best is None:
        return ('', '')
    return (' '.join((best.group(1) or '').split()), ' '.join(best.group(2).split()))


def lifetimes(ty):
    return set(re.findall(r"'(\w+)", ty))


def one_fn(text, name, impl_contains=None, recv=None):
    c = [f for f in fns(text) if f[0] == name and (impl_contains is None or impl_contains in impl_at(text, f[4])[1])
         and (recv is None or f[1] == recv)]
    if len(c) == 0:
        raise Unsupported('signature of fn %s (impl %s) not found' % (name, impl_contains))
    return c


def extract_tables(repo):
    """-> (facts: dict name -> bool, details: dict name -> str).  Raises Unsupported when the source no longer has the shape the
    translator understands."""
    rd = lambda f: strip_comments(open(os.path.join(repo, f)).read())
    facts, det = {}, {}

    def fact(name, ok, detail):
        facts[name] = bool(ok)
        det[name] = detail

    # (1) the unsafe marker trait: which lifetime each impl ties to its Self type
    t = rd('src/traits/bump_allocator_core_scope.rs')
    rows = re.findall(r"unsafe\s+impl\s*<([^{]*?)>\s*BumpAllocatorCoreScope<'(\w+)>\s+for\s+([^\n{]+?)\s*(?:where[^{]*)?\{", t, re.S)
    if not rows:
        raise Unsupported('no impl of BumpAllocatorCoreScope found')
    seen = set()
    for (gen, lt, selfty) in rows:
        gen = ' '.join(gen.split())
        selfty = ' '.join(selfty.split())
        base = re.sub(r"'\w+(\s*,)?\s*", '', selfty)    # the Self type with lifetimes erased
        if re.fullmatch(r'BumpScope<\s*A, S>', base):
            key, ok = 'impl_scope_tied', re.fullmatch(r"BumpScope<'%s, A, S>" % lt, selfty) is not None
        elif re.fullmatch(r'&Bump<A, S>', base):
            key, ok = 'impl_ref_bump_tied', re.fullmatch(r"&'%s Bump<A, S>" % lt, selfty) is not None
        elif re.fullmatch(r'&mut Bump<A, S>', base):
            key, ok = 'impl_mut_bump_tied', re.fullmatch(r"&'%s mut Bump<A, S>" % lt, selfty) is not None
        elif base in ('&B', '&mut B', 'WithoutDealloc<B>', 'WithoutShrink<B>'):
            key = {'&B': 'impl_ref_b_inherits', '&mut B': 'impl_mut_b_inherits', 'WithoutDealloc<B>': 'impl_without_dealloc_inherits',
                   'WithoutShrink<B>': 'impl_without_shrink_inherits'}[base]
            ok = re.search(r"B\s*:\s*BumpAllocatorCoreScope<'%s>" % lt, gen) is not None
        else:
            raise Unsupported('unclassified impl of the unsafe marker trait BumpAllocatorCoreScope for `%s`' % selfty)
        if key in seen:
            raise Unsupported('two impls of BumpAllocatorCoreScope for the same shape `%s`' % selfty)
        seen.add(key)
        fact(key, ok, "impl<%s> BumpAllocatorCoreScope<'%s> for %s" % (gen, lt, selfty))
    for k in ('impl_scope_tied', 'impl_ref_bump_tied', 'impl_mut_bump_tied', 'impl_ref_b_inherits', 'impl_mut_b_inherits',
              'impl_without_dealloc_inherits', 'impl_without_shrink_inherits'):
        if k not in facts:
            raise Unsupported('expected impl of BumpAllocatorCoreScope missing: ' + k)

    # (2) result lifetimes of the allocation methods
    tb, ts, tm = rd('src/bump.rs'), rd('src/bump_scope.rs'), rd('src/traits/macros.rs')
    m = re.search(r"forward_methods!\s*\{.{0,200}?lifetime:\s*('\w+)", tb, re.S)
    if not m:
        raise Unsupported('forward_methods! invocation in bump.rs not found')
    as_scope = one_fn(tb, 'as_scope')[0]
    fact('bump_methods_tied_to_borrow', m.group(1) == "'_" and as_scope[1] == 'shared' and lifetimes(as_scope[3]) <= {'_'},
         "bump.rs forward_methods!{lifetime: %s}; fn as_scope(%s) -> %s" % (m.group(1), as_scope[2], as_scope[3]))
    m = re.search(r"forward_methods!\s*\{.{0,200}?lifetime:\s*('\w+)", ts, re.S)
    if not m:
        raise Unsupported('forward_methods! invocation in bump_scope.rs not found')
    hdr = impl_at(ts, m.start())
    scope_lt = re.search(r"BumpScope<'(\w+)", hdr[1])
    # every forwarded / trait method returns values of the scope lifetime only
    bad = []
    for (name, recv, params, ret, pos) in fns(tm):
        lts = lifetimes(ret)
        if '$lifetime' in ret:
            lts = lts - set()
        if lts - {'_'}:
            bad.append('%s -> %s' % (name, ret))
    tt = rd('src/traits/bump_allocator_typed_scope.rs') + rd('src/traits/mut_bump_allocator_typed_scope.rs') + rd('src/traits/bump_allocator_scope.rs')
    for (name, recv, params, ret, pos) in fns(tt):
        if lifetimes(ret) - {'a', '_'}:
            bad.append('%s -> %s' % (name, ret))
        if "'static" in ret:
            bad.append('%s -> %s' % (name, ret))
    fact('scope_methods_tied_to_scope', scope_lt is not None and m.group(1) == "'" + scope_lt.group(1) and not bad,
         "bump_scope.rs forward_methods!{lifetime: %s} in impl %s; offending result types: %s" % (m.group(1), hdr[1], bad[:3]))

    # (3) receivers of everything that lets memory be handed out again
    def recv_is(text, name, want, impl_contains=None, key=None, retcheck=None):
        c = one_fn(text, name, impl_contains)
        ok = all(f[1] == want for f in c) and (retcheck is None or all(retcheck(f[3]) for f in c))
        fact(key or name, ok, '; '.join('fn %s(%s) -> %s' % (f[0], f[2], f[3]) for f in c))
    recv_is(tb, 'reset', 'mut', key='bump_reset_mut')
    recv_is(tb, 'reset_to_start', 'mut', key='bump_reset_to_start_mut')
    tg = rd('src/bump_scope_guard.rs')
    recv_is(tg, 'reset', 'mut', key='guard_reset_mut')
    recv_is(tg, 'scope', 'mut', key='guard_scope_mut_and_borrowed', retcheck=lambda r: lifetimes(r) <= {'_'} and 'BumpScope' in r)
    ta = rd('src/traits/bump_allocator.rs')
    recv_is(ta, 'scope_guard', 'mut', key='scope_guard_mut_and_borrowed', retcheck=lambda r: lifetimes(r) <= {'_'} and 'BumpScopeGuard' in r)
    sc = one_fn(ta, 'scoped') + one_fn(ta, 'scoped_aligned')
    hr = all(f[1] == 'mut' and re.search(r"FnOnce\(\s*&mut\s+BumpScope<\s*(?:'_\s*,)?\s*Self::Allocator", f[2]) is not None and not (lifetimes(f[2]) - {'_'}) for f in sc)
    fact('scoped_mut_and_higher_ranked', hr, '; '.join('fn %s(%s)' % (f[0], f[2][:120]) for f in sc))
    tp = rd('src/bump_pool.rs')
    recv_is(tp, 'reset', 'mut', key='pool_reset_mut')
    recv_is(tp, 'reset_to_start', 'mut', key='pool_reset_to_start_mut')
    recv_is(tp, 'bumps', 'mut', key='pool_bumps_mut')
    g = one_fn(tp, 'get') + one_fn(tp, 'try_get') + one_fn(tp, 'get_with_size') + one_fn(tp, 'try_get_with_size') + one_fn(tp, 'get_with_capacity') + one_fn(tp, 'try_get_with_capacity')
    dm = re.search(r"impl<'(\w+), A, S> Deref for BumpPoolGuard<'(\w+), A, S>.*?type Target = BumpScope<'(\w+), A, S>;", tp, re.S)
    fld = re.search(r"pool:\s*&'(\w+)\s+BumpPool<A, S>", tp)
    fact('pool_guard_scope_is_pool_borrow',
         all(f[1] == 'shared' and 'BumpPoolGuard<\'_' in f[3] for f in g) and dm is not None and dm.group(1) == dm.group(2) == dm.group(3) and fld is not None,
         'get*(&self) -> %s; Deref Target %s' % (sorted(set(f[3] for f in g)), dm.group(0)[-40:] if dm else None))
    tc = rd('src/bump_claim_guard.rs')
    tsc = rd('src/traits/bump_allocator_scope.rs')
    cl = one_fn(tsc, 'claim')
    dm = re.search(r"impl<(?:'\w+, )?'(\w+), A, S> Deref for BumpClaimGuard<'\w+, '(\w+), A, S>.*?type Target = BumpScope<'(\w+), A, S>;", tc, re.S)
    fact('claim_guard_scope_is_original_scope',
         all(f[1] == 'shared' and re.search(r"BumpClaimGuard<'_, 'a,", f[3]) for f in cl) and dm is not None and dm.group(1) == dm.group(2) == dm.group(3),
         'claim: %s' % sorted(set(f[3] for f in cl)))
    # collections: finalisers return the scope lifetime of their allocator
    okc, dc = True, []
    for f_, names in (('src/bump_vec.rs', ['into_slice', 'into_boxed_slice']), ('src/bump_string.rs', ['into_str', 'into_boxed_str', 'into_cstr']),
                      ('src/mut_bump_vec.rs', ['into_slice', 'into_boxed_slice']), ('src/mut_bump_string.rs', ['into_str', 'into_boxed_str', 'into_cstr']),
                      ('src/mut_bump_vec_rev.rs', ['into_slice', 'into_boxed_slice'])):
        tx = rd(f_)
        for n in names:
            for f in one_fn(tx, n):
                hdr = impl_at(tx, f[4])
                bound = re.search(r"A:\s*(?:Mut)?BumpAllocator\w*Scope<'(\w+)>", hdr[0] + ' ' + hdr[1])
                good = f[1] == 'value' and bound is not None and lifetimes(f[3]) == {bound.group(1)}
                okc = okc and good
                if not good:
                    dc.append('%s: fn %s(%s) -> %s in impl%s %s' % (f_, n, f[2], f[3], hdr[0], hdr[1][:80]))
    fact('collection_finalisers_tied_to_scope', okc, '; '.join(dc) or 'all into_* return the lifetime of their allocator bound')
    # conversions between owned parts and collections (from_parts / into_parts / from_init / from_uninit / into_* ...):
    # every arena-pointing type in the signature carries the lifetime of the impl block, never an elided or fresh one
    okp, dp = True, []
    for f_ in ('src/bump_vec.rs', 'src/bump_string.rs', 'src/mut_bump_vec.rs', 'src/mut_bump_string.rs', 'src/mut_bump_vec_rev.rs',
               'src/fixed_bump_vec.rs', 'src/fixed_bump_string.rs'):
        tx = rd(f_)
        for (name, recv, params, ret, pos) in fns(tx):
            if not re.match(r'(from_parts|into_parts|from_init|from_uninit|into_vec|into_string|into_fixed_vec|into_fixed_string|into_boxed_slice|into_boxed_str)$', name):
                continue
            pre = tx[max(0, pos - 30):pos]
            if re.search(r'unsafe\s*$', pre):
                continue
            hdr = impl_at(tx, pos)
            m = re.search(r"'(\w+)", hdr[0]) or re.search(r"'(\w+)", hdr[1])
            if not m:
                continue
            lt = m.group(1)
            sig = params + ' -> ' + ret
            for ty in re.findall(r"(?:FixedBumpVec|FixedBumpString|BumpBox)<\s*('\w+)?", sig):
                if ty != "'" + lt:
                    okp = False
                    dp.append('%s: fn %s(%s) -> %s  (impl lifetime %s)' % (f_, name, params, ret, lt))
    # BumpBox: whatever a box turns into (into_ref / into_mut / leak / into_boxed_* / split_* ...) carries the lifetime of
    # the box: no function-level lifetime parameter, no other named lifetime, no 'static in a result type
    tbx = rd('src/bump_box.rs')
    okb, db = True, []
    nbox = 0
    for m_ in FN_RE.finditer(tbx):
        name, gen, params, ret = m_.group(1), (m_.group(2) or ''), ' '.join(m_.group(3).split()), ' '.join((m_.group(4) or '').split())
        first = params.split(',')[0].strip()
        takes_box = first in ('self', 'mut self') or re.match(r'(mut\s+)?\w+\s*:\s*Self$', first)
        if not takes_box or not re.search(r"&|BumpBox|FixedBumpVec|FixedBumpString", ret):
            continue
        hdr = impl_at(tbx, m_.start())
        if 'BumpBox<' not in hdr[1]:
            continue
        lm = re.search(r"BumpBox<\s*'(\w+)", hdr[1])
        if not lm:
            continue
        nbox += 1
        own = set(re.findall(r"'(\w+)", gen))
        lts = lifetimes(ret)
        if (lts & own) or (lts - {lm.group(1), '_'}) or "'static" in ret:
            okb = False
            db.append("fn %s%s(%s) -> %s in impl %s" % (name, gen, params, ret, hdr[1][:60]))
    if nbox < 3:
        raise Unsupported('the conversions of BumpBox (into_ref / into_mut / leak ...) were not found')
    fact('box_conversions_tied_to_box', okb, '; '.join(db[:3]) or '%d consuming conversions of BumpBox return the lifetime of the box' % nbox)
    fact('conversions_keep_the_lifetime_of_their_parts', okp, '; '.join(dp[:3]) or 'from_parts / into_parts / from_init / from_uninit / into_* carry the impl lifetime')

    # (4) Send / Sync
    snd = re.findall(r"unsafe\s+impl\s*<([^>]*)>\s*(Send|Sync)\s+for\s+(Bump|BumpScope|BumpPool|BumpPoolGuard|BumpScopeGuard|BumpClaimGuard)\b[^{]*?(where[^{]*)?\{", tb + ts + tp + tg + tc, re.S)
    oks = all(k == 'Send' and ty == 'Bump' and re.search(r'A\s*:\s*Send', (gen or '') + ' ' + (wh or '')) for (gen, k, ty, wh) in snd)
    fact('send_only_with_send_allocator_and_never_sync', oks and len(snd) >= 1, '; '.join('%s for %s where %s' % (k, ty, ' '.join((wh or gen).split())) for (gen, k, ty, wh) in snd))

    # (5) settings conversions: the const assertions
    tr = rd('src/raw_bump.rs')
    conv = {}
    for fn in ('ensure_satisfies_settings', 'ensure_scope_satisfies_settings', 'ensure_satisfies_settings_for_borrow', 'ensure_satisfies_settings_for_borrow_mut'):
        m = re.search(r'fn\s+%s<NewS>.*?const\s*\{(.*?)\n        \}' % fn, tr, re.S)
        if not m:
            raise Unsupported('const assertions of %s not found' % fn)
        conds = []
        for a in re.findall(r'assert!\(\s*(NewS::\w+)\s*(==|>=|<=)\s*(S::\w+)', m.group(1)):
            conds.append((a[0].split('::')[1], a[1]))
        n_asserts = len(re.findall(r'assert!\(', m.group(1)))
        if n_asserts != len(conds):
            raise Unsupported('an assertion in %s has a shape the translator does not know' % fn)
        conv[fn] = conds
    # which public conversion uses which check
    uses = {}
    for (f_, fnname) in (('src/bump.rs', 'with_settings'), ('src/bump.rs', 'borrow_with_settings'), ('src/bump.rs', 'borrow_mut_with_settings'),
                         ('src/bump_scope.rs', 'with_settings'), ('src/bump_scope.rs', 'borrow_with_settings'), ('src/bump_scope.rs', 'borrow_mut_with_settings')):
        tx = rd(f_)
        m = re.search(r'pub fn %s<NewS>\([^)]*\)[^{]*\{(.*?)\n    \}' % fnname, tx, re.S)
        if not m:
            raise Unsupported('%s::%s not found' % (f_, fnname))
        e = re.findall(r'(ensure_\w+)::<NewS>', m.group(1))
        if len(e) != 1:
            raise Unsupported('%s::%s does not call exactly one settings check' % (f_, fnname))
        uses[(os.path.basename(f_)[:-3], fnname)] = e[0]
    return facts, det, conv, uses


FIELD = {'UP': 's_up', 'MIN_ALIGN': 's_min_align', 'CLAIMABLE': 's_claimable', 'GUARANTEED_ALLOCATED': 's_guaranteed'}


def tables_v(facts, det, conv, uses):
    b = lambda x: 'true' if x else 'false'
    f = facts
    L = []
    L.append('(* GENERATED by tools/c04.py from the signatures in /repo/src on every run — do not edit. *)')
    L.append('From Coq Require Import Bool Arith List.')
    L.append('From BS Require Import Regions Conv.')
    L.append('Import ListNotations.')
    L.append('')
    for k in sorted(facts):
        L.append('(* %s: %s *)' % (k, det[k].replace('(*', '( *').replace('*)', '* )')[:300]))
        L.append('Definition %s : bool := %s.' % (k, b(facts[k])))
    L.append('')
    L.append('Definition tied (b : bool) : lclass := if b then LTied else LFree.')
    L.append('Definition mutr (b : bool) : recv := if b then RMut else RShared.')
    L.append('Definition tables : Regions.tables := mkTables')
    L.append('  (fun p => match p with')
    L.append('   | PBump => tied bump_methods_tied_to_borrow')
    L.append('   | PScope => tied scope_methods_tied_to_scope')
    L.append('   | PTraitRefBump => tied (impl_ref_bump_tied && impl_ref_b_inherits)')
    L.append('   | PTraitMutBump => tied (impl_mut_bump_tied && impl_mut_b_inherits)')
    L.append('   | PTraitScope => tied (impl_scope_tied && impl_ref_b_inherits && impl_mut_b_inherits)')
    L.append('   | PTraitWrapped => tied (impl_without_dealloc_inherits && impl_without_shrink_inherits && impl_ref_bump_tied && impl_mut_bump_tied && impl_scope_tied)')
    L.append('   | PGuardScope => tied (guard_scope_mut_and_borrowed && scope_methods_tied_to_scope)')
    L.append('   | PPoolGuard => tied (pool_guard_scope_is_pool_borrow && scope_methods_tied_to_scope)')
    L.append('   | PClaim => tied (claim_guard_scope_is_original_scope && scope_methods_tied_to_scope)')
    L.append('   | PCollection => tied (collection_finalisers_tied_to_scope && conversions_keep_the_lifetime_of_their_parts && box_conversions_tied_to_box)')
    L.append('   end)')
    L.append('  (fun w => match w with')
    L.append('   | WReset => mutr bump_reset_mut')
    L.append('   | WResetToStart => mutr bump_reset_to_start_mut')
    L.append('   | WGuardReset => mutr guard_reset_mut')
    L.append('   | WSecondScope => mutr (guard_scope_mut_and_borrowed && scoped_mut_and_higher_ranked && scope_guard_mut_and_borrowed)')
    L.append('   | WPoolReset => mutr (pool_reset_mut && pool_reset_to_start_mut && pool_bumps_mut)')
    L.append('   | WDrop => RMut')
    L.append('   end)')
    L.append('  scoped_mut_and_higher_ranked scope_guard_mut_and_borrowed.')
    L.append('')
    for fn, conds in conv.items():
        terms = []
        for (fld, op) in conds:
            if fld not in FIELD:
                raise Unsupported('unknown settings constant %s' % fld)
            a, c = '(%s n)' % FIELD[fld], '(%s s)' % FIELD[fld]
            if fld == 'MIN_ALIGN':
                terms.append({'==': '(%s =? %s)' % (a, c), '>=': '(%s <=? %s)' % (c, a), '<=': '(%s <=? %s)' % (a, c)}[op])
            else:
                terms.append({'==': '(Bool.eqb %s %s)' % (a, c), '<=': '(implb %s %s)' % (a, c), '>=': '(implb %s %s)' % (c, a)}[op])
        L.append('Definition %s (s n : settings) : bool := %s.' % (fn, ' && '.join(terms) if terms else 'true'))
    for (ty, m), e in sorted(uses.items()):
        L.append('Definition %s_%s := %s.' % (ty, m, e))
    L.append('')
    return '\n'.join(L)


def write_tables(repo, outdir):
    try:
        facts, det, conv, uses = extract_tables(repo)
        txt = tables_v(facts, det, conv, uses)
    except (Unsupported, OSError) as e:
        # keep the build graph intact but make every theorem about the tables fail to check
        txt = '(* GENERATED: the signature translator could not read the current source: %s *)\n' % str(e).replace('*)', '* )')
        path = os.path.join(outdir, 'Tables.v')
        if not os.path.exists(path) or open(path).read() != txt:
            with open(path, 'w') as f:
                f.write(txt)
        raise
    path = os.path.join(outdir, 'Tables.v')
    old = open(path).read() if os.path.exists(path) else None
    if old != txt:
        with open(path, 'w') as f:
            f.write(txt)
    return facts, det, ('Tables.v unchanged' if old == txt else 'Tables.v written') + ' (%d signature facts, %d conversion checks)' % (len(facts), len(conv))


# ------------------------------------------------------------------------------------------
# corpus
# ------------------------------------------------------------------------------------------
PRELUDE = """#![allow(unused, dead_code)]
use bump_scope::{Bump, BumpScope, BumpBox, BumpVec, BumpString, MutBumpVec, MutBumpString, BumpPool, FixedBumpVec, WithoutDealloc, WithoutShrink};
use bump_scope::alloc::Global;
use bump_scope::traits::*;
fn consume<T: ?Sized>(_t: &T) {}
"""

# producers: (name, expression template over handle `H` (a place expression of the handle type), abstract producer by handle kind)
# every expression yields a value that points into arena memory
PRODUCERS = [
    ('alloc', '@H@.alloc(5u64)'),
    ('alloc_str', '@H@.alloc_str("text")'),
    ('alloc_slice_copy', '@H@.alloc_slice_copy(&[1u32, 2, 3])'),
    ('alloc_iter', '@H@.alloc_iter(0..3u8)'),
    ('alloc_fmt', '@H@.alloc_fmt(format_args!("{}", 7))'),
    ('alloc_cstr', '@H@.alloc_cstr(c"text")'),
    ('alloc_uninit', '@H@.alloc_uninit::<u64>()'),
    ('vec_into_slice', '{ let mut v = BumpVec::new_in(&*@R@); v.push(1u8); v.into_slice() }'),
    ('vec_into_boxed_slice', '{ let mut v = BumpVec::new_in(&*@R@); v.push(1u8); v.into_boxed_slice() }'),
    ('string_into_boxed_str', '{ let mut s = BumpString::new_in(&*@R@); s.push(\'x\'); s.into_boxed_str() }'),
    ('box_into_ref', '@H@.alloc(5u64).into_ref()'),
    ('box_into_mut', '@H@.alloc(5u64).into_mut()'),
    ('box_into_leaked', 'BumpBox::leak(@H@.alloc(5u64))'),
    ('stats', '@H@.stats()'),
    ('allocator', '@H@.allocator()'),
]
MUT_PRODUCERS = [
    ('alloc_iter_mut', '@H@.alloc_iter_mut(0..3u8)'),
    ('alloc_fmt_mut', '@H@.alloc_fmt_mut(format_args!("{}", 7))'),
    ('mut_vec_into_slice', '{ let mut v = MutBumpVec::new_in(&mut *@M@); v.push(1u8); v.into_slice() }'),
    ('mut_string_into_str', '{ let mut s = MutBumpString::new_in(&mut *@M@); s.push(\'x\'); s.into_str() }'),
]


def inst(pe, place, is_ref):
    """instantiate a producer on a handle: `place` is a place expression; is_ref = it already is a reference"""
    r = place if is_ref else '(&' + place + ')'
    m = place if is_ref else '(&mut ' + place + ')'
    return pe.replace('@H@', place).replace('@R@', r).replace('@M@', m)


def prog(body):
    return PRELUDE + 'fn main() {\n' + body + '\n}\n'


def corpus():
    """list of dict(name, src, abstract=[cmd...], kind='escape'|'control', link=bool)"""
    out = []

    def add(name, body, abstract, kind, link=False, extra=''):
        out.append({'name': name, 'src': PRELUDE + extra + 'fn main() {\n' + body + '\n}\n', 'abstract': abstract, 'kind': kind, 'link': link,
                    'body': body, 'extra': extra})

    allp = [(n, e, False) for (n, e) in PRODUCERS] + [(n, e, True) for (n, e) in MUT_PRODUCERS]
    for (pn, pe, needs_mut) in allp:
        # ---- handle: a Bump; rewinders reset / reset_to_start / drop / scoped / scope_guard
        e = inst(pe, 'bump', False)
        for (wn, wcode, w) in [('reset', 'bump.reset();', 'WReset'), ('reset_to_start', 'bump.reset_to_start();', 'WResetToStart'),
                               ('drop', 'drop(bump);', 'WDrop'),
                               ('scoped', 'bump.scoped(|s| { s.alloc(1u8); });', 'WSecondScope'),
                               ('scope_guard', '{ let mut g = bump.scope_guard(); g.scope().alloc(1u8); }', 'WSecondScope')]:
            add(f'bump.{pn}.{wn}.escape', f'    let mut bump: Bump = Bump::new();\n    let x = {e};\n    {wcode}\n    consume(&x);',
                [('Alloc', 0, 'PBump' if 'into_' not in pn else 'PCollection'), ('Rewind', w), ('Use', 0)], 'escape')
            add(f'bump.{pn}.{wn}.control', f'    let mut bump: Bump = Bump::new();\n    {{ let x = {e};\n    consume(&x); }}\n    {wcode}',
                [('Alloc', 0, 'PBump' if 'into_' not in pn else 'PCollection'), ('Use', 0), ('Rewind', w)], 'control')
        # ---- handle: the scope passed to scoped(); escape by return and by outer variable
        es = inst(pe, 'scope', True)
        add(f'scoped.{pn}.return.escape', f'    let mut bump: Bump = Bump::new();\n    let x = bump.scoped(|scope| {es});\n    consume(&x);',
            [('Enter',), ('Alloc', 0, 'PScope' if 'into_' not in pn else 'PCollection'), ('Exit',), ('Use', 0)], 'escape')
        add(f'scoped.{pn}.outer.escape', f'    let mut bump: Bump = Bump::new();\n    let mut out = None;\n    bump.scoped(|scope| {{ out = Some({es}); }});\n    consume(&out);',
            [('Enter',), ('Alloc', 0, 'PScope' if 'into_' not in pn else 'PCollection'), ('Exit',), ('Use', 0)], 'escape')
        add(f'scoped.{pn}.control', f'    let mut bump: Bump = Bump::new();\n    bump.scoped(|scope| {{ let x = {es}; consume(&x); }});',
            [('Enter',), ('Alloc', 0, 'PScope' if 'into_' not in pn else 'PCollection'), ('Use', 0), ('Exit',)], 'control')
        # ---- handle: scope of a scope guard; rewinders guard drop / guard.reset() / second scope()
        for (wn, wcode, cmds) in [('guard_drop', 'drop(guard);', [('Exit',)]),
                                  ('guard_reset', 'guard.reset();', [('Rewind', 'WGuardReset')]),
                                  ('second_scope', 'let scope2 = guard.scope(); scope2.alloc(1u8);', [('Rewind', 'WSecondScope')])]:
            add(f'guard.{pn}.{wn}.escape', f'    let mut bump: Bump = Bump::new();\n    let mut guard = bump.scope_guard();\n    let scope = guard.scope();\n    let x = {es};\n    {wcode}\n    consume(&x);',
                [('Enter',), ('Alloc', 0, 'PGuardScope' if 'into_' not in pn else 'PCollection')] + cmds + [('Use', 0)], 'escape')
            add(f'guard.{pn}.{wn}.control', f'    let mut bump: Bump = Bump::new();\n    let mut guard = bump.scope_guard();\n    {{ let scope = guard.scope();\n    let x = {es};\n    consume(&x); }}\n    {wcode}',
                [('Enter',), ('Alloc', 0, 'PGuardScope' if 'into_' not in pn else 'PCollection'), ('Use', 0)] + cmds, 'control')
        # ---- handle: pool guard; the guard's drop does NOT end the allocation, pool reset / drop do
        ep = inst(pe, '(*g)', False)
        for (wn, wcode, w) in [('pool_reset', 'pool.reset();', 'WPoolReset'), ('pool_drop', 'drop(pool);', 'WDrop')]:
            add(f'pool.{pn}.{wn}.escape', f'    let mut pool: BumpPool = BumpPool::new();\n    let mut g = pool.get();\n    let x = {ep};\n    drop(g);\n    {wcode}\n    consume(&x);',
                [('Alloc', 0, 'PPoolGuard' if 'into_' not in pn else 'PCollection'), ('Rewind', w), ('Use', 0)], 'escape')
        if pn not in ('stats', 'allocator', 'vec_into_slice', 'vec_into_boxed_slice', 'string_into_boxed_str', 'mut_vec_into_slice', 'mut_string_into_str'):
            add(f'pool.{pn}.guard_drop.control', f'    let mut pool: BumpPool = BumpPool::new();\n    let mut g = pool.get();\n    let x = {ep};\n    drop(g);\n    consume(&x);\n    drop(x);\n    pool.reset();',
                [('Alloc', 0, 'PPoolGuard'), ('Use', 0), ('Rewind', 'WPoolReset')], 'control')
    # ---- the generic trait path: B: BumpAllocatorTypedScope<'a> with every implementing type
    gen = "fn alloc_in<'a, B: BumpAllocatorTypedScope<'a>>(b: B) -> BumpBox<'a, u64> { b.alloc(5u64) }\n"
    handles = [('ref_bump', 'let mut bump: Bump = Bump::new();', 'alloc_in(&bump)', 'PTraitRefBump'),
               ('mut_bump', 'let mut bump: Bump = Bump::new();', 'alloc_in(&mut bump)', 'PTraitMutBump'),
               ('mut_bump_static', 'let mut bump: Bump = Bump::new();', "alloc_in::<&mut Bump>(&mut bump)", 'PTraitMutBump'),
               ('ref_bump_static', 'let mut bump: Bump = Bump::new();', "alloc_in::<&Bump>(&bump)", 'PTraitRefBump'),
               ('without_dealloc', 'let mut bump: Bump = Bump::new();', 'alloc_in(WithoutDealloc(&bump))', 'PTraitWrapped'),
               ('without_shrink_mut', 'let mut bump: Bump = Bump::new();', 'alloc_in(WithoutShrink(&mut bump))', 'PTraitWrapped'),
               ('ref_ref_bump', 'let mut bump: Bump = Bump::new();', 'alloc_in(&&bump)', 'PTraitRefBump'),
               ('mut_ref_mut_bump', 'let mut bump: Bump = Bump::new();', 'alloc_in(&mut &mut bump)', 'PTraitMutBump')]
    for (hn, setup, call, p) in handles:
        for (wn, wcode, w) in [('reset', 'bump.reset();', 'WReset'), ('reset_to_start', 'bump.reset_to_start();', 'WResetToStart'), ('drop', 'drop(bump);', 'WDrop'),
                               ('scoped', 'bump.scoped(|s| { s.alloc(1u8); });', 'WSecondScope')]:
            ann = ": BumpBox<'static, u64>" if hn.endswith('_static') else ''
            add(f'trait.{hn}.{wn}.escape', f'    {setup}\n    let x{ann} = {call};\n    {wcode}\n    consume(&x);',
                [('Alloc', 0, p), ('Rewind', w), ('Use', 0)], 'escape', extra=gen)
            add(f'trait.{hn}.{wn}.control', f'    {setup}\n    {{ let x = {call};\n    consume(&x); }}\n    {wcode}',
                [('Alloc', 0, p), ('Use', 0), ('Rewind', w)], 'control', extra=gen)
    # scope handles through the trait
    for (hn, call) in [('ref_scope', 'alloc_in(&*scope)'), ('mut_scope', 'alloc_in(&mut *scope)'), ('scope_by_value', 'alloc_in(scope.by_value())'),
                       ('without_dealloc_scope', 'alloc_in(WithoutDealloc(&*scope))')]:
        add(f'trait.{hn}.return.escape', f'    let mut bump: Bump = Bump::new();\n    let x = bump.scoped(|scope| {call});\n    consume(&x);',
            [('Enter',), ('Alloc', 0, 'PTraitScope' if 'without' not in hn else 'PTraitWrapped'), ('Exit',), ('Use', 0)], 'escape', extra=gen)
        add(f'trait.{hn}.control', f'    let mut bump: Bump = Bump::new();\n    bump.scoped(|scope| {{ let x = {call}; consume(&x); }});',
            [('Enter',), ('Alloc', 0, 'PTraitScope' if 'without' not in hn else 'PTraitWrapped'), ('Use', 0), ('Exit',)], 'control', extra=gen)
    # ---- conversions: a collection assembled from parts must not outlive the scope the parts live in
    conv = [('vec_from_parts', 'let f = FixedBumpVec::<u32>::with_capacity_in(4, &*scope); BumpVec::from_parts(f, @O@)'),
            ('string_from_parts', 'let f = bump_scope::FixedBumpString::with_capacity_in(4, &*scope); BumpString::from_parts(f, @O@)'),
            ('fixed_from_init', 'FixedBumpVec::from_init(scope.alloc_slice_copy(&[1u32, 2]))'),
            ('fixed_from_uninit', 'FixedBumpVec::from_uninit(scope.alloc_uninit_slice::<u32>(3))'),
            ('vec_into_parts', 'let mut v = BumpVec::<u32, _>::new_in(&*scope); v.push(1); v.into_parts().0'),
            ('fixed_into_vec', 'let f = FixedBumpVec::<u32>::with_capacity_in(4, &*scope); f.into_vec(@O@)')]
    for (cn, body) in conv:
        add(f'conv.{cn}.return.escape', '    let mut bump: Bump = Bump::new();\n    let other: Bump = Bump::new();\n    let x = bump.scoped(|scope| { ' + body.replace('@O@', '&other') + ' });\n    consume(&x);',
            [('Enter',), ('Alloc', 0, 'PCollection'), ('Exit',), ('Use', 0)], 'escape')
        add(f'conv.{cn}.control', '    let mut bump: Bump = Bump::new();\n    let other: Bump = Bump::new();\n    bump.scoped(|scope| { let x = { ' + body.replace('@O@', '&*scope') + ' }; consume(&x); });',
            [('Enter',), ('Alloc', 0, 'PCollection'), ('Use', 0), ('Exit',)], 'control')
    # ---- claim guard
    add('claim.alloc.reset.escape', '    let mut bump: Bump = Bump::new();\n    let x = { let c = bump.claim(); c.alloc(5u64) };\n    bump.reset();\n    consume(&x);',
        [('Alloc', 0, 'PClaim'), ('Rewind', 'WReset'), ('Use', 0)], 'escape')
    add('claim.alloc.control', '    let mut bump: Bump = Bump::new();\n    { let x = { let c = bump.claim(); c.alloc(5u64) };\n    consume(&x); }\n    bump.reset();',
        [('Alloc', 0, 'PClaim'), ('Use', 0), ('Rewind', 'WReset')], 'control')
    add('claim.scoped.return.escape', '    let mut bump: Bump = Bump::new();\n    let x = bump.scoped(|scope| { let c = scope.claim(); c.alloc(5u64) });\n    consume(&x);',
        [('Enter',), ('Alloc', 0, 'PClaim'), ('Exit',), ('Use', 0)], 'escape')
    add('claim.scoped.after_claim.control', '    let mut bump: Bump = Bump::new();\n    bump.scoped(|scope| { let x = { let c = scope.claim(); c.alloc(5u64) }; consume(&x); scope.alloc(1u8); });',
        [('Enter',), ('Alloc', 0, 'PClaim'), ('Use', 0), ('Exit',)], 'control')
    return out


# threads and settings conversions: programs with a fixed expected verdict (no abstraction in Regions.v)
def fixed_corpus():
    out = []

    def add(name, body, expect, link=False, extra=''):
        out.append({'name': name, 'src': PRELUDE + extra + 'fn main() {\n' + body + '\n}\n', 'expect': expect, 'link': link})

    rc = """
#[derive(Clone, Default)]
struct RcAlloc(std::rc::Rc<()>);
unsafe impl bump_scope::alloc::Allocator for RcAlloc {
    fn allocate(&self, l: std::alloc::Layout) -> Result<std::ptr::NonNull<[u8]>, bump_scope::alloc::AllocError> { Global.allocate(l) }
    unsafe fn deallocate(&self, p: std::ptr::NonNull<u8>, l: std::alloc::Layout) { unsafe { Global.deallocate(p, l) } }
}
"""
    add('send.bump_with_send_allocator.control', '    let bump: Bump = Bump::new();\n    std::thread::spawn(move || { bump.alloc(1u8); }).join().unwrap();', 'accept')
    add('send.bump_with_rc_allocator.escape', '    let bump: Bump<RcAlloc> = Bump::new_in(RcAlloc::default());\n    std::thread::spawn(move || { bump.alloc(1u8); }).join().unwrap();', 'reject', extra=rc)
    add('send.bump_with_rc_allocator.same_thread.control', '    let bump: Bump<RcAlloc> = Bump::new_in(RcAlloc::default());\n    bump.alloc(1u8);', 'accept', extra=rc)
    add('sync.share_bump_across_threads.escape', '    let bump: Bump = Bump::new();\n    std::thread::scope(|s| { s.spawn(|| { bump.alloc(1u8); }); });', 'reject')
    add('sync.share_scope_across_threads.escape', '    let mut bump: Bump = Bump::new();\n    bump.scoped(|scope| { let sc: &BumpScope = scope; std::thread::scope(|s| { s.spawn(|| { sc.alloc(1u8); }); }); });', 'reject')
    add('send.box_to_thread.control', '    let bump: Bump = Bump::new();\n    let x = bump.alloc(5u64);\n    std::thread::scope(|s| { s.spawn(move || { consume(&x); }); });', 'accept')
    add('send.pool_guards_on_threads.control', '    let pool: BumpPool = BumpPool::new();\n    std::thread::scope(|s| { for _ in 0..2 { s.spawn(|| { let g = pool.get(); g.alloc(1u8); }); } });', 'accept')
    add('send.pool_with_rc_allocator.escape', '    let pool: BumpPool<RcAlloc> = BumpPool::new();\n    std::thread::scope(|s| { s.spawn(|| { let g = pool.get(); g.alloc(1u8); }); });', 'reject', extra=rc)
    # settings conversions (post-monomorphisation const assertions: need code generation)
    st = "use bump_scope::settings::BumpSettings;\n"
    #                       MIN_ALIGN, UP, GUARANTEED_ALLOCATED, ...
    add('settings.with_settings.same.control', '    let bump: Bump<Global, BumpSettings<1, true>> = Bump::new();\n    let b2: Bump<Global, BumpSettings<1, true>> = bump.with_settings();\n    b2.alloc(1u8);', 'accept', link=True, extra=st)
    add('settings.with_settings.raise_align.control', '    let bump: Bump<Global, BumpSettings<1, true>> = Bump::new();\n    let b2: Bump<Global, BumpSettings<8, true>> = bump.with_settings();\n    b2.alloc(1u8);', 'accept', link=True, extra=st)
    add('settings.with_settings.flip_up.escape', '    let bump: Bump<Global, BumpSettings<1, true>> = Bump::new();\n    let b2: Bump<Global, BumpSettings<1, false>> = bump.with_settings();\n    b2.alloc(1u8);', 'reject', link=True, extra=st)
    add('settings.borrow_with_settings.same.control', '    let bump: Bump<Global, BumpSettings<4, true>> = Bump::new();\n    let b2: &Bump<Global, BumpSettings<4, true>> = bump.borrow_with_settings();\n    b2.alloc(1u8);', 'accept', link=True, extra=st)
    add('settings.borrow_with_settings.lower_align.escape', '    let bump: Bump<Global, BumpSettings<4, true>> = Bump::new();\n    let b2: &Bump<Global, BumpSettings<1, true>> = bump.borrow_with_settings();\n    b2.alloc(1u8);', 'reject', link=True, extra=st)
    add('settings.borrow_with_settings.raise_align.escape', '    let bump: Bump<Global, BumpSettings<1, true>> = Bump::new();\n    let b2: &Bump<Global, BumpSettings<4, true>> = bump.borrow_with_settings();\n    b2.alloc(1u8);', 'reject', link=True, extra=st)
    add('settings.borrow_with_settings.flip_up.escape', '    let bump: Bump<Global, BumpSettings<1, true>> = Bump::new();\n    let b2: &Bump<Global, BumpSettings<1, false>> = bump.borrow_with_settings();\n    b2.alloc(1u8);', 'reject', link=True, extra=st)
    add('settings.borrow_mut_with_settings.raise_align.control', '    let mut bump: Bump<Global, BumpSettings<1, true>> = Bump::new();\n    let b2: &mut Bump<Global, BumpSettings<8, true>> = bump.borrow_mut_with_settings();\n    b2.alloc(1u8);', 'accept', link=True, extra=st)
    add('settings.borrow_mut_with_settings.lower_align.escape', '    let mut bump: Bump<Global, BumpSettings<8, true>> = Bump::new();\n    let b2: &mut Bump<Global, BumpSettings<1, true>> = bump.borrow_mut_with_settings();\n    b2.alloc(1u8);', 'reject', link=True, extra=st)
    add('settings.borrow_mut_with_settings.flip_up.escape', '    let mut bump: Bump<Global, BumpSettings<1, true>> = Bump::new();\n    let b2: &mut Bump<Global, BumpSettings<1, false>> = bump.borrow_mut_with_settings();\n    b2.alloc(1u8);', 'reject', link=True, extra=st)
    return out


BORROWCK = {'E0499', 'E0502', 'E0505', 'E0506', 'E0597', 'E0716', 'E0521', 'E0515', 'E0373', 'E0503', 'E0713', 'E0712'}


def run_batch(progs, workdir, rlib, deps):
    """all region programs as functions of ONE crate: rustc borrow-checks every body and reports every error with its line.
    returns per program (accepted, codes, first message); accepted = no error inside the function"""
    os.makedirs(workdir, exist_ok=True)
    lines = PRELUDE.split('\n')
    extras = []
    for pr in progs:
        if pr['extra'] and pr['extra'] not in extras:
            extras.append(pr['extra'])
    for e in extras:
        lines += e.split('\n')
    ranges = []
    for i, pr in enumerate(progs):
        start = len(lines) + 1
        lines.append('fn p%04d() {' % i)
        lines += pr['body'].split('\n')
        lines.append('}')
        ranges.append((start, len(lines)))
    lines.append('fn main() {}')
    path = os.path.join(workdir, 'batch.rs')
    with open(path, 'w') as f:
        f.write('\n'.join(lines) + '\n')
    out = os.path.join(workdir, 'batch.rmeta')
    p = subprocess.run(['rustc', '--edition', '2024', '--crate-type', 'bin', '--error-format=short', '--extern', 'bump_scope=' + rlib,
                        '-L', 'dependency=' + deps, '--cap-lints', 'allow', '--emit=metadata', path, '-o', out],
                       stdout=subprocess.PIPE, stderr=subprocess.PIPE, text=True)
    per = [[] for _ in progs]
    unattributed = []
    for l in p.stderr.split('\n'):
        m = re.match(r'.*batch\.rs:(\d+):\d+: error(?:\[(E\d+)\])?: (.*)', l)
        if not m:
            if l.startswith('error') and 'aborting due to' not in l:
                unattributed.append(l[:200])
            continue
        ln = int(m.group(1))
        # binary search not needed: few hundred ranges
        for i, (a, b) in enumerate(ranges):
            if a <= ln <= b:
                per[i].append((m.group(2) or ('lifetime' if 'lifetime may not live long enough' in m.group(3) else 'other'), m.group(3)[:200]))
                break
        else:
            unattributed.append(l[:200])
    for f in (path, out):
        try:
            os.remove(f)
        except OSError:
            pass
    res = []
    for errs in per:
        res.append((len(errs) == 0, sorted(set(c for c, _ in errs)), errs[0][1] if errs else ''))
    return res, unattributed


def find_rlib(harness_dir, target_dir, env):
    p = subprocess.run(['cargo', 'build', '--offline', '--message-format=json', '--bin', 'arith'], cwd=harness_dir, env=env,
                       stdout=subprocess.PIPE, stderr=subprocess.PIPE, text=True)
    rlib = None
    for l in p.stdout.split('\n'):
        try:
            d = json.loads(l)
        except ValueError:
            continue
        if d.get('reason') == 'compiler-artifact' and d['target']['name'].replace('-', '_') == 'bump_scope':
            for f in d['filenames']:
                if f.endswith('.rlib'):
                    rlib = f
    return rlib, p.returncode, p.stderr[-400:]


def compile_one(args):
    (path, rlib, deps, link) = args
    out = path[:-3] + ('.bin' if link else '.rmeta')
    cmd = ['rustc', '--edition', '2024', '--crate-type', 'bin', '--error-format=short', '--extern', 'bump_scope=' + rlib, '-L', 'dependency=' + deps,
           '-C', 'debuginfo=0', '--cap-lints', 'allow']
    cmd += (['--emit=link', '-C', 'opt-level=0'] if link else ['--emit=metadata'])
    cmd += [path, '-o', out]
    p = subprocess.run(cmd, stdout=subprocess.PIPE, stderr=subprocess.PIPE, text=True)
    try:
        os.remove(out)
    except OSError:
        pass
    codes = sorted(set(re.findall(r'error\[(E\d+)\]', p.stderr)))
    first = ''
    for l in p.stderr.split('\n'):
        if 'error' in l:
            first = l.strip()[:240]
            break
    return (p.returncode == 0, codes, first)


def run_corpus(progs, workdir, rlib, deps):
    os.makedirs(workdir, exist_ok=True)
    jobs = []
    for i, pr in enumerate(progs):
        path = os.path.join(workdir, 'p%04d.rs' % i)
        with open(path, 'w') as f:
            f.write(pr['src'])
        jobs.append((path, rlib, deps, pr.get('link', False)))
    with ThreadPoolExecutor(max_workers=16) as ex:
        res = list(ex.map(compile_one, jobs))
    for (path, _, _, _) in jobs:
        try:
            os.remove(path)
        except OSError:
            pass
    return res


_VERIF = os.path.dirname(os.path.dirname(os.path.abspath(__file__)))


def judge_all(rlib, workdir=os.path.join(_VERIF, '.cache', 'c04')):
    """-> (region programs with verdicts, fixed programs with verdicts, notes)"""
    deps = os.path.dirname(rlib)
    reg = corpus()
    res, unattributed = run_batch(reg, workdir, rlib, deps)
    notes = list(unattributed)
    # anything unexpected, or rejected for a reason that is not the borrow checker's, is re-judged alone
    redo = []
    for i, (pr, (ok, codes, first)) in enumerate(zip(reg, res)):
        expect_ok = pr['kind'] == 'control'
        if ok != expect_ok or (not ok and not (set(codes) <= BORROWCK | {'lifetime'})):
            redo.append(i)
    if unattributed:
        redo = list(range(len(reg)))
    if redo:
        single = run_corpus([reg[i] for i in redo], workdir, rlib, deps)
        for i, (ok, codes, first) in zip(redo, single):
            if not ok and not codes and 'lifetime may not live long enough' in first:
                codes = ['lifetime']
            res[i] = (ok, codes, first)
    for pr, r in zip(reg, res):
        pr['accepted'], pr['codes'], pr['first'] = r
    fx = fixed_corpus()
    fres = run_corpus(fx, workdir, rlib, deps)
    for pr, r in zip(fx, fres):
        pr['accepted'], pr['codes'], pr['first'] = r
    return reg, fx, notes


if __name__ == '__main__':
    import time
    if len(sys.argv) >= 4 and sys.argv[1] == '--tables':
        try:
            facts, det, msg = write_tables(sys.argv[2], sys.argv[3])
        except Unsupported as e:
            print('c04: unsupported: %s' % e)
            sys.exit(2)
        print('c04: ' + msg)
        sys.exit(0)
    t = time.time()
    env = dict(os.environ, CARGO_TARGET_DIR=os.path.join(_VERIF, '.cache', 'harness-target'), RUSTFLAGS='--cfg bump_scope_verif', CARGO_NET_OFFLINE='true')
    rlib, rc, err = find_rlib(os.path.join(_VERIF, 'harness'), os.path.join(_VERIF, '.cache', 'harness-target'), env)
    reg, fx, notes = judge_all(rlib)
    bad = 0
    import collections
    cnt = collections.Counter()
    for pr in reg + fx:
        expect = pr.get('expect') or ('accept' if pr['kind'] == 'control' else 'reject')
        got = 'accept' if pr['accepted'] else 'reject'
        cnt[tuple(pr['codes'])] += 1
        if got != expect:
            bad += 1
            print('UNEXPECTED', pr['name'], 'expected', expect, 'got', got, pr['codes'], pr['first'])
        elif not pr['accepted'] and 'expect' not in pr and not (set(pr['codes']) <= BORROWCK | {'lifetime'}):
            print('WRONG-REASON', pr['name'], pr['codes'], pr['first'])
    print(len(reg) + len(fx), 'programs', bad, 'unexpected', '%.1fs' % (time.time() - t), notes[:5])
    print(cnt)
