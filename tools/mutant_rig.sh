#!/bin/bash
# mutant_rig.sh — run the checks against a seeded change WITHOUT touching /repo or /verif:
# a scratch worktree of /repo and a relocated copy of /verif (harness paths rewritten) under $RIG.
#   tools/mutant_rig.sh setup                 create / refresh $RIG/{repo,verif} from /repo HEAD and /verif's working tree
#   tools/mutant_rig.sh run <patch> C01 C02…  apply the patch in $RIG/repo, run the quick checks there, revert
#   tools/mutant_rig.sh teardown              remove the worktree and the copy
RIG=${RIG:-/tmp/vm}
set -u
case "$1" in
setup)
  mkdir -p $RIG
  if [ ! -d $RIG/repo ]; then git -C /repo worktree add --detach $RIG/repo HEAD >/dev/null; else git -C $RIG/repo checkout -q --detach $(git -C /repo rev-parse HEAD) && git -C $RIG/repo checkout -q -- .; fi
  mkdir -p $RIG/verif
  rsync -a --delete --exclude .git --exclude .cache/cov-target --exclude evidence --exclude replays /verif/ $RIG/verif/
  mkdir -p $RIG/verif/evidence $RIG/verif/replays
  grep -rl '/repo' $RIG/verif/harness/src $RIG/verif/harness/Cargo.toml | xargs sed -i "s#\"/repo#\"$RIG/repo#g"
  # coq .vo files carry no absolute paths; dune _build is relocatable; cargo fingerprints are path-keyed: rebuild
  ;;
run)
  patch=$(readlink -f "$2"); shift 2
  git -C $RIG/repo checkout -q -- . ; git -C $RIG/repo apply "$patch" || { echo "patch does not apply"; exit 2; }
  cd $RIG/verif
  for c in "$@"; do
    VERIF_REPO=$RIG/repo timeout 3000 tools/vcheck $c --tier quick > $RIG/out_$c.log 2>&1; rc=$?
    echo "== $c rc=$rc: $(grep -m3 -h '^VIOLATION\|^KNOWN' $RIG/out_$c.log | tr '\n' ' ')"
  done
  git -C $RIG/repo checkout -q -- .
  ;;
teardown)
  git -C /repo worktree remove --force $RIG/repo; rm -rf $RIG
  ;;
esac
