"""vlib — shared machinery of tools/vcheck: regenerate, build proofs, build harness/driver,
evidence, verdict protocol.  See DESIGN.md section 4."""
import json, os, re, subprocess, sys, time, hashlib, shutil

VERIF = os.path.dirname(os.path.dirname(os.path.abspath(__file__)))
REPO = os.environ.get('VERIF_REPO', '/repo')
COQ = os.path.join(VERIF, 'coq')
DRIVER = os.path.join(VERIF, 'driver')
HARNESS = os.path.join(VERIF, 'harness')
CACHE = os.path.join(VERIF, '.cache')
EVID = os.path.join(VERIF, 'evidence')
REPLAY = os.path.join(VERIF, 'replays')
TARGET = os.path.join(CACHE, 'harness-target')
DRV = os.path.join(DRIVER, '_build', 'default', 'drv.exe')
HOOK_CFG = 'bump_scope_verif'

ENV = dict(os.environ)
ENV['CARGO_NET_OFFLINE'] = 'true'
ENV['CARGO_TARGET_DIR'] = TARGET
ENV.setdefault('RUSTFLAGS', '--cfg ' + HOOK_CFG)

TRUSTED_BASE_COMMON = [
    'Coq 8.16.1 kernel (coqc); vm_compute used only for finite tables/witnesses; no native_compute',
    'axioms: none (every pinned theorem prints "Closed under the global context")',
    'tools/rs2v.py translator (Rust subset -> Gallina), cross-checked by running the compiled real functions against the extracted generated model',
    'extraction: ExtrOcamlBasic only, no Extract Constant / Extract Inductive of our own; Z, positive, nat stay Coq datatypes; OCaml 4.13.1 + zarith only for text<->Z conversion in the driver',
    'correspondence harness (Rust) and its generators; rustc 1.95/LLVM assumed to implement source semantics',
]


def sh(cmd, cwd=None, timeout=1800, env=None, inp=None):
    t0 = time.time()
    try:
        p = subprocess.run(cmd, cwd=cwd, shell=isinstance(cmd, str), env=env or ENV, input=inp,
                           stdout=subprocess.PIPE, stderr=subprocess.STDOUT, timeout=timeout, text=True, errors='replace')
        return p.returncode, p.stdout, time.time() - t0
    except subprocess.TimeoutExpired as e:
        out = e.stdout or ''
        if isinstance(out, bytes):
            out = out.decode('utf8', 'replace')
        return 124, out + '\nTIMEOUT after %ss' % timeout, time.time() - t0


class Ctx:
    def __init__(self, pid, tier, seed):
        self.pid = pid
        self.tier = tier
        self.seed = seed
        self.t0 = time.time()
        self.log = []
        self.problems = []       # broken proof / tie items: (kind, detail)
        self.violations = []     # concrete failing inputs: dict
        self.cov = {}
        self.assumptions = []
        os.makedirs(CACHE, exist_ok=True)
        os.makedirs(EVID, exist_ok=True)
        os.makedirs(REPLAY, exist_ok=True)

    def say(self, *a):
        msg = ' '.join(str(x) for x in a)
        self.log.append(msg)
        print('[%s %6.1fs] %s' % (self.pid, time.time() - self.t0, msg), flush=True)

    # ------------------------------------------------------------ translator
    def regen(self):
        rc, out, dt = sh([sys.executable, os.path.join(VERIF, 'tools', 'rs2v.py'), REPO, os.path.join(COQ, 'gen')])
        self.say('translator:', out.strip().replace('\n', ' | '))
        if rc != 0:
            # a unit that cannot be translated breaks the tie of the properties whose theorems range over it:
            # the capacity decisions of the vector types (C07, C08), the position arithmetic of allocator_impl.rs
            # (C01, C02, C13) and chunk growth (C10, C12); bumping.rs / size_config.rs / lib.rs underlie everything
            bad = [l for l in out.split('\n') if 'FAILED' in l or 'unsupported' in l]
            scope = set()
            for l in bad:
                if 'capsites' in l.lower():
                    scope |= {'C07', 'C08'}
                elif 'splitsites' in l.lower():
                    scope |= {'C16', 'C08'}
                elif 'allocsites' in l.lower():
                    m = re.search(r'unsupported \[([C0-9 ]+)\]', l)
                    scope |= set(m.group(1).split()) if m else {'C01', 'C02', 'C13', 'C10', 'C12', 'C05', 'C03', 'C15', 'C17'}
                else:
                    scope = None
                    break
            if scope is None or not bad or self.pid in scope:
                self.problems.append(('translator', out.strip()))
        # shapes of BumpBox<[T]>::split_at / split_first / split_last / merge (C16)
        rc7, out7, _ = sh([sys.executable, os.path.join(VERIF, 'tools', 'partsites.py'), REPO, os.path.join(COQ, 'gen')])
        if self.pid == 'C16':
            self.say('translator:', out7.strip())
            if rc7 != 0:
                self.problems.append(('translator', out7.strip()))
        # shapes behind aligned / scoped_aligned (C18, C03)
        rc8, out8, _ = sh([sys.executable, os.path.join(VERIF, 'tools', 'alignsites.py'), REPO, os.path.join(COQ, 'gen')])
        if self.pid in ('C18', 'C03'):
            self.say('translator:', out8.strip())
            if rc8 != 0:
                self.problems.append(('translator', out8.strip()))
        # the repairs of the recorded defects are still in place (C06 C07 C08 C10 C15)
        rcA, outA, _ = sh([sys.executable, os.path.join(VERIF, 'tools', 'fixsites.py'), REPO, os.path.join(COQ, 'gen')])
        if self.pid in ('C06', 'C07', 'C08', 'C10', 'C15'):
            self.say('translator:', outA.strip())
            if rcA != 0:
                self.problems.append(('translator', outA.strip()))
        # shapes behind claiming (C14)
        rc9, out9, _ = sh([sys.executable, os.path.join(VERIF, 'tools', 'claimsites.py'), REPO, os.path.join(COQ, 'gen')])
        if self.pid == 'C14':
            self.say('translator:', out9.strip())
            if rc9 != 0:
                self.problems.append(('translator', out9.strip()))
        # shapes of bump_pool.rs the pool model relies on (C19)
        rc6, out6, _ = sh([sys.executable, os.path.join(VERIF, 'tools', 'poolsites.py'), REPO, os.path.join(COQ, 'gen')])
        if self.pid == 'C19':
            self.say('translator:', out6.strip())
            if rc6 != 0:
                self.problems.append(('translator', out6.strip()))
        # character-boundary assertions of the string operations (C09)
        rc5, out5, _ = sh([sys.executable, os.path.join(VERIF, 'tools', 'strsites.py'), REPO, os.path.join(COQ, 'gen')])
        if self.pid == 'C09':
            self.say('translator:', out5.strip())
            if rc5 != 0:
                self.problems.append(('translator', out5.strip()))
        # summing rules of the statistics (C10)
        rc4, out4, _ = sh([sys.executable, os.path.join(VERIF, 'tools', 'statsites.py'), REPO, os.path.join(COQ, 'gen')])
        if self.pid == 'C10':
            self.say('translator:', out4.strip())
            if rc4 != 0:
                self.problems.append(('translator', out4.strip()))
        # signature tables of C04 (kept fresh on every run; only C04 reports a failure of this translator)
        rc2, out2, dt2 = sh([sys.executable, os.path.join(VERIF, 'tools', 'c04.py'), '--tables', REPO, os.path.join(COQ, 'gen')])
        self.tables_msg = out2.strip()
        if self.pid == 'C04':
            self.say('translator:', self.tables_msg)
            if rc2 != 0:
                self.problems.append(('translator', self.tables_msg))
        # twin / forwarding tables of C17 (kept fresh on every run; only C17 reports on them)
        rc3, out3, dt3 = sh([sys.executable, os.path.join(VERIF, 'tools', 'c17.py'), '--tables', REPO, os.path.join(COQ, 'gen')])
        self.twins_msg = out3.strip()
        if self.pid == 'C17':
            self.say('translator:', self.twins_msg.replace('\n', ' | ')[:600])
            if rc3 != 0:
                self.problems.append(('translator', self.twins_msg))
            elif 'TWIN DIVERGES' in out3 or 'FORWARD BROKEN' in out3:
                self.problems.append(('tables', 'the twin / forwarding tables regenerated from the source violate the rules of TwinSpec.v:\n' + '\n'.join(l for l in out3.split('\n') if 'DIVERGES' in l or 'BROKEN' in l)))
        return rc == 0

    # ------------------------------------------------------------ Coq
    def ensure_makefile(self):
        mk = os.path.join(COQ, 'Makefile')
        cp = os.path.join(COQ, '_CoqProject')
        if not os.path.exists(mk) or os.path.getmtime(mk) < os.path.getmtime(cp):
            sh('coq_makefile -f _CoqProject -o Makefile', cwd=COQ)

    def coq_build(self, target, timeout=1500):
        """build coq/<target>.vo and its dependency closure; returns (ok, output)"""
        self.ensure_makefile()
        # force the property file itself to be re-checked so that Print Assumptions is re-printed
        vo = os.path.join(COQ, target + '.vo')
        if os.path.exists(vo):
            os.remove(vo)
        rc, out, dt = sh('make -j16 %s.vo' % target, cwd=COQ, timeout=timeout)
        self.say('coq: make %s.vo -> rc=%d (%.1fs)' % (target, rc, dt))
        if rc != 0:
            tail = '\n'.join(out.strip().split('\n')[-25:])
            self.problems.append(('proof', 'make %s.vo failed:\n%s' % (target, tail)))
        return rc == 0, out

    def pinned(self, target):
        src = open(os.path.join(COQ, target + '.v')).read()
        thms = re.findall(r'^(?:Theorem|Lemma|Corollary)\s+([A-Za-z0-9_]+)', src, re.M)
        prints = re.findall(r'^Print Assumptions\s+([A-Za-z0-9_]+)\.', src, re.M)
        return thms, prints

    def check_assumptions(self, target, out, allow=()):
        """every pinned theorem must have a Print Assumptions line reporting closedness"""
        thms, prints = self.pinned(target)
        missing = [t for t in thms if t not in prints]
        if missing:
            self.problems.append(('assumptions', 'theorems without Print Assumptions: %s' % missing))
        closed = out.count('Closed under the global context')
        axioms = re.findall(r'^Axioms:\n((?:.+\n)+?)(?=\S|\Z)', out, re.M)
        bad = []
        for blk in axioms:
            for line in blk.split('\n'):
                mm = re.match(r'^([A-Za-z0-9_.]+)\s*:', line)
                if mm and mm.group(1) not in allow:
                    bad.append(mm.group(1))
        if bad:
            self.problems.append(('assumptions', 'unexpected axioms: %s' % sorted(set(bad))))
        return len(thms), closed

    def grep_forbidden(self):
        rc, out, _ = sh(r"grep -rnE '\b(Admitted|admit|Axiom|Axioms|Parameter|Parameters|Conjecture|Hypothesis|Variable)\b|Unset Guard|bypass_check|type-in-type|impredicative-set|Admit Obligations' --include=*.v . | grep -v '^./gen/.*(\* GENERATED' | grep -vE '^\S+:[0-9]+:\s*\(\*.*\*\)\s*$' || true", cwd=COQ)
        hits = []
        for l in out.strip().split('\n'):
            if not l.strip():
                continue
            # allow the word inside comments/strings of Print Assumptions output only; Section
            # variables are allowed only inside a Section (checked by hand: listed in DESIGN §7)
            m = re.match(r'^(\S+?):(\d+):(.*)$', l)
            txt = m.group(3) if m else l
            if re.search(r'^\s*\(\*', txt) and txt.rstrip().endswith('*)'):
                continue
            if re.search(r'\b(Variable|Hypothesis|Variables|Hypotheses)\b', txt) and self._in_section(m.group(1), int(m.group(2))):
                continue
            if 'Print Assumptions' in txt:
                continue
            hits.append(l)
        if hits:
            self.problems.append(('forbidden', 'forbidden constructs in coq/: ' + ' ; '.join(hits[:5])))
        return not hits

    def _in_section(self, f, line):
        depth = 0
        for i, l in enumerate(open(os.path.join(COQ, f)).read().split('\n'), 1):
            if i >= line:
                break
            if re.match(r'^\s*Section\s+\w+', l):
                depth += 1
            if re.match(r'^\s*End\s+\w+', l) and depth > 0:
                depth -= 1
        return depth > 0

    def coqchk(self, target):
        lib = 'BS.' + target.replace('/', '.')
        rc, out, dt = sh('coqchk -silent -o -Q . BS %s' % lib, cwd=COQ, timeout=1800)
        self.say('coqchk %s rc=%d (%.0fs)' % (lib, rc, dt))
        m = re.search(r'\* Axioms:\s*(.*?)(?:\n\s*\n|\Z)', out, re.S)
        ax = m.group(1).strip() if m else '?'
        self.cov['coqchk'] = {'rc': rc, 'axioms': ax[:400]}
        if rc != 0:
            self.problems.append(('proof', 'coqchk failed: ' + out[-600:]))
        elif ax not in ('<none>',):
            self.problems.append(('assumptions', 'coqchk reports axioms: ' + ax[:300]))

    # ------------------------------------------------------------ extraction + driver
    def build_driver(self):
        ext = os.path.join(DRIVER, 'ext')
        # the executable models (no proofs) that the driver is extracted from; incremental
        self.ensure_makefile()
        rc, out, dt0 = sh('make -j16 Arena.vo Colls.vo Parts.vo SplitCap.vo VecCap.vo Str.vo Pool.vo Conv.vo gen/Bumping.vo gen/SizeCfg.vo gen/LibArith.vo', cwd=COQ, timeout=900)
        if rc != 0:
            self.problems.append(('extraction', 'the models do not compile:\n' + out[-800:]))
            self.say('models FAILED to compile')
            return False
        rc, out, dt = sh('coqc -Q ../../coq BS Extract.v', cwd=ext, timeout=600)
        if rc != 0:
            self.problems.append(('extraction', out[-800:]))
            self.say('extraction FAILED')
            return False
        rc, out, dt2 = sh('dune build ./drv.exe 2>&1', cwd=DRIVER, timeout=900)
        self.say('driver: extraction %.1fs, dune build %.1fs rc=%d' % (dt, dt2, rc))
        if rc != 0:
            self.problems.append(('driver', out[-800:]))
            return False
        return True

    # ------------------------------------------------------------ harness
    def cargo_build(self, binname, release=False, features=None):
        cmd = 'cargo build --offline --bin %s%s' % (binname, ' --release' if release else '')
        lock = os.path.join(HARNESS, 'Cargo.lock')
        try:
            shutil.copyfile(os.path.join(REPO, 'Cargo.lock'), lock)
        except OSError:
            pass
        rc, out, dt = sh(cmd, cwd=HARNESS, timeout=1800)
        self.say('cargo build %s%s rc=%d (%.1fs)' % (binname, ' --release' if release else '', rc, dt))
        if rc != 0:
            errs = [l for l in out.split('\n') if l.startswith('error')][:5]
            self.problems.append(('build', 'harness does not build against the working tree: %s\n%s' % (errs, out[-1500:])))
            return None
        return os.path.join(TARGET, 'release' if release else 'debug', binname)

    # ------------------------------------------------------------ verdict
    def write_replay(self, name, obj):
        path = os.path.join(REPLAY, '%s_%s.json' % (self.pid, name))
        obj = dict(obj)
        obj.setdefault('property', self.pid)
        obj.setdefault('seed', self.seed)
        with open(path, 'w') as f:
            json.dump(obj, f, indent=1)
        return path

    def known_findings(self):
        p = os.path.join(VERIF, 'known_findings.json')
        if not os.path.exists(p):
            return []
        return [k for k in json.load(open(p)).get('known', []) if k.get('property') == self.pid]

    def finish(self, level='proof', obligations=0, discharged=0, checker_cmd='', trusted_base=None,
               extra_assumptions=()):
        wall = time.time() - self.t0
        known = self.known_findings()
        reported = []
        lines = []
        # concrete violations first
        for v in self.violations:
            sig = v.get('signature', '')
            k = next((k for k in known if k.get('signature') and k['signature'] == sig), None)
            if k:
                lines.append('KNOWN-FINDING: property=%s %s' % (self.pid, k.get('what', sig)))
                continue
            reported.append(v)
        exit_code = 0
        if reported:
            v = reported[0]
            path = self.write_replay('violation', v)
            lines.append('VIOLATION property=%s replay=%s' % (self.pid, path))
            exit_code = 1
        elif self.problems:
            path = self.write_replay('broken', {
                'kind': 'proof-or-tie-broken',
                'broken': [{'what': k, 'detail': d} for k, d in self.problems],
                'note': 'no concrete failing input was found by the search; the named theorem / correspondence no longer checks',
            })
            lines.append('VIOLATION property=%s replay=%s no-failing-input-found' % (self.pid, path))
            exit_code = 1
        if exit_code == 0 and not self.violations:
            pass
        cov = dict(self.cov)
        cov.setdefault('obligations', obligations)
        cov.setdefault('discharged', discharged if not any(k in ('proof', 'assumptions', 'forbidden', 'translator') for k, _ in self.problems) else min(discharged, max(0, obligations - 1)))
        cov.setdefault('checker_cmd', checker_cmd)
        cov.setdefault('trusted_base', trusted_base or TRUSTED_BASE_COMMON)
        cov.setdefault('evaluations', 0)
        cov.setdefault('distinct_nontrivial', 0)
        cov.setdefault('samples', [])
        cov['problems'] = [{'what': k, 'detail': d[:2000]} for k, d in self.problems]
        ev = {
            'property_id': self.pid,
            'tier': self.tier,
            'seed': self.seed,
            'level': level,
            'coverage': cov,
            'assumptions': list(extra_assumptions) + self.assumptions,
            'wall_s': round(wall, 2),
            'violations': len(reported) + (1 if (not reported and self.problems) else 0),
        }
        with open(os.path.join(EVID, self.pid + '.json'), 'w') as f:
            json.dump(ev, f, indent=1)
        for l in lines:
            print(l, flush=True)
        print('[%s] done in %.1fs: %s' % (self.pid, wall, 'PASS' if exit_code == 0 else 'FAIL'), flush=True)
        return exit_code
