#!/bin/bash
# confirm_mutant.sh <name> <worktree> <property>  — independently confirm a seeded change:
#  (1) with the change the whole existing suite passes, (2) the demo fails with it, (3) passes without it.
# Writes /verif/seeded/<name>/{patch.diff,seeded_demo.rs,meta.json,SEEDED.md}
set -u
name=$1; wt=$2; prop=$3
out=/verif/seeded/$name; mkdir -p $out
cd $wt || exit 2
export CARGO_NET_OFFLINE=true
git diff -- src > $out/patch.diff
cp tests/seeded_demo.rs $out/seeded_demo.rs
[ -d tests/seeded_demo_cases ] && cp -r tests/seeded_demo_cases $out/seeded_demo_cases
[ -f SEEDED.md ] && cp SEEDED.md $out/SEEDED.md
# (1) suite with the change (demo excluded by moving it aside)
mv tests/seeded_demo.rs /tmp/seeded_demo_$name.rs
cargo test --workspace --no-fail-fast --offline > /tmp/suite_$name.log 2>&1
suite_rc=$?
ok=$(grep -c "^test result: ok" /tmp/suite_$name.log); failed=$(grep -c "^test result: FAILED" /tmp/suite_$name.log)
passed=$(grep "^test result" /tmp/suite_$name.log | sed -E 's/.* ([0-9]+) passed.*/\1/' | paste -sd+ | bc)
mv /tmp/seeded_demo_$name.rs tests/seeded_demo.rs
# (2) demo with the change
cargo test --offline --test seeded_demo > /tmp/demo_with_$name.log 2>&1; with_rc=$?
# (3) demo without
git apply -R $out/patch.diff
cargo test --offline --test seeded_demo > /tmp/demo_without_$name.log 2>&1; without_rc=$?
git apply $out/patch.diff
python3 - <<PY
import json
json.dump({
 "property": "$prop", "name": "$name",
 "patch_touches": [l[6:] for l in open("$out/patch.diff") if l.startswith("+++ b/")],
 "needs_to_manifest": "see SEEDED.md (written by the independent sub-agent that produced the change)",
 "confirmed_by_main": {
   "suite_with_change": {"cmd": "cargo test --workspace --no-fail-fast --offline", "rc": $suite_rc, "targets_ok": $ok, "targets_failed": $failed, "tests_passed": ${passed:-0}},
   "demo_with_change": {"cmd": "cargo test --offline --test seeded_demo", "rc": $with_rc},
   "demo_without_change": {"rc": $without_rc}},
 "valid": ($suite_rc == 0 and $with_rc != 0 and $without_rc == 0),
}, open("$out/meta.json","w"), indent=1)
PY
echo "$name: suite_rc=$suite_rc ok=$ok failed=$failed passed=$passed demo_with=$with_rc demo_without=$without_rc"
