#!/usr/bin/env python3
"""rs2v.py — translate the safe, core-only integer code of bump-scope into Gallina.

Usage: rs2v.py <repo-root> <out-dir>

Reads  src/bumping.rs, src/chunk/size_config.rs and the arithmetic helpers of src/lib.rs from
the *current* working tree and writes  <out-dir>/Bumping.v, SizeCfg.v, LibArith.v.
Files are only rewritten when their content changes (so `make` rebuilds exactly what depends
on them).  Any construct outside the supported subset makes the translator exit non-zero with
the offending position: that is a broken tie, never a silent approximation.

Semantics of the output (see coq/Word.v):
  * every function body is a term of the control monad `ctl R A` (Norm | Ret | Trap) and the
    function is `run body : res R`;
  * `+ - * %` on usize are the checked `add sub mul rem` (Trap on overflow / underflow / zero
    divisor = panic in debug, wrap in release);
  * `saturating_*`, `wrapping_sub`, `checked_*`, `as isize`, `!`, `&` have their exact 64-bit
    meaning on Z;
  * `debug_assert*!` and calls to `debug_assert_valid`, `cold`, `unlikely` are erased;
  * `a && b`, `a || b` evaluate `b` only when Rust would (matters when `b` can trap).
"""
import re, sys, os

COQ_KW = {'end', 'at', 'in', 'fun', 'forall', 'with', 'then', 'fix', 'cofix', 'exists', 'Type',
          'Prop', 'Set', 'mod', 'using', 'where', 'as', 'return', 'match', 'if', 'else', 'let'}

class TErr(Exception):
    pass

# ---------------------------------------------------------------- source preparation
def strip_comments(src):
    out = []
    i = 0
    n = len(src)
    while i < n:
        c = src[i]
        if src.startswith('//', i):
            j = src.find('\n', i)
            i = n if j < 0 else j
        elif src.startswith('/*', i):
            depth = 1
            i += 2
            while i < n and depth:
                if src.startswith('/*', i):
                    depth += 1; i += 2
                elif src.startswith('*/', i):
                    depth -= 1; i += 2
                else:
                    i += 1
        elif c == '"':
            j = i + 1
            while j < n and src[j] != '"':
                j += 2 if src[j] == '\\' else 1
            out.append('""')
            i = j + 1
        else:
            out.append(c)
            i += 1
    return ''.join(out)

def match_delim(s, i, open_c, close_c):
    """s[i] == open_c; return index just after the matching close."""
    assert s[i] == open_c, (s[i:i+20], open_c)
    depth = 0
    while i < len(s):
        if s[i] == open_c:
            depth += 1
        elif s[i] == close_c:
            depth -= 1
            if depth == 0:
                return i + 1
        i += 1
    raise TErr('unbalanced ' + open_c)

def strip_attrs(s):
    out = []
    i = 0
    while i < len(s):
        if s[i] == '#' and (s.startswith('#[', i) or s.startswith('#![', i)):
            j = s.index('[', i)
            i = match_delim(s, j, '[', ']')
        else:
            out.append(s[i]); i += 1
    return ''.join(out)

# ---------------------------------------------------------------- lexer
TOKEN_RE = re.compile(r'''
    (?P<ws>\s+)
  | (?P<int>0x[0-9a-fA-F_]+|[0-9][0-9_]*)(?:usize|isize|u64|i128)?
  | (?P<id>[A-Za-z_][A-Za-z0-9_]*)
  | (?P<str>"")
  | (?P<op>::|->|=>|==|!=|<=|>=|&&|\|\||\+=|-=|\.\.=|\.\.|[-+*/%&|!<>=(){}\[\],;:.?$#'])
''', re.X)

def lex(s):
    toks = []
    i = 0
    while i < len(s):
        m = TOKEN_RE.match(s, i)
        if not m:
            raise TErr('cannot lex at: ' + s[i:i+40])
        i = m.end()
        if m.lastgroup == 'ws':
            continue
        if m.lastgroup == 'int':
            t = m.group('int').replace('_', '')
            toks.append(('int', str(int(t, 16) if t.startswith('0x') else int(t))))
        else:
            toks.append((m.lastgroup, m.group(m.lastgroup)))
    toks.append(('eof', ''))
    return toks

# ---------------------------------------------------------------- parser (AST as tuples)
class Parser:
    def __init__(self, toks, fname):
        self.t = toks; self.i = 0; self.fname = fname

    def peek(self, k=0):
        return self.t[self.i + k]

    def at(self, v):
        return self.t[self.i][1] == v and self.t[self.i][0] != 'str'

    def eat(self, v):
        if not self.at(v):
            self.fail('expected `%s`' % v)
        self.i += 1

    def opt(self, v):
        if self.at(v):
            self.i += 1
            return True
        return False

    def ident(self):
        k, v = self.t[self.i]
        if k != 'id':
            self.fail('expected identifier')
        self.i += 1
        return v

    def fail(self, msg):
        ctx = ' '.join(v for _, v in self.t[max(0, self.i - 8):self.i + 8])
        raise TErr('%s: %s near token %d: ... %s ...' % (self.fname, msg, self.i, ctx))

    # ---- types
    def ty(self):
        if self.opt('&'):
            self.opt('mut')
            return self.ty()
        name = self.ident()
        while self.opt('::'):
            name = self.ident()
        if self.opt('<'):
            args = [self.ty()]
            while self.opt(','):
                args.append(self.ty())
            self.eat('>')
            return (name, args)
        return (name, [])

    # ---- patterns for let
    def pattern(self):
        if self.peek()[0] == 'id' and self.peek(1)[1] == '{':
            sname = self.ident()
            self.eat('{')
            fields = []
            rest = False
            while not self.at('}'):
                if self.opt('..'):
                    rest = True
                    break
                mut = self.opt('mut')
                f = self.ident()
                var = f
                if self.opt(':'):
                    mut = self.opt('mut')
                    var = self.ident()
                fields.append((f, var))
                if not self.opt(','):
                    break
            self.eat('}')
            return ('pstruct', sname, fields)
        if self.at('Some') and self.peek(1)[1] == '(':
            self.i += 2
            self.opt('mut')
            v = self.ident()
            self.eat(')')
            return ('psome', v)
        self.opt('mut')
        return ('pvar', self.ident())

    # ---- blocks / statements
    def block(self):
        self.eat('{')
        stmts = []
        tail = None
        while not self.at('}'):
            if self.at(';'):
                self.i += 1
                continue
            if self.at('let'):
                self.i += 1
                pat = self.pattern()
                ty = None
                if self.opt(':'):
                    ty = self.ty()
                if self.opt(';'):
                    stmts.append(('letdecl', pat, ty))
                    continue
                self.eat('=')
                e = self.expr()
                if self.opt('else'):
                    eb = self.block()
                    self.eat(';')
                    stmts.append(('letelse', pat, e, eb))
                else:
                    self.eat(';')
                    stmts.append(('let', pat, e))
                continue
            if self.at('const'):
                # local const (only occurs inside erased debug assertions)
                while not self.at(';'):
                    self.i += 1
                self.eat(';')
                continue
            if self.at('return'):
                self.i += 1
                e = None if self.at(';') else self.expr()
                self.opt(';')
                stmts.append(('return', e))
                continue
            e = self.expr()
            if self.at('=') or self.at('+=') or self.at('-='):
                op = self.peek()[1]
                self.i += 1
                rhs = self.expr()
                self.eat(';')
                if e[0] != 'var':
                    self.fail('assignment to non-variable')
                if op == '+=':
                    rhs = ('bin', '+', e, rhs)
                elif op == '-=':
                    rhs = ('bin', '-', e, rhs)
                stmts.append(('assign', e[1], rhs))
                continue
            if self.opt(';'):
                stmts.append(('expr', e))
                continue
            if self.at('}'):
                tail = e
                break
            if e[0] in ('if', 'iflet', 'block', 'erased'):
                stmts.append(('expr', e))
                continue
            self.fail('expected `;` or `}` after expression')
        self.eat('}')
        return ('block', stmts, tail)

    # ---- expressions (precedence climbing)
    BINOPS = [
        ['..'],
        ['||'],
        ['&&'],
        ['==', '!=', '<', '>', '<=', '>='],
        ['|'],
        ['&'],
        ['+', '-'],
        ['*', '/', '%'],
    ]

    def expr(self, nostruct=False):
        return self.binary(0, nostruct)

    def binary(self, lvl, nostruct):
        if lvl == len(self.BINOPS):
            return self.cast(nostruct)
        lhs = self.binary(lvl + 1, nostruct)
        while self.peek()[0] == 'op' and self.peek()[1] in self.BINOPS[lvl]:
            op = self.peek()[1]
            self.i += 1
            rhs = self.binary(lvl + 1, nostruct)
            lhs = ('bin', op, lhs, rhs)
        return lhs

    def cast(self, nostruct):
        e = self.unary(nostruct)
        while self.at('as'):
            self.i += 1
            t = self.ty()
            e = ('cast', e, t[0])
        return e

    def unary(self, nostruct):
        if self.opt('!'):
            return ('not', self.unary(nostruct))
        if self.opt('-'):
            return ('neg', self.unary(nostruct))
        if self.opt('&'):
            self.opt('mut')
            return self.unary(nostruct)
        if self.opt('*'):
            return self.unary(nostruct)
        return self.postfix(nostruct)

    def args(self):
        self.eat('(')
        a = []
        while not self.at(')'):
            a.append(self.expr())
            if not self.opt(','):
                break
        self.eat(')')
        return a

    def skip_macro_args(self):
        k, v = self.peek()
        close = {'(': ')', '[': ']', '{': '}'}[v]
        depth = 0
        while True:
            k, v2 = self.peek()
            if k == 'eof':
                self.fail('unterminated macro')
            if k == 'op' and v2 in '([{':
                depth += 1
            elif k == 'op' and v2 in ')]}':
                depth -= 1
            self.i += 1
            if depth == 0:
                break

    def postfix(self, nostruct):
        e = self.primary(nostruct)
        while True:
            if self.at('.') :
                self.i += 1
                name = self.ident()
                if self.at('('):
                    e = ('mcall', e, name, self.args())
                else:
                    e = ('field', e, name)
            elif self.at('?'):
                self.i += 1
                e = ('try', e)
            else:
                return e

    def primary(self, nostruct):
        k, v = self.peek()
        if k == 'int':
            self.i += 1
            return ('int', v)
        if v == '(' and k == 'op':
            self.i += 1
            e = self.expr()
            self.eat(')')
            return ('paren', e)
        if v == '{' and k == 'op':
            return self.block()
        if v == 'if':
            self.i += 1
            if self.at('let'):
                self.i += 1
                pat = self.pattern()
                self.eat('=')
                scrut = self.expr(nostruct=True)
                a = self.block()
                self.eat('else')
                b = self.block()
                return ('iflet', pat, scrut, a, b)
            c = self.expr(nostruct=True)
            a = self.block()
            b = None
            if self.opt('else'):
                if self.at('if'):
                    inner = self.primary(nostruct)
                    b = ('block', [], inner)
                else:
                    b = self.block()
            return ('if', c, a, b)
        if v == 'return':
            self.i += 1
            e = None if (self.at(';') or self.at('}')) else self.expr()
            return ('ret', e)
        if v == 'unsafe' and self.peek(1)[1] == '{':
            self.i += 1
            return self.block()
        if k == 'id':
            path = [self.ident()]
            while self.at('::'):
                self.i += 1
                if self.at('<'):
                    # turbofish: skip
                    self.i += 1
                    depth = 1
                    while depth:
                        if self.at('<'): depth += 1
                        if self.at('>'): depth -= 1
                        self.i += 1
                    continue
                path.append(self.ident())
            name = '::'.join(path)
            if self.at('!'):
                # macro invocation
                self.i += 1
                if name.startswith('debug_assert') or name in ('assert', 'assert_eq', 'assert_ne'):
                    if not name.startswith('debug_assert'):
                        self.fail('non-debug assertion `%s!` is outside the supported subset' % name)
                    self.skip_macro_args()
                    return ('erased',)
                if name == 'attempt':
                    a = self.args()
                    if len(a) != 1:
                        self.fail('attempt! takes one argument')
                    return ('try', a[0])
                self.fail('unsupported macro `%s!`' % name)
            if self.at('('):
                return ('call', name, self.args())
            if self.at('{') and not nostruct and path[-1][0].isupper():
                self.i += 1
                fields = []
                while not self.at('}'):
                    f = self.ident()
                    if self.opt(':'):
                        val = self.expr()
                    else:
                        val = ('var', f)
                    fields.append((f, val))
                    if not self.opt(','):
                        break
                self.eat('}')
                return ('struct', path[-1], fields)
            if name in ('true', 'false'):
                return ('bool', name)
            if len(path) == 1:
                return ('var', name)
            return ('path', name)
        self.fail('unexpected token `%s`' % v)

# ---------------------------------------------------------------- item extraction
FN_RE = re.compile(r'\b((?:pub(?:\([a-z]+\))?\s+)?(?:const\s+)?(?:unsafe\s+)?fn)\s+([A-Za-z_][A-Za-z0-9_]*)\s*(<[^>(]*>)?\s*\(')
STRUCT_RE = re.compile(r'\bstruct\s+([A-Za-z_][A-Za-z0-9_]*)\s*\{')
CONST_RE = re.compile(r'^(?:pub(?:\([a-z]+\))?\s+)?const\s+([A-Z_][A-Z0-9_]*)\s*:\s*usize\s*=\s*([0-9a-fA-Fx_]+)\s*;', re.M)
IMPL_RE = re.compile(r'\bimpl\s+([A-Za-z_][A-Za-z0-9_]*)\s*\{')

def find_items(src):
    """returns (consts, structs, fns) where fns = list of (name, selftype|None, text)"""
    consts = [(m.group(1), str(int(m.group(2).replace('_', ''), 0))) for m in CONST_RE.finditer(src)]
    structs = {}
    for m in STRUCT_RE.finditer(src):
        j = match_delim(src, m.end() - 1, '{', '}')
        body = src[m.end():j - 1]
        fields = []
        for part in body.split(','):
            part = part.strip()
            if not part:
                continue
            part = re.sub(r'^pub(\([a-z]+\))?\s+', '', part)
            fm = re.match(r'([A-Za-z_][A-Za-z0-9_]*)\s*:\s*(.+)$', part, re.S)
            if not fm:
                raise TErr('cannot parse struct field: ' + part)
            fields.append((fm.group(1), fm.group(2).strip()))
        structs[m.group(1)] = fields
    impl_ranges = []
    for m in IMPL_RE.finditer(src):
        j = match_delim(src, m.end() - 1, '{', '}')
        impl_ranges.append((m.end(), j, m.group(1)))
    macro_ranges = []
    for m in re.finditer(r'\bmacro_rules!\s*[A-Za-z_][A-Za-z0-9_]*\s*\{', src):
        j = match_delim(src, m.end() - 1, '{', '}')
        macro_ranges.append((m.start(), j))
    fns = []
    for m in FN_RE.finditer(src):
        if any(a <= m.start() < b for a, b in macro_ranges):
            continue
        p_end = match_delim(src, m.end() - 1, '(', ')')
        b_start = src.index('{', p_end)
        if ';' in src[p_end:b_start]:
            continue
        b_end = match_delim(src, b_start, '{', '}')
        selfty = None
        for a, b, nm in impl_ranges:
            if a <= m.start() < b:
                selfty = nm
        fns.append((m.group(2), selfty, src[m.start():b_end]))
    return consts, structs, fns

# ---------------------------------------------------------------- translation
PREFIX = {'BumpProps': 'bp_', 'BumpUp': 'bu_', 'ChunkSizeConfig': 'csc_'}
SCALAR = {'usize': 'Z', 'NonZeroUsize': 'Z', 'bool': 'bool', 'Layout': 'Layout', 'isize': 'Z'}

def coq_ty(t, structs):
    name, args = t
    if name in SCALAR:
        return SCALAR[name]
    if name == 'Option':
        return '(option %s)' % coq_ty(args[0], structs)
    if name == 'Range':
        return '(Z * Z)'
    if name in structs or name == 'Self':
        return name
    raise TErr('unsupported type ' + name)

def cname(v):
    return v + '_' if v in COQ_KW else v

class Tr:
    """Translates one function.  Expressions are translated to (binds, atom, type) where
    binds is a list of (pattern, monadic-term) to be executed first and atom is pure."""

    def __init__(self, unit, fname, selfty, params, rty):
        self.u = unit
        self.fname = fname
        self.selfty = selfty
        self.rty = rty
        self.n = 0
        self.vt = {}
        for p, t in params:
            self.vt[p] = self.simple_ty(t)

    def simple_ty(self, t):
        name = t[0]
        if name == 'Self':
            return self.selfty
        if name in ('usize', 'NonZeroUsize', 'isize'):
            return 'Z'
        if name == 'bool':
            return 'bool'
        if name == 'Option':
            return 'option'
        return name

    def fresh(self, base='t'):
        self.n += 1
        return '%s%d' % (base, self.n)

    def err(self, msg):
        raise TErr('%s::%s: %s' % (self.u.name, self.fname, msg))

    # --- helpers to assemble monadic code
    @staticmethod
    def wrap(binds, body):
        for pat, m in reversed(binds):
            if pat is None:
                body = 'let %s in\n%s' % (m, body)
            else:
                body = '%s <- %s ;;\n%s' % (pat, m, body)
        return body

    # --- expressions
    def ex(self, e):
        k = e[0]
        if k == 'int':
            return [], e[1], 'Z'
        if k == 'bool':
            return [], e[1], 'bool'
        if k == 'paren':
            return self.ex(e[1])
        if k == 'var':
            v = e[1]
            if v == 'None':
                return [], 'None', 'option'
            if v in self.vt:
                return [], cname(v), self.vt[v]
            if v in self.u.consts:
                return [], v, 'Z'
            self.err('unknown variable `%s`' % v)
        if k == 'path':
            self.err('unsupported path `%s`' % e[1])
        if k == 'erased':
            return [], 'tt', 'unit'
        if k == 'field':
            b, a, t = self.ex(e[1])
            if t in self.u.structs:
                ft = dict(self.u.structs[t]).get(e[2])
                if ft is None:
                    self.err('no field %s in %s' % (e[2], t))
                return b, '(%s%s %s)' % (PREFIX[t], e[2], a), self.simple_ty((ft.split('<')[0], []))
            self.err('field access on non-struct (%s).%s' % (t, e[2]))
        if k == 'cast':
            b, a, t = self.ex(e[1])
            if e[2] == 'isize':
                return b, '(as_isize %s)' % a, 'Z'
            if e[2] == 'usize':
                self.err('`as usize` is outside the supported subset')
            self.err('unsupported cast to ' + e[2])
        if k == 'not':
            b, a, t = self.ex(e[1])
            if t == 'bool':
                return b, '(negb %s)' % a, 'bool'
            return b, '(not64 %s)' % a, 'Z'
        if k == 'bin':
            return self.binop(e)
        if k == 'try':
            b, a, t = self.ex(e[1])
            if self.rty[0] != 'Option':
                self.err('`?` in a function that does not return Option')
            v = self.fresh()
            return b + [(v, '(try_opt %s)' % a)], v, 'Z'
        if k == 'call':
            return self.call(e)
        if k == 'mcall':
            return self.mcall(e)
        if k == 'struct':
            sname = e[1]
            binds = []
            parts = []
            if sname not in self.u.structs:
                self.err('unknown struct ' + sname)
            for f, val in e[2]:
                b, a, _ = self.ex(val)
                binds += b
                parts.append('%s%s := %s' % (PREFIX[sname], f, a))
            return binds, '{| %s |}' % '; '.join(parts), sname
        if k in ('if', 'iflet', 'block'):
            m, t = self.mexpr(e)
            if m[0] == 'pure':
                return [], m[1], t
            v = self.fresh()
            return [(v, m[1])], v, t
        if k == 'ret':
            v = self.fresh()
            b, a, _ = self.ex(e[1]) if e[1] is not None else ([], 'tt', 'unit')
            return b + [(v, '(Ret %s)' % a)], v, 'Z'
        self.err('unsupported expression kind ' + k)

    def binop(self, e):
        _, op, l, r = e
        bl, al, tl = self.ex(l)
        br, ar, tr = self.ex(r)
        if op in ('&&', '||'):
            if br:
                # right operand has effects: evaluate it only when Rust would
                v = self.fresh('c')
                inner = self.wrap(br, 'Norm %s' % ar)
                if op == '&&':
                    m = '(if %s then (%s) else Norm false)' % (al, inner)
                else:
                    m = '(if %s then Norm true else (%s))' % (al, inner)
                return bl + [(v, m)], v, 'bool'
            return bl, '(%s %s %s)' % (al, op, ar), 'bool'
        binds = bl + br
        if op in ('+', '-', '*', '%', '/'):
            fn = {'+': 'add', '-': 'sub', '*': 'mul', '%': 'rem', '/': 'divu'}[op]
            v = self.fresh()
            return binds + [(v, '(%s %s %s)' % (fn, al, ar))], v, 'Z'
        if op == '&':
            if tl == 'bool':
                return binds, '(%s && %s)' % (al, ar), 'bool'
            return binds, '(and64 %s %s)' % (al, ar), 'Z'
        if op == '|':
            self.err('`|` is outside the supported subset')
        if op in ('==', '!='):
            if tl == 'bool':
                s = '(Bool.eqb %s %s)' % (al, ar)
            else:
                s = '(%s =? %s)' % (al, ar)
            if op == '!=':
                s = '(negb %s)' % s
            return binds, s, 'bool'
        if op == '<':
            return binds, '(%s <? %s)' % (al, ar), 'bool'
        if op == '<=':
            return binds, '(%s <=? %s)' % (al, ar), 'bool'
        if op == '>':
            return binds, '(%s <? %s)' % (ar, al), 'bool'
        if op == '>=':
            return binds, '(%s <=? %s)' % (ar, al), 'bool'
        if op == '..':
            return binds, '(%s, %s)' % (al, ar), 'Range'
        self.err('unsupported operator ' + op)

    def call(self, e):
        _, name, args = e
        binds = []
        atoms = []
        for a in args:
            b, at, _ = self.ex(a)
            binds += b
            atoms.append(at)
        if name == 'unlikely':
            return binds, atoms[0], 'bool'
        if name == 'cold':
            return binds, 'tt', 'unit'
        if name == 'Some':
            return binds, '(Some %s)' % atoms[0], 'option'
        if name == 'NonZeroUsize::new':
            return binds, '(nonzero_new %s)' % atoms[0], 'option'
        if name in self.u.fnsigs:
            rt = self.u.fnsigs[name]
            v = self.fresh()
            return binds + [(v, '(call (%s %s))' % (cname(name), ' '.join(atoms)))], v, self.simple_ty(rt)
        self.err('call to unknown function `%s`' % name)

    def mcall(self, e):
        _, recv, name, args = e
        if name == 'debug_assert_valid':
            return [], 'tt', 'unit'
        b, a, t = self.ex(recv)
        binds = list(b)
        atoms = []
        for x in args:
            bx, ax, _ = self.ex(x)
            binds += bx
            atoms.append(ax)
        if t in self.u.structs and name in self.u.fnsigs and self.u.fnself.get(name) == t:
            v = self.fresh()
            rt = self.u.fnsigs[name]
            return binds + [(v, '(call (%s %s))' % (cname(name), ' '.join([a] + atoms)))], v, self.simple_ty(rt)
        if t == 'Layout' and name == 'size' and not atoms:
            return binds, '(lsize %s)' % a, 'Z'
        if t == 'Layout' and name == 'align' and not atoms:
            return binds, '(lalign %s)' % a, 'Z'
        if t == 'Z':
            pure2 = {'saturating_add': 'sat_add', 'saturating_sub': 'sat_sub', 'wrapping_sub': 'wrapping_sub',
                     'wrapping_add': 'wrapping_add', 'max': 'Z.max', 'min': 'Z.min'}
            opt2 = {'checked_add': 'checked_add', 'checked_sub': 'checked_sub', 'checked_mul': 'checked_mul'}
            if name in pure2 and len(atoms) == 1:
                return binds, '(%s %s %s)' % (pure2[name], a, atoms[0]), 'Z'
            if name in opt2 and len(atoms) == 1:
                return binds, '(%s %s %s)' % (opt2[name], a, atoms[0]), 'option'
            if name == 'checked_next_power_of_two' and not atoms:
                return binds, '(checked_next_pow2 %s)' % a, 'option'
            if name == 'is_power_of_two' and not atoms:
                return binds, '(is_pow2 %s)' % a, 'bool'
            if name == 'get' and not atoms:
                return binds, a, 'Z'
        if t == 'option' and name == 'unwrap_or' and len(atoms) == 1:
            return binds, '(match %s with Some uw_ => uw_ | None => %s end)' % (a, atoms[0]), 'Z'
        self.err('unsupported method `.%s` on %s' % (name, t))

    # --- monadic expression forms: returns (('pure'|'m', term), type)
    def mexpr(self, e):
        k = e[0]
        if k == 'block':
            saved = dict(self.vt)
            term, t, pure = self.block(e, want_value=True)
            self.vt = saved
            return (('pure', term) if pure else ('m', '(%s)' % term)), t
        if k == 'if':
            _, c, a, b = e
            bc, ac, _ = self.ex(c)
            if b is None:
                self.err('`if` without else used as a value')
            saved = dict(self.vt)
            ta, tya, pa = self.block(a, want_value=True)
            self.vt = dict(saved)
            tb, tyb, pb = self.block(b, want_value=True)
            self.vt = saved
            ty = tya if tya != 'never' else tyb
            if pa and pb and not bc:
                return ('pure', '(if %s then %s else %s)' % (ac, ta, tb)), ty
            if pa:
                ta = 'Norm %s' % ta
            if pb:
                tb = 'Norm %s' % tb
            return ('m', '(%s)' % self.wrap(bc, '(if %s then (%s) else (%s))' % (ac, ta, tb))), ty
        if k == 'iflet':
            _, pat, scrut, a, b = e
            if pat[0] != 'psome':
                self.err('only `if let Some(x)` is supported')
            bs, as_, _ = self.ex(scrut)
            saved = dict(self.vt)
            self.vt[pat[1]] = 'Z'
            ta, tya, pa = self.block(a, want_value=True)
            self.vt = dict(saved)
            tb, tyb, pb = self.block(b, want_value=True)
            self.vt = saved
            if pa:
                ta = 'Norm %s' % ta
            if pb:
                tb = 'Norm %s' % tb
            ty = tya if tya != 'never' else tyb
            return ('m', '(%s)' % self.wrap(bs, '(match %s with Some %s => (%s) | None => (%s) end)'
                                            % (as_, cname(pat[1]), ta, tb))), ty
        self.err('mexpr on ' + k)

    # --- assigned-variable analysis
    def assigned(self, blk, declared=None):
        """variables assigned in blk that are not declared inside it"""
        declared = set() if declared is None else set(declared)
        out = []
        def add(v):
            if v not in declared and v not in out:
                out.append(v)
        def walk_expr(x, decl):
            if not isinstance(x, tuple):
                return
            if x[0] == 'block':
                for v in self.assigned(x, decl):
                    add(v)
                return
            for y in x[1:]:
                if isinstance(y, tuple):
                    walk_expr(y, decl)
                elif isinstance(y, list):
                    for z in y:
                        if isinstance(z, tuple):
                            walk_expr(z, decl)
        _, stmts, tail = blk
        for s in stmts:
            if s[0] in ('let', 'letelse'):
                walk_expr(s[2], declared)
                if s[0] == 'letelse':
                    walk_expr(s[3], declared)
                pat = s[1]
                if pat[0] == 'pvar':
                    declared.add(pat[1])
                elif pat[0] == 'psome':
                    declared.add(pat[1])
                else:
                    for _, v in pat[2]:
                        declared.add(v)
            elif s[0] == 'letdecl':
                declared.add(s[1][1])
            elif s[0] == 'assign':
                walk_expr(s[2], declared)
                add(s[1])
            elif s[0] == 'expr':
                walk_expr(s[1], declared)
            elif s[0] == 'return':
                walk_expr(s[1], declared)
        if tail is not None:
            walk_expr(tail, declared)
        return out

    # --- blocks
    def block(self, blk, want_value, yield_vars=None):
        """Translate a block.  Returns (term, type, is_pure).
        want_value: the block's value is its tail expression (unit if none).
        yield_vars: instead, the block yields the tuple of these variables (statement-level if)."""
        _, stmts, tail = blk
        binds = []          # list of (pattern|None, term): None = pure let
        diverges = False
        for s in stmts:
            k = s[0]
            if k == 'let':
                pat, e = s[1], s[2]
                b, a, t = self.ex(e)
                binds += b
                if pat[0] == 'pvar':
                    if pat[1] != '_':
                        binds.append((None, '%s := %s' % (cname(pat[1]), a)))
                        self.vt[pat[1]] = t
                elif pat[0] == 'pstruct':
                    sname = pat[1]
                    if sname == 'Self':
                        sname = self.selfty
                    if sname not in self.u.structs:
                        self.err('unknown struct in pattern: ' + sname)
                    ftypes = dict(self.u.structs[sname])
                    for f, v in pat[2]:
                        if f not in ftypes:
                            self.err('no field %s in %s' % (f, sname))
                        if v == '_':
                            continue
                        binds.append((None, '%s := %s%s %s' % (cname(v), PREFIX[sname], f, a)))
                        self.vt[v] = self.simple_ty((ftypes[f].split('<')[0], []))
                else:
                    self.err('unsupported let pattern')
            elif k == 'letdecl':
                # `let mut x;` — definitely assigned before use in Rust; placeholder value
                v = s[1][1]
                binds.append((None, '%s := 0' % cname(v)))
                self.vt[v] = 'Z'
            elif k == 'letelse':
                pat, e, eb = s[1], s[2], s[3]
                if pat[0] != 'psome':
                    self.err('only `let Some(x) = e else {..}` is supported')
                b, a, _ = self.ex(e)
                binds += b
                saved = dict(self.vt)
                tb, _, pb = self.block(eb, want_value=True)
                self.vt = saved
                if pb:
                    self.err('else-branch of let-else must diverge')
                v = pat[1]
                binds.append((cname(v), '(match %s with Some %s => Norm %s | None => (%s) end)'
                              % (a, cname(v), cname(v), tb)))
                self.vt[v] = 'Z'
            elif k == 'assign':
                b, a, t = self.ex(s[2])
                binds += b
                if s[1] not in self.vt:
                    self.err('assignment to undeclared variable ' + s[1])
                binds.append((None, '%s := %s' % (cname(s[1]), a)))
            elif k == 'return':
                b, a, _ = self.ex(s[1]) if s[1] is not None else ([], 'tt', 'unit')
                binds += b
                diverges = True
                term = self.wrap_all(binds, 'Ret %s' % a)
                return term, 'never', False
            elif k == 'expr':
                e = s[1]
                if e[0] == 'erased':
                    continue
                if e[0] == 'mcall' and e[2] == 'debug_assert_valid':
                    continue
                if e[0] == 'call' and e[1] == 'cold':
                    continue
                if e[0] == 'if':
                    self.stmt_if(e, binds)
                    continue
                if e[0] == 'ret':
                    b, a, _ = self.ex(e[1]) if e[1] is not None else ([], 'tt', 'unit')
                    binds += b
                    return self.wrap_all(binds, 'Ret %s' % a), 'never', False
                b, a, t = self.ex(e)
                binds += b
            else:
                self.err('unsupported statement ' + k)
        if yield_vars is not None:
            if tail is not None:
                if tail[0] == 'if':
                    self.stmt_if(tail, binds)
                elif tail[0] == 'ret':
                    b, a, _ = self.ex(tail[1]) if tail[1] is not None else ([], 'tt', 'unit')
                    binds += b
                    return self.wrap_all(binds, 'Ret %s' % a), 'never', False
                elif tail[0] != 'erased':
                    b, a, t = self.ex(tail)
                    binds += b
            val = self.tuple(yield_vars)
            ty = 'tuple'
        elif tail is None:
            val, ty = 'tt', 'unit'
        else:
            if tail[0] == 'ret':
                b, a, _ = self.ex(tail[1]) if tail[1] is not None else ([], 'tt', 'unit')
                binds += b
                return self.wrap_all(binds, 'Ret %s' % a), 'never', False
            b, a, ty = self.ex(tail)
            binds += b
            val = a
        pure = all(p is None for p, _ in binds)
        if pure:
            return self.wrap_all(binds, val), ty, True
        return self.wrap_all(binds, 'Norm %s' % val), ty, False

    def wrap_all(self, binds, body):
        return self.wrap(binds, body)

    def tuple(self, vs):
        if not vs:
            return 'tt'
        if len(vs) == 1:
            return cname(vs[0])
        return '(%s)' % ', '.join(cname(v) for v in vs)

    def tuple_pat(self, vs):
        if not vs:
            return '_'
        if len(vs) == 1:
            return cname(vs[0])
        return "'(%s)" % ', '.join(cname(v) for v in vs)

    def stmt_if(self, e, binds):
        _, c, a, b = e
        bc, ac, _ = self.ex(c)
        binds += bc
        if b is None:
            b = ('block', [], None)
        vs = []
        for blk in (a, b):
            for v in self.assigned(blk):
                if v not in vs:
                    vs.append(v)
        for v in vs:
            if v not in self.vt:
                self.err('assignment to undeclared variable ' + v)
        saved = dict(self.vt)
        ta, _, pa = self.block(a, want_value=False, yield_vars=vs)
        self.vt = dict(saved)
        tb, _, pb = self.block(b, want_value=False, yield_vars=vs)
        self.vt = saved
        if pa and pb:
            if vs:
                binds.append((None, "%s := (if %s then %s else %s)" % (self.tuple_pat(vs), ac, ta, tb)))
            return
        if pa:
            ta = 'Norm %s' % ta
        if pb:
            tb = 'Norm %s' % tb
        binds.append((self.tuple_pat(vs), '(if %s then (%s) else (%s))' % (ac, ta, tb)))


class Unit:
    def __init__(self, name, src_path, only=None, skip=()):
        self.name = name
        raw = open(src_path).read()
        src = strip_attrs(strip_comments(raw))
        consts, structs, fns = find_items(src)
        self.consts = dict(consts)
        self.structs = {k: v for k, v in structs.items() if k in PREFIX}
        self.fns = []
        for name_, selfty, text in fns:
            if name_ in skip:
                continue
            if only is not None and name_ not in only:
                continue
            self.fns.append((name_, selfty, text))
        if only is not None:
            missing = [n for n in only if n not in [f[0] for f in self.fns]]
            if missing:
                raise TErr('%s: functions not found: %s' % (src_path, missing))
        self.fnsigs = {}
        self.fnself = {}
        self.parsed = []
        for name_, selfty, text in self.fns:
            p = Parser(lex(text), '%s::%s' % (self.name, name_))
            while not p.at('fn'):
                p.i += 1
            p.eat('fn')
            p.ident()
            if p.at('<'):
                p.fail('generic functions are outside the supported subset')
            p.eat('(')
            params = []
            while not p.at(')'):
                p.opt('mut')
                if p.at('self'):
                    p.i += 1
                    params.append(('self', ('Self', [])))
                else:
                    v = p.ident()
                    p.eat(':')
                    params.append((v, p.ty()))
                if not p.opt(','):
                    break
            p.eat(')')
            rty = ('unit', [])
            if p.opt('->'):
                rty = p.ty()
            body = p.block()
            self.fnsigs[name_] = rty
            if selfty:
                self.fnself[name_] = selfty
            self.parsed.append((name_, selfty, params, rty, body))

    def emit(self):
        out = []
        out.append('(* GENERATED by tools/rs2v.py from %s — do not edit *)' % self.name)
        out.append('From Coq Require Import ZArith Bool.')
        out.append('From BS Require Import Word.')
        out.append('Local Open Scope Z_scope.')
        out.append('Local Open Scope bool_scope.')
        out.append('Local Open Scope ctl_scope.')
        out.append('')
        for c, v in self.consts.items():
            out.append('Definition %s : Z := %s.' % (c, v))
        out.append('')
        for s, fields in self.structs.items():
            fs = '; '.join('%s%s : %s' % (PREFIX[s], f, coq_ty((t.split('<')[0], []), self.structs)) for f, t in fields)
            out.append('Record %s := mk%s { %s }.' % (s, s, fs))
        out.append('')
        # emit callees before callers (Coq needs definitions in dependency order)
        defs = {}
        deps = {}
        for name_, selfty, params, rty, body in self.parsed:
            deps[name_] = set()
            def walk(x, acc=deps[name_]):
                if isinstance(x, tuple):
                    if x and x[0] == 'call' and x[1] in self.fnsigs:
                        acc.add(x[1])
                    if x and x[0] == 'mcall' and x[2] in self.fnsigs:
                        acc.add(x[2])
                    for y in x:
                        walk(y)
                elif isinstance(x, list):
                    for y in x:
                        walk(y)
            walk(body)
        order = []
        def visit(n, stack=()):
            if n in order:
                return
            if n in stack:
                raise TErr('recursive function %s is outside the supported subset' % n)
            for d in sorted(deps[n]):
                visit(d, stack + (n,))
            order.append(n)
        for name_, *_ in self.parsed:
            visit(name_)
        byname = {p[0]: p for p in self.parsed}
        for name_, selfty, params, rty, body in [byname[n] for n in order]:
            tr = Tr(self, name_, selfty, params, rty)
            def cty(t):
                if t[0] == 'Self':
                    return selfty
                if t[0] == 'unit':
                    return 'unit'
                return coq_ty(t, self.structs)
            term, _, pure = tr.block(body, want_value=True)
            if pure:
                term = 'Norm (%s)' % term
            ps = ' '.join('(%s : %s)' % (cname(p), cty(t)) for p, t in params)
            R = cty(rty)
            out.append('Definition %s %s : res %s :=\n  run (R := %s) (\n%s).' % (cname(name_), ps, R, R, indent(term)))
            out.append('')
        return '\n'.join(out) + '\n'


def indent(s, n=4):
    return '\n'.join(' ' * n + l for l in s.split('\n'))


def write_if_changed(path, content):
    if os.path.exists(path) and open(path).read() == content:
        return False
    with open(path, 'w') as f:
        f.write(content)
    return True


def main():
    repo, outdir = sys.argv[1], sys.argv[2]
    os.makedirs(outdir, exist_ok=True)
    units = [
        ('Bumping', 'src/bumping.rs', None, ('cold', 'unlikely', 'debug_assert_valid')),
        ('SizeCfg', 'src/chunk/size_config.rs', None, ()),
        ('LibArith', 'src/lib.rs',
         ['up_align_usize_unchecked', 'down_align_usize', 'bump_down', 'min_non_zero_cap', 'align_pos'], ()),
    ]
    # the capacity-growth decisions of the vector types, cut out and rewritten by tools/capsites.py
    cap_rs = os.path.join(os.path.dirname(os.path.dirname(os.path.abspath(__file__))), '.cache', 'capsites.rs')
    import subprocess
    p = subprocess.run([sys.executable, os.path.join(os.path.dirname(os.path.abspath(__file__)), 'capsites.py'), repo, cap_rs],
                       stdout=subprocess.PIPE, stderr=subprocess.STDOUT, text=True)
    print(p.stdout.strip())
    rc = 0
    if p.returncode != 0:
        rc = 2
        # leave a stub that fails the proof build of the dependants instead of a stale model
        write_if_changed(os.path.join(outdir, 'CapSites.v'), '(* capsites.py failed: %s *)\nFrom BS Require Import Word.\nDefinition capsites_translation_failed : True := I.\n' % p.stdout.strip().replace('*)', '* )'))
    else:
        units.append(('CapSites', cap_rs, None, ()))
    # the position arithmetic of allocator_impl.rs, cut out and rewritten by tools/allocsites.py
    alloc_rs = os.path.join(os.path.dirname(cap_rs), 'allocsites.rs')
    p = subprocess.run([sys.executable, os.path.join(os.path.dirname(os.path.abspath(__file__)), 'allocsites.py'), repo, alloc_rs],
                       stdout=subprocess.PIPE, stderr=subprocess.STDOUT, text=True)
    print(p.stdout.strip())
    if p.returncode == 3:
        # a shape check failed; every function was cut: translate the unit, report the broken tie
        rc = 2
        units.append(('AllocSites', alloc_rs, None, ()))
    elif p.returncode != 0:
        rc = 2
        write_if_changed(os.path.join(outdir, 'AllocSites.v'), '(* allocsites.py failed: %s *)\nFrom BS Require Import Word.\nDefinition allocsites_translation_failed : True := I.\n' % p.stdout.strip().replace('*)', '* )'))
    else:
        units.append(('AllocSites', alloc_rs, None, ()))
    # the window arithmetic of FixedBumpVec::split_off, cut out branch by branch by tools/splitsites.py
    split_rs = os.path.join(os.path.dirname(cap_rs), 'splitsites.rs')
    p = subprocess.run([sys.executable, os.path.join(os.path.dirname(os.path.abspath(__file__)), 'splitsites.py'), repo, split_rs, os.path.join(outdir, 'SplitFacts.v')],
                       stdout=subprocess.PIPE, stderr=subprocess.STDOUT, text=True)
    print(p.stdout.strip())
    if p.returncode != 0:
        rc = 2
        write_if_changed(os.path.join(outdir, 'SplitSites.v'), '(* splitsites.py failed: %s *)\nFrom BS Require Import Word.\nDefinition splitsites_translation_failed : True := I.\n' % p.stdout.strip().replace('*)', '* )'))
    else:
        units.append(('SplitSites', split_rs, None, ()))
    for name, path, only, skip in units:
        try:
            u = Unit(name, path if os.path.isabs(path) else os.path.join(repo, path), only, skip)
            text = u.emit()
            ch = write_if_changed(os.path.join(outdir, name + '.v'), text)
            print('rs2v: %s.v %s (%d functions)' % (name, 'rewritten' if ch else 'unchanged', len(u.parsed)))
        except TErr as ex:
            print('rs2v: TRANSLATION FAILED for %s: %s' % (path, ex))
            rc = 2
    sys.exit(rc)


if __name__ == '__main__':
    main()
