#!/usr/bin/env python3
"""c17.py — twin / forwarding tables of bump-scope's entry points, regenerated from the CURRENT source.
   (1) twins: every pair of functions `X` / `try_X` of one impl or trait block: the two bodies, as token
       lists, after the normalisation below (the only differences the error behaviour may introduce);
   (2) forwards: every function whose body is a single call that passes its own parameters on
       (impl_for_ref!, impl_for_trait_object!, forward_methods!, the WithoutDealloc / WithoutShrink /
       Bump impls of the allocator traits): container, name, callee, parameter names, argument names."""
import re, sys, os, json

TOKEN = re.compile(r"[A-Za-z_][A-Za-z0-9_]*|[0-9][0-9A-Za-z_]*|'[A-Za-z_][A-Za-z0-9_]*|::|->|=>|==|!=|<=|>=|&&|\|\||\.\.=|\.\.|[-+*/%^&|!<>=?.,;:#@$~\[\]{}()]|\"(?:[^\"\\]|\\.)*\"|'(?:[^'\\]|\\.)'")

def strip_comments(src):
    out = []; i = 0; n = len(src)
    while i < n:
        if src.startswith('//', i):
            j = src.find('\n', i); i = n if j < 0 else j
        elif src.startswith('/*', i):
            depth = 1; i += 2
            while i < n and depth:
                if src.startswith('/*', i): depth += 1; i += 2
                elif src.startswith('*/', i): depth -= 1; i += 2
                else: i += 1
        elif src[i] == '"':
            j = i + 1
            while j < n and src[j] != '"':
                j += 2 if src[j] == '\\' else 1
            out.append(src[i:j+1]); i = j + 1
        else:
            out.append(src[i]); i += 1
    return ''.join(out)

def match_close(s, i, open_='{', close='}'):
    """s[i] == open_; index of the matching close"""
    depth = 0
    while i < len(s):
        c = s[i]
        if c == '"':
            i += 1
            while i < len(s) and s[i] != '"':
                i += 2 if s[i] == '\\' else 1
        elif c == open_: depth += 1
        elif c == close:
            depth -= 1
            if depth == 0: return i
        i += 1
    raise ValueError('unbalanced')

FWD = re.compile(r"for \$ty|for WithoutDealloc|for WithoutShrink|for &mut B|for &B|Allocator for &mut A|Allocator for &A|macro_rules! forward_methods|macro_rules! impl_allocator_via_allocator")
FN = re.compile(r"\bfn\s+([A-Za-z_][A-Za-z0-9_]*)")

def functions(src):
    """yield (name, params_text, body_text, start_offset) for every fn with a body"""
    for m in FN.finditer(src):
        name = m.group(1)
        i = m.end()
        # generics
        while i < len(src) and src[i].isspace(): i += 1
        if i < len(src) and src[i] == '<':
            depth = 0
            while i < len(src):
                if src[i] == '<': depth += 1
                elif src[i] == '>' and src[i-1] != '-':
                    depth -= 1
                    if depth == 0: i += 1; break
                i += 1
        while i < len(src) and src[i].isspace(): i += 1
        if i >= len(src) or src[i] != '(': continue
        j = match_close(src, i, '(', ')')
        params = src[i+1:j]
        # body: first '{' at depth 0 before a ';'
        k = j + 1; depth_a = 0
        while k < len(src):
            c = src[k]
            if c == '<': depth_a += 1
            elif c == '>' and src[k-1] != '-' and depth_a > 0: depth_a -= 1
            elif c == ';' : k = -1; break
            elif c == '{': break
            k += 1
        if k < 0 or k >= len(src): continue
        e = match_close(src, k)
        yield name, params, src[k+1:e], m.start()

def param_names(params):
    names = []
    depth = 0; cur = ''
    prev = ''
    for ch in params + ',':
        if ch in '<([{': depth += 1
        elif ch in ')]}' or (ch == '>' and prev != '-'): depth -= 1
        prev = ch
        if ch == ',' and depth == 0:
            p = cur.strip(); cur = ''
            if not p: continue
            p = re.sub(r"^#\[[^\]]*\]\s*", '', p)
            if re.match(r"^(&\s*('[a-z_]+\s+)?(mut\s+)?)?\$?self\b", p) or p in ('self', 'mut self'): names.append('self'); continue
            nm = p.split(':', 1)[0].strip()
            nm = re.sub(r"^mut\s+", '', nm)
            names.append(nm)
        else:
            cur += ch
    return names

def tokens(body):
    body = re.sub(r"#!?\[[^\]]*\]", ' ', body)       # attributes
    return TOKEN.findall(body)

DROP = {'(', ')', '?', 'Ok', 'panic_on_error', 'unsafe', '{', '}'}
def normalise(toks):
    """what may differ between X and try_X: the try_ prefix of what is called, `?`, the Ok(..) around results,
       panic_on_error(..), the turbofish that picks the error type; grouping tokens are dropped on both sides"""
    out = []; i = 0
    while i < len(toks):
        t = toks[i]
        # ::<AllocError> / ::<Infallible> / ::<B> / ::<E>
        if t == '::' and i + 3 < len(toks) and toks[i+1] == '<' and toks[i+2] in ('AllocError', 'Infallible', 'B', 'E', '_') and toks[i+3] == '>':
            i += 4; continue
        if t in DROP: i += 1; continue
        # `.map(drop)`: the value is discarded, as the `;` after panic_on_error(..) does on the other side
        if t == '.' and toks[i+1:i+5] == ['map', '(', 'drop', ')']: i += 5; continue
        if t.startswith('try_'): t = t[4:]
        out.append(t); i += 1
    while out and out[-1] == ';': out.pop()
    return out

def blocks(src):
    """top-level `impl ... {}` / `trait ... {}` / `macro_rules! name {}` regions: (header, start, end)"""
    res = []
    for m in re.finditer(r"(?m)^\s*(?:pub(?:\([a-z]+\))?\s+)?(?:unsafe\s+)?(impl\b|trait\b|macro_rules!\s*)([^{;]*)\{", src):
        k = m.end() - 1
        try: e = match_close(src, k)
        except ValueError: continue
        res.append((re.sub(r"\s+", ' ', (m.group(1) + m.group(2)).strip())[:90], k, e))
    return res

def extract(repo):
    twins = []; forwards = []
    srcdir = os.path.join(repo, 'src')
    files = []
    for root, _, fs in os.walk(srcdir):
        for f in fs:
            if f.endswith('.rs'): files.append(os.path.join(root, f))
    for path in sorted(files):
        rel = os.path.relpath(path, repo)
        if rel.startswith('src/tests') or '/tests/' in rel or rel.endswith('tests.rs'): continue
        src = strip_comments(open(path).read())
        bl = blocks(src)
        fns = list(functions(src))
        def container(off):
            best = None
            for (h, s, e) in bl:
                if s < off < e and (best is None or s > best[1]): best = (h, s, e)
            return best[0] if best else '(file)'
        by = {}
        for (name, params, body, off) in fns:
            by.setdefault((container(off), name), []).append((params, body, off))
        for (cont, name), lst in sorted(by.items()):
            if name.startswith('try_') and (cont, name[4:]) in by:
                for (p1, b1, _), (p2, b2, _) in zip(by[(cont, name[4:])], lst):
                    twins.append({'file': rel, 'container': cont, 'name': name[4:], 'plain': normalise(tokens(b1)), 'try': normalise(tokens(b2)),
                                  'params_plain': param_names(p1), 'params_try': param_names(p2)})
        # forwarding containers: every function is recorded, as a forward (one call that passes the
        # parameters on) or with its tokens
        for (name, params, body, off) in fns:
            cont = container(off)
            if not FWD.search(cont) or not (rel.startswith('src/traits/') or rel in ('src/without_dealloc.rs', 'src/features/allocator_util.rs', 'src/alloc.rs')): continue
            t = tokens(body)
            t2 = [x for x in t if x not in ('unsafe', '{', '}')]
            while t2 and t2[-1] == ';': t2.pop()
            wrapped = False
            if len(t2) > 3 and t2[0] == 'panic_on_error' and t2[1] == '(' and t2[-1] == ')':
                wrapped = True; t2 = t2[2:-1]
            # the allocator compatibility layer converts the error type of the result, nothing else
            if rel == 'src/features/allocator_util.rs' and t2[-7:] == ['.', 'map_err', '(', 'Into', '::', 'into', ')']:
                t2 = t2[:-7]
            s_ = ' '.join(t2)
            mm = re.match(r"^((?:[A-Za-z_][A-Za-z0-9_]* :: )+)([A-Za-z_][A-Za-z0-9_]*)(?: :: < [^()]* >)? \( (.*) \)$", s_)
            row = {'file': rel, 'container': cont, 'name': name, 'params': param_names(params)}
            mc = re.match(r"^(self(?: \. 0)?|\( \* \* self \)) \. ([A-Za-z_][A-Za-z0-9_]*) \( (.*) \)$", s_)
            if mc and '(' not in mc.group(3):
                row.update({'kind': 'forward', 'path': 'method:', 'callee': mc.group(2),
                            'args': [mc.group(1)] + [a.strip() for a in mc.group(3).split(' , ') if a.strip()], 'wrapped': wrapped})
            elif mm and '(' not in mm.group(3):
                row.update({'kind': 'forward', 'path': mm.group(1).replace(' ', ''), 'callee': mm.group(2),
                            'args': [a.strip() for a in mm.group(3).split(' , ') if a.strip()], 'wrapped': wrapped})
            else:
                row.update({'kind': 'other', 'tokens': t2})
            forwards.append(row)
    return twins, forwards


# ---------------------------------------------------------------- the rules (mirrored in coq/TwinSpec.v)
RECEIVERS = ['self', '$ access', '$ access_mut', '& self . 0', 'self . 0', '$ accessor', '( * * self )']
# functions of forwarding containers that are not a plain forward, with the reason
ALLOWED_OTHER = {
    ('typed_stats', 'self . any_stats ( )'): 'trait objects report type-erased statistics',
    ('shrink_slice', '_ = ( ptr , old_len , new_len ) ; None'): 'WithoutShrink never shrinks',
    ('deallocate', 'let _ = ( ptr , layout )'): 'WithoutDealloc never deallocates',
}
def strip_try(n): return n[4:] if n.startswith('try_') else n

def is_wrapper(twins, a):
    return any(t['name'] == a and t['plain'][:3] == ['self', '.', 'generic_' + a] for t in twins)

def twin_ok(twins, t):
    a, b = t['plain'], t['try']
    if len(a) != len(b) or t['params_plain'] != t['params_try']: return False
    return all(x == y or ('generic_' + x == y and is_wrapper(twins, x)) for x, y in zip(a, b))

def forward_ok(f):
    if f['kind'] == 'other':
        return (f['name'], ' '.join(f['tokens'])) in ALLOWED_OTHER or f['name'] in ('shrink', 'shrink_unfit')
    same = f['callee'] == f['name'] or (f['path'] == 'for_trait_object::' and f['callee'] == strip_try(f['name']))
    if f['wrapped'] and f['path'] != 'for_trait_object::': return False
    p, a = f['params'], f['args']
    if p and p[0] == 'self':
        return same and len(a) == len(p) and a[0] in RECEIVERS and a[1:] == p[1:]
    return same and a == p

def coq_str(x): return '"' + x.replace('"', '""') + '"'
def coq_list(l): return '[' + '; '.join(coq_str(x) for x in l) + ']'

def write_coq(twins, forwards, outdir):
    L = ['(* GENERATED by tools/c17.py from the current source — do not edit *)',
         'From Coq Require Import String List Bool.', 'From BS Require Import TwinSpec.', 'Import ListNotations.', 'Local Open Scope string_scope.', '']
    L.append('Definition twins : list twin := [')
    L.append(';\n'.join('  mkTwin %s %s %s\n    %s\n    %s\n    %s %s' % (coq_str(t['file']), coq_str(t['container']), coq_str(t['name']), coq_list(t['plain']), coq_list(t['try']),
                                                                  coq_list(t['params_plain']), coq_list(t['params_try'])) for t in twins))
    L.append('].'); L.append('')
    L.append('Definition forwards : list fwd := [')
    rows = []
    for f in forwards:
        if f['kind'] == 'forward':
            k = '(Forward %s %s %s %s)' % (coq_str(f['path']), coq_str(f['callee']), coq_list(f['args']), 'true' if f['wrapped'] else 'false')
        else:
            k = '(Other %s)' % coq_str(' '.join(f['tokens']) if f['name'] not in ('shrink', 'shrink_unfit') else '(body modelled in Arena.ws_shrink)')
        rows.append('  mkFwd %s %s %s %s\n    %s' % (coq_str(f['file']), coq_str(f['container']), coq_str(f['name']), coq_list(f['params']), k))
    L.append(';\n'.join(rows)); L.append('].'); L.append('')
    text = '\n'.join(L) + '\n'
    path = os.path.join(outdir, 'Twins.v')
    old = open(path).read() if os.path.exists(path) else None
    if old != text:
        with open(path, 'w') as fh: fh.write(text)
    return old != text

if __name__ == '__main__' and len(sys.argv) > 1 and sys.argv[1] == '--tables':
    repo, outdir = sys.argv[2], sys.argv[3]
    try:
        twins, forwards = extract(repo)
        changed = write_coq(twins, forwards, outdir)
    except Exception as e:
        # a stub that makes the proof obligation fail visibly rather than silently
        with open(os.path.join(outdir, 'Twins.v'), 'w') as fh:
            fh.write('From BS Require Import TwinSpec.\nImport ListNotations.\nDefinition twins : list twin := [].\nDefinition forwards : list fwd := [].\n')
        print('c17: extraction failed: %r' % (e,)); sys.exit(1)
    badt = [t for t in twins if not twin_ok(twins, t)]
    badf = [f for f in forwards if not forward_ok(f)]
    print('c17: Twins.v %s (%d twin pairs, %d functions in forwarding containers; %d + %d rows violate the rules)' % ('rewritten' if changed else 'unchanged', len(twins), len(forwards), len(badt), len(badf)))
    for t in badt[:8]:
        a, b = t['plain'], t['try']; k = 0
        while k < min(len(a), len(b)) and a[k] == b[k]: k += 1
        print('c17: TWIN DIVERGES %s | %s | %s / try_%s: ... %s  vs  ... %s' % (t['file'], t['container'][:60], t['name'], t['name'], ' '.join(a[max(0, k-4):k+8]), ' '.join(b[max(0, k-4):k+8])))
    for f in badf[:8]:
        print('c17: FORWARD BROKEN %s | %s | %s: %s' % (f['file'], f['container'][:60], f['name'], json.dumps({k: v for k, v in f.items() if k in ('path', 'callee', 'params', 'args', 'wrapped', 'tokens')})[:300]))
    sys.exit(0)

if __name__ == '__main__':
    repo = sys.argv[1]
    twins, forwards = extract(repo)
    bad = [t for t in twins if t['plain'] != t['try']]
    print(len(twins), 'twin pairs;', len(bad), 'differ after normalisation;', len(forwards), 'functions in forwarding containers;', len([f for f in forwards if f['kind']=='other']), 'not a plain forward')
    for f in forwards:
        if f['kind']=='other': print('  other:', f['file'], '|', f['container'][:60], '|', f['name'], '|', ' '.join(f['tokens'])[:120])
    for t in bad[:int(sys.argv[2]) if len(sys.argv) > 2 else 10]:
        print('---', t['file'], '|', t['container'], '|', t['name'])
        a, b = t['plain'], t['try']
        k = 0
        while k < min(len(a), len(b)) and a[k] == b[k]: k += 1
        print('   plain:', ' '.join(a[max(0,k-6):k+12])); print('   try  :', ' '.join(b[max(0,k-6):k+12]))
