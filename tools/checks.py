"""Per-property checks.  Each check_Cxx(ctx) returns the process exit code."""
import os, json, re, time
from vlib import *


# ----------------------------------------------------------------------------------------
# shared: arithmetic correspondence (C11; reused by C12 for the size policy)
# ----------------------------------------------------------------------------------------
def run_arith(ctx, cases, seeds, inputs_file=None, binname='arith'):
    """run the real functions (debug and release builds) and compare with extracted gen + spec.
    returns (summary, mismatch-lines)"""
    total = {'cases': 0, 'impl_vs_spec': 0, 'gen_vs_impl': 0, 'gen_vs_spec': 0}
    mism = []
    samples = []
    for release in (False, True):
        exe = ctx.cargo_build(binname, release=release)
        if exe is None:
            return None, []
        for sd in seeds:
            trace = os.path.join(CACHE, '%s_%s_%d.txt' % (binname, 'rel' if release else 'dbg', sd))
            if inputs_file:
                cmd = '%s --inputs %s > %s' % (exe, inputs_file, trace)
            else:
                cmd = '%s --seed %d --cases %d > %s' % (exe, sd, cases, trace)
            rc, out, dt = sh(cmd, timeout=1200)
            if rc != 0:
                ctx.problems.append(('harness', '%s harness failed rc=%d: %s' % (binname, rc, out[-500:])))
                continue
            rc, out, dt2 = sh('%s %s < %s' % (DRV, binname, trace), timeout=1800)
            if rc != 0:
                ctx.problems.append(('driver', 'drv %s failed: %s' % (binname, out[-500:])))
                continue
            for l in out.split('\n'):
                if l.startswith('MISMATCH') or l.startswith('PROPFAIL'):
                    mism.append(('release' if release else 'debug', l))
                elif l.startswith('SUMMARY'):
                    s = json.loads(l[len('SUMMARY '):])
                    for k, v in s.items():
                        if isinstance(v, dict):
                            d = total.setdefault(k, {})
                            for kk, vv in v.items():
                                d[kk] = d.get(kk, 0) + vv
                        elif k == 'header_layouts':
                            total[k] = max(total.get(k, 0), v)
                        else:
                            total[k] = total.get(k, 0) + v
            if not samples:
                with open(trace, errors='replace') as f:
                    samples = [next(f).strip() for _ in range(4)]
            # distinct inputs (measured): count distinct lines of the trace
            rc, out, _ = sh("sort -u %s | wc -l" % trace)
            total.setdefault('distinct_lines', 0)
            total['distinct_lines'] += int(out.strip() or 0)
            os.remove(trace)
    total['samples'] = samples
    return total, mism


def parse_propfail(line):
    m = re.match(r'PROPFAIL input=(.*?) (?:why=(\S+)|spec=(\S+) gen=(\S+) impl=(\S+))\s*$', line)
    if not m:
        return None
    return {'input': m.group(1), 'why': m.group(2), 'spec': m.group(3), 'gen': m.group(4), 'impl': m.group(5)}


def parse_mismatch(line):
    m = re.match(r'MISMATCH kind=(\S+) input=(.*?) spec=(\S+) gen=(\S+) impl=(\S+)\s*$', line)
    if not m:
        return None
    return {'kind': m.group(1), 'input': m.group(2), 'spec': m.group(3), 'gen': m.group(4), 'impl': m.group(5)}


def check_C11(ctx):
    target = 'Properties/C11'
    ctx.regen()
    ok, out = ctx.coq_build(target)
    nthm, nclosed = (0, 0)
    if ok:
        nthm, nclosed = ctx.check_assumptions(target, out)
    else:
        nthm = len(ctx.pinned(target)[0])
    ctx.grep_forbidden()
    if ctx.tier == 'thorough' and ok:
        ctx.coqchk(target)
    drv_ok = ctx.build_driver()
    cases = 150_000 if ctx.tier == 'quick' else 2_000_000
    seeds = [ctx.seed] if ctx.tier == 'quick' else [ctx.seed, ctx.seed + 1000003]
    summary = None
    if drv_ok:
        summary, mism = run_arith(ctx, cases, seeds)
        broken = bool(ctx.problems)
        if summary is not None:
            if (broken or summary['gen_vs_impl'] or summary['gen_vs_spec'] or summary['impl_vs_spec']) and not summary.get('prop_fail'):
                # failing-input search: more seeds, more cases
                ctx.say('proof or tie broken: searching for a concrete failing input')
                s2, m2 = run_arith(ctx, 1_000_000, [ctx.seed + 7, ctx.seed + 77, ctx.seed + 777])
                if s2:
                    mism += m2
                    for k in ('cases', 'impl_vs_spec', 'gen_vs_impl', 'gen_vs_spec', 'prop_fail'):
                        summary[k] = summary.get(k, 0) + s2.get(k, 0)
            for mode, l in mism:
                pf = parse_propfail(l)
                if not pf:
                    continue
                fnname = {'U': 'bump_up', 'D': 'bump_down', 'PU': 'bump_prepare_up', 'PD': 'bump_prepare_down'}[pf['input'].split()[0]]
                ctx.violations.append({
                    'kind': 'arith-input', 'function': fnname, 'build': mode,
                    'input_fields': 'fn start end min_align size align align_is_const size_is_const size_is_multiple_of_align -> impl result',
                    'input': pf['input'], 'expected_spec': pf['spec'], 'observed_impl': pf['impl'],
                    'generated_model': pf['gen'],
                    'signature': 'arith:%s' % fnname,
                    'how_to_replay': 'tools/vcheck C11 --replay <this file>',
                })
            if summary['impl_vs_spec'] and not summary.get('prop_fail'):
                ctx.problems.append(('tie', 'the compiled code differs from the specification on %d inputs in a way the property allows (e.g. a larger but valid new position); the refinement theorem no longer describes the code; first: %s'
                                     % (summary['impl_vs_spec'], next((l for _, l in mism if 'impl_vs_spec' in l), ''))))
            if summary['gen_vs_impl'] and not summary['impl_vs_spec']:
                ctx.problems.append(('tie', 'generated model and compiled code disagree on %d inputs (translator or extraction infidelity); first: %s'
                                     % (summary['gen_vs_impl'], next((l for _, l in mism if 'gen_vs_impl' in l), ''))))
            if summary['gen_vs_spec'] and not summary['impl_vs_spec'] and not summary['gen_vs_impl']:
                ctx.problems.append(('tie', 'generated model disagrees with the specification although the proof checked (stale build?)'))
            ctx.cov.update({
                'evaluations': summary['cases'],
                'distinct_nontrivial': summary.get('distinct_lines', 0),
                'rule': 'boundary-biased valid inputs (regular ranges near 0, 2^63, 2^64, the -16 dummy range; sizes around the fitting boundary; alignments 1..2^63; all 8 hint combinations that are truthful) from one splitmix64 stream; each run on the debug and the release build of the real src/bumping.rs; non-trivial = every case (each reaches a comparison of the code), distinct = distinct trace lines (sort -u)',
                'samples': summary['samples'],
                'traces_validated_against_impl': summary['cases'],
                'input_distribution': {k: summary[k] for k in ('spec_some', 'spec_none', 'dummy_range', 'by_fn_hints')},
                'mismatches': {k: summary.get(k, 0) for k in ('prop_fail', 'impl_vs_spec', 'gen_vs_impl', 'gen_vs_spec')},
            })
    return ctx.finish(level='proof', obligations=nthm, discharged=nclosed,
                      checker_cmd='make -C coq Properties/C11.vo (coqc 8.16.1; Print Assumptions under each theorem)' + ('; coqchk -o' if ctx.tier == 'thorough' else ''),
                      extra_assumptions=['usize is 64 bit', 'inputs satisfy BumpProps::debug_assert_valid and Layout validity (the Valid predicates of BumpSpec.v)'])


def replay_C11(ctx, path):
    r = json.load(open(path))
    if r.get('kind') != 'arith-input':
        print('replay file names a broken proof/tie, not an input:', json.dumps(r.get('broken', r), indent=1)[:3000])
        return check_C11(ctx)
    inp = os.path.join(CACHE, 'replay_inputs.txt')
    with open(inp, 'w') as f:
        f.write(' '.join(r['input'].split()[:9]) + '\n')
    ctx.build_driver()
    s, mism = run_arith(ctx, 0, [0], inputs_file=inp)
    bad = [l for _, l in mism if l.startswith('PROPFAIL')]
    for mode, l in mism:
        print(mode, l)
    if bad:
        p = ctx.write_replay('violation', r)
        print('VIOLATION property=C11 replay=%s' % p)
        return 1
    print('replayed input agrees with the specification on the current tree')
    return 0


# ----------------------------------------------------------------------------------------
ARENA_C12 = dict(
    x=['chunk-smaller-than-twice-its-predecessor-less-16', 'chunk-size-not-multiple-of-16', 'chunk-outside-granted-block',
       'reserve-did-not-provide-capacity'],
    mism=['base-allocator-events'])


def check_C12(ctx):
    target = 'Properties/C12'
    ctx.regen()
    ok, out = ctx.coq_build(target)
    nthm, nclosed = (0, 0)
    if ok:
        nthm, nclosed = ctx.check_assumptions(target, out)
    else:
        nthm = len(ctx.pinned(target)[0])
    ctx.grep_forbidden()
    if ctx.tier == 'thorough' and ok:
        ctx.coqchk(target)
    drv_ok = ctx.build_driver()
    cases = 100_000 if ctx.tier == 'quick' else 1_500_000
    seeds = [ctx.seed] if ctx.tier == 'quick' else [ctx.seed, ctx.seed + 1000003]
    if drv_ok:
        summary, mism = run_arith(ctx, cases, seeds, binname='sizecfg')
        if summary is not None:
            broken = bool(ctx.problems)
            if (broken or summary['gen_vs_impl'] or summary['gen_vs_spec'] or summary['impl_vs_spec']) and not summary.get('prop_fail'):
                ctx.say('proof or tie broken: searching for a concrete failing input')
                s2, m2 = run_arith(ctx, 700_000, [ctx.seed + 7, ctx.seed + 77, ctx.seed + 777], binname='sizecfg')
                if s2:
                    mism += m2
                    for k in ('cases', 'impl_vs_spec', 'gen_vs_impl', 'gen_vs_spec', 'prop_fail'):
                        summary[k] = summary.get(k, 0) + s2.get(k, 0)
            for mode, l in mism:
                pf = parse_propfail(l)
                if not pf:
                    continue
                tag = pf['input'].split()[0]
                what = {'H': 'calc_hint_from_capacity', 'Z': 'calc_size_from_hint', 'A': 'align_size',
                        'F': 'fresh chunk (size policy + real bump functions on the new chunk range)'}[tag]
                ctx.violations.append({
                    'kind': 'sizecfg-input', 'function': what, 'build': mode, 'what_fails': pf['why'],
                    'input_fields': {'H': 'H up hs ha size align -> result', 'Z': 'Z up hs ha hint -> result',
                                     'A': 'A up hs ha size -> result',
                                     'F': 'F up hs ha min_align size align min_chunk_size prev_chunk_size extra_granted base -> S hint n usable fits(1/0)'}[tag],
                    'input': pf['input'],
                    'signature': 'sizecfg:%s:%s' % (tag, pf['why']),
                })
            if summary['impl_vs_spec'] and not summary.get('prop_fail'):
                ctx.problems.append(('tie', 'the compiled size policy differs from the specified policy on %d inputs without violating the property on any explored input; the refinement theorems no longer describe the code; first: %s'
                                     % (summary['impl_vs_spec'], next((l for _, l in mism if 'impl_vs_spec' in l), ''))))
            if summary['gen_vs_impl'] and not summary['impl_vs_spec']:
                ctx.problems.append(('tie', 'generated model and compiled code disagree on %d inputs; first: %s'
                                     % (summary['gen_vs_impl'], next((l for _, l in mism if 'gen_vs_impl' in l), ''))))
            if summary.get('model_nofit'):
                ctx.problems.append(('model', 'the specification itself produced a fresh chunk that does not fit (contradicts the theorem: stale build?)'))
            # the composition around the translated functions (raw_bump.rs: grow_size, append_for, NonDummyChunk::new;
            # chunk/size.rs) is hand-modelled in Arena.v: the growth and fit clauses are also decided on arena histories
            ares = run_arena(ctx, 160 if ctx.tier == 'quick' else 3000, 50, seeds, binname='arena')
            if ares is not None:
                arena_verdict(ctx, 'C12', ares, ARENA_C12)
                summary['arena_steps'] = ares['summary']['steps']
            ctx.cov.update({
                'arena_histories': {'steps': summary.get('arena_steps', 0), 'monitors': ARENA_C12['x'], 'compared_with_model': ARENA_C12['mism']},
                'evaluations': summary['cases'],
                'distinct_nontrivial': summary.get('distinct_lines', 0),
                'rule': 'random header layouts derived from allocator value layouts (size 0..256, align 1..256), layouts with sizes around powers of two / page multiples / the isize limit, alignments up to 2^63 (2^29 for the fresh-chunk cases), hints up to 2^64-1; kinds: H=calc_hint_from_capacity, Z=calc_size_from_hint, A=align_size, F=whole fresh-chunk path (hint, max with 2*prev and minimum chunk size, size, granted = size+extra, usable = align_size, then the REAL bump_up/bump_down/prepare on the fresh range for all three LayoutProps classes); debug and release builds; distinct = distinct trace lines',
                'samples': summary['samples'],
                'traces_validated_against_impl': summary['cases'],
                'input_distribution': {'by_kind': summary.get('by_kind'), 'header_layouts': summary.get('header_layouts')},
                'mismatches': {k: summary.get(k, 0) for k in ('prop_fail', 'impl_vs_spec', 'gen_vs_impl', 'gen_vs_spec')},
            })
    return ctx.finish(level='proof', obligations=nthm, discharged=nclosed,
                      checker_cmd='make -C coq Properties/C12.vo (coqc 8.16.1; Print Assumptions under each theorem)' + ('; coqchk -o' if ctx.tier == 'thorough' else ''),
                      extra_assumptions=['usize is 64 bit', 'header layout satisfies hdr_ok (ha power of two, 16 <= ha <= 2^32, ha | hs, 32 <= hs <= 2^40): true for every ChunkHeader<A>',
                                         'the composition in src/chunk/size.rs and NonDummyChunk::new (max with MINIMUM_CHUNK_SIZE and 2*previous, header placement) is hand-modelled; it is tied to the real arena by the arena correspondence (C01/C10 checks)'])


def replay_C12(ctx, path):
    r = json.load(open(path))
    print(json.dumps(r, indent=1)[:3000])
    return check_C12(ctx)


# ----------------------------------------------------------------------------------------
# arena-based properties: C01 C02 C03 C05 C07 C10 C13 (C14, C15, C17, C18 when modelled)
# ----------------------------------------------------------------------------------------
ARENA = {
    'C01': dict(
        x=['block-outside-owned-memory', 'block-misaligned', 'live-blocks-overlap', 'block-smaller-than-requested', 'panic'],
        mism=['result-block', 'result-kind', 'stats'],
        quick_x=(160, 50),
        search_x=True,
        note='invariant preservation proved for EVERY modelled operation under its contract and lifted to all histories (ArenaInv2.run_inv), also to histories in which the owners divide live blocks (ArenaSplit.xrun_inv: split-off parts are separate live blocks; the harness splits blocks and then deallocates / grows / shrinks the parts); partial only in that the model itself is tied to the code by correspondence'),
    'C02': dict(
        x=['block-contents-changed', 'grow-lost-contents', 'shrink-lost-contents', 'zeroed-allocation-not-zero',
           'grow-zeroed-tail-not-zero', 'MODELUB', 'panic'],
        mism=['block-contents', 'result-block'],
        quick_x=(160, 50),
        search_x=True,
        note='frame and contents proved for allocate/allocate_zeroed/fill, all non-writing operations and every branch of grow(_zeroed)/shrink incl. that the bytes of all other live blocks are untouched'),
    'C03': dict(
        x=['scope-exit-did-not-restore-allocated', 'scope-exit-did-not-restore-position', 'scope-exit-released-a-chunk',
           'reset-to-start-did-not-rewind-to-the-first-chunk', 'scoped-aligned-exit-not-exactly-entry-position', 'block-contents-changed', 'panic',
           'reset-loop-requested-with-room', 'reset-loop-keeps-requesting', 'reset-loop-left-more-than-one-chunk',
           'reset-loop-survivor-shrank', 'reset-loop-bound-exceeded'],
        mism=['stats', 'base-allocator-events'],
        quick_x=(120, 40),
        search_x=True,
        note='restoration theorems, invariant preservation (reset_to, alloc_try_with Err, scoped_aligned exit), replay_needs_no_chunk and the convergence of a reset() loop (ArenaLoop: reset_loop_converges, loop_quiet_forever) proved over the model; the statements of the loop lemmas are also evaluated on the implementation (reset-loop probe of arena_x). Partial only in that the model is tied to the code by correspondence and that a base allocator which refuses requests is outside the loop theorem'),
    'C05': dict(
        x=['base-allocator-ledger', 'chunks-not-released-exactly-once-by-drop', 'reset-did-not-keep-exactly-the-largest-chunk',
           'reset-to-start-called-the-base-allocator', 'chunk-outside-granted-block', 'scope-exit-released-a-chunk', 'panic'],
        mism=['base-allocator-events', 'init-result'],
        note='exactly-once release and fitting layouts proved over the model; every byte the arena itself changes (zeroing, grow / shrink / commit copies, fill) lies inside a granted block it still holds (ArenaWrites.v); PARTIAL: header writes and reads are not modelled: no-touch-after-release for those is monitored only (poison, guard bytes)'),
    'C07': dict(
        x=['panic', 'block-contents-changed', 'base-allocator-ledger', 'stats-identity', 'live-blocks-overlap'],
        mism=['result-kind', 'base-allocator-events', 'stats'],
        colls_x=['overflow:', 'a failed reserve', 'capacity: a failed', 'although the length would overflow', 'the crate panicked in a try_'],
        colls_mism=[' capacity '],
        pool_x=['try-get-panicked'],
        quick_x=(160, 40),
        search_x=True,
        note='arena-level failure theorems proved; collection level: for BumpVec / FixedBumpVec / MutBumpVec(Rev) the capacity model VecCap.v is proved atomic (a failed reserve / push / extend leaves length and capacity as they were; overflowing requests are errors without an allocator call) and replayed from capacity histories with injected refusals; PARTIAL: strings and the contents after a failure are probed on the implementation only'),
    'C10': dict(
        x=['stats-identity', 'chunk-list-forward-backward-differ', 'chunk-not-larger-than-predecessor',
           'chunk-size-not-multiple-of-16', 'position-outside-content-range', 'position-not-multiple-of-min-align',
           'any-stats-differ-from-typed-stats', 'chunk-outside-granted-block', 'panic'],
        mism=['stats'],
        note='identities, position and geometry proved from the invariant, strict growth of chunk sizes proved for every reachable state; PARTIAL: forward/backward list equality and the type-erased statistics are monitored on the implementation only (the model has one list)'),
    'C13': dict(
        x=['deallocate-changed-allocated-although-deallocation-is-off', 'shrink-decreased-allocated-although-shrinking-is-off',
           'block-contents-changed', 'live-blocks-overlap', 'grow-lost-contents', 'shrink-lost-contents', 'panic'],
        search_x=True,
        mism=['result-block', 'stats'],
        colls_x=['wrappers:', 'typed-vs-dyn shrink'],
        note='opt-out / non-last / same-address / in-place-grow theorems proved over the model (now also: a shrink through WithoutShrink or with SHRINKS off never lowers the allocated byte count, shrinking a block that is not the newest reclaims nothing), collections whose allocator is a WithoutShrink / WithoutDealloc wrapper are driven with std Vec in lock-step (wrappers probe of colls), and the monotonicity clause: no operation other than a reclaim of the newest block, a shrink, a scope exit or a reset lets allocated() go down (ArenaAlloc.growing_step_never_decreases_allocated; alloc_try_with Err restores the count exactly, see C03); the model is tied to the code by correspondence'),
}


ARENA.update({
    'C14': dict(
        x=['claimed-handle-allocated', 'claimed-handle-reports-nonzero-stats', 'second-claim-did-not-panic',
           'claimed-handle-not-claimed', 'handle-still-claimed-after-guard-dropped', 'block-contents-changed', 'panic'],
        mism=['result-kind', 'handle-stats', 'stats', 'result-block'],
        note='claims: all clauses proved over the model, invariant through claims included (C01)'),
    'C15': dict(
        x=['prepare-moved-a-bump-position', 'try-with-mut-panic-moved-a-position', 'try-with-mut-panic', 'prepared-capacity-smaller-than-requested', 'committed-slice-lost-contents',
           'commit-advanced-position-by-more-than-contents-plus-padding', 'block-contents-changed', 'live-blocks-overlap', 'panic'],
        mism=['prepared-range', 'result-block', 'block-contents', 'stats'],
        colls_x=['helpers: position moved', 'regrow:'],
        note='prepare/fill/commit primitives (typed+dyn, forward+reverse) proved incl. invariant preservation and prepare => commit contract; every SEQUENCE of prepare / write steps keeps all chunks up to the original current one unchanged and leaves at most a later, empty chunk current (ArenaFill.v); the growth policy is the capacity model of C08 (VecCap.v, MutBumpVec(Rev) included); PARTIAL: iterator size hints and the *_mut helpers on top are exercised on the implementation'),
    'C17': dict(
        x=['panic', 'block-misaligned', 'live-blocks-overlap', 'entry-points-differ'],
        mism=['result-block', 'result-kind', 'prepared-range', 'stats', 'block-contents'],
        colls_search_x=['capacity:', 'contents differ', 'returned values differ', 'std::vec::Vec', 'accounted', 'lost'],
        note='hint independence and dyn=typed commit proved; try_/panicking twins and the forwarding layers (forward_methods!, impls for references, trait objects, WithoutDealloc, WithoutShrink, the allocator-api2 compatibility macro of features/allocator_util.rs) decided statically on tables regenerated from the source on every run (tools/c17.py -> gen/Twins.v, rules and meaning in TwinSpec.v: 230 twin pairs, 178 forwarding functions); PARTIAL: the normalisation of the twin bodies is part of the trusted translator; the entry points are additionally run against one model function, the routes of one request (method, try_ twin, BumpScope) are compared from equal states, and twin arenas are driven through the crate-own and the allocator-api2 Allocator trait (on Bump, BumpScope, WithoutDealloc, WithoutShrink) with the same random allocate / grow / grow_zeroed / shrink / deallocate sequence, plus allocator_api2 Vec / Box as real clients'),
    'C18': dict(
        x=['position-not-multiple-of-min-align', 'scoped-aligned-exit-not-exactly-entry-position', 'block-contents-changed',
           'block-misaligned', 'live-blocks-overlap', 'panic'],
        mism=['stats', 'result-block', 'settings-conversion'],
        note='entry/exit alignment and invariant preservation proved; the run-time checks of the settings conversions (Conv.conversion_panics) are a transcription of ensure_(scope_)satisfies_settings, proved to panic exactly when the target type requires an unclaimed / allocated arena that is not, and compared with the implementation on the complete matrix state x GUARANTEED_ALLOCATED x CLAIMABLE x MIN_ALIGN x conversion; the compile-time rejections are the const-assert tables of C04'),
})
# properties that need the extended harness (claims, aligned regions, prepared slices, dyn entry points)
ARENA_X = {'C14', 'C15', 'C17', 'C18'}


def split_runs(path):
    """trace file -> {run header line: [lines]}"""
    runs = {}
    cur = None
    with open(path, errors='replace') as f:
        for l in f:
            l = l.rstrip('\n')
            if l.startswith('RUN '):
                cur = l
                runs[cur] = [l]
            elif cur is not None:
                runs[cur].append(l)
    return runs


def script_prefix(lines, upto_line):
    """the replayable part of a run up to (and including) the step that produced `upto_line`"""
    out = []
    for l in lines:
        if l.startswith(('RUN', 'CFG', 'INIT', 'FAIL', 'O ')):
            out.append(l)
        if upto_line is not None and l == upto_line:
            break
    return out


def run_arena(ctx, runs, ops, seeds, script=None, builds=(False, True), binname='arena', extra=''):
    """returns dict(summary, implx=[(build, runhdr, cfg, xline)], mism=[(build, line)], ub=[...], crashes=[...], traces={build: path})"""
    res = {'binname': binname, 'summary': {'runs': 0, 'steps': 0, 'mismatches': 0, 'impl_monitor_failures': 0, 'model_ub': 0,
                       'nontrivial_steps': 0, 'configs': 0, 'ops': {}, 'paths': {}},
           'implx': [], 'mism': [], 'ub': [], 'crashes': [], 'traces': {}, 'samples': []}
    for release in builds:
        exe = ctx.cargo_build(binname, release=release)
        if exe is None:
            return None
        b = 'release' if release else 'debug'
        for sd in seeds:
            trace = os.path.join(CACHE, '%s_%s_%s_%d.txt' % (binname, ctx.pid, b, sd))
            if script:
                cmd = '%s --script %s > %s' % (exe, script, trace)
            elif extra:
                cmd = '%s %s > %s' % (exe, extra, trace)
            else:
                cmd = '%s --seed %d --runs %d --ops %d > %s' % (exe, sd, runs, ops, trace)
            rc, out, dt = sh(cmd, timeout=1800)
            res['traces'][(b, sd)] = trace
            if rc != 0:
                # the implementation crashed (abort / segfault): the last run of the trace is the history
                last = None
                try:
                    rr = split_runs(trace)
                    last = list(rr.keys())[-1] if rr else None
                except OSError:
                    rr = {}
                res['crashes'].append((b, rc, last, rr.get(last, [])[-40:] if last else [], out[-300:]))
            rc2, out2, dt2 = sh('%s arena < %s' % (DRV, trace), timeout=3000)
            if rc2 != 0 and rc == 0:
                ctx.problems.append(('driver', 'drv arena failed: ' + out2[-500:]))
                continue
            for l in out2.split('\n'):
                if l.startswith('IMPLX'):
                    parts = l[len('IMPLX '):].split(' | ')
                    if len(parts) >= 3:
                        res['implx'].append((b, parts[0], parts[1], ' | '.join(parts[2:])))
                elif l.startswith('MISMATCH'):
                    res['mism'].append((b, l))
                elif l.startswith('MODELUB'):
                    res['ub'].append((b, l))
                elif l.startswith('SUMMARY'):
                    s = json.loads(l[len('SUMMARY '):])
                    S = res['summary']
                    for k, v in s.items():
                        if isinstance(v, dict):
                            for kk, vv in v.items():
                                S[k][kk] = S[k].get(kk, 0) + vv
                        elif k == 'configs':
                            S[k] = max(S[k], v)
                        else:
                            S[k] = S.get(k, 0) + v
            if not res['samples'] and os.path.exists(trace):
                with open(trace, errors='replace') as f:
                    res['samples'] = [next(f, '').strip()[:160] for _ in range(12)]
    return res


def arena_verdict(ctx, pid, res, conf):
    """turn monitor failures / mismatches into violations (concrete history) or tie problems"""
    runs_cache = {}
    def run_lines(build_seed_hdr):
        (b, hdr) = build_seed_hdr
        for (bb, sd), path in res['traces'].items():
            if bb != b:
                continue
            if path not in runs_cache:
                try:
                    runs_cache[path] = split_runs(path)
                except OSError:
                    runs_cache[path] = {}
            if hdr in runs_cache[path]:
                return runs_cache[path][hdr]
        return []
    kinds = conf['x']
    for (b, hdr, cfgl, xline) in res['implx']:
        k = xline.split()[1] if len(xline.split()) > 1 else ''
        if k not in kinds:
            continue
        lines = run_lines((b, hdr))
        ctx.violations.append({
            'kind': 'arena-history', 'build': b, 'run': hdr, 'config': cfgl, 'what_fails': xline,
            'script': script_prefix(lines, xline),
            'harness': res.get('binname', 'arena'),
            'signature': 'arena:%s' % k,
            'how_to_replay': 'tools/vcheck %s --replay <this file>' % pid,
        })
    if 'MODELUB' in kinds:
        for (b, l) in res['ub']:
            hdr = l[len('MODELUB '):].split(' | ')[0]
            ctx.violations.append({'kind': 'arena-history', 'build': b, 'run': hdr, 'what_fails': l,
                                   'script': script_prefix(run_lines((b, hdr)), None), 'signature': 'arena:model-ub'})
    for (b, rc, hdr, tail, err) in res['crashes']:
        ctx.violations.append({'kind': 'arena-history', 'build': b, 'run': hdr,
                               'what_fails': 'the implementation crashed (exit status %d) while executing this history; last trace lines attached' % rc,
                               'script': script_prefix(run_lines((b, hdr)), None) if hdr else [], 'trace_tail': tail, 'stderr': err,
                               'signature': 'arena:crash'})
    rel = [(b, l) for (b, l) in res['mism'] if any(('kind=%s ' % k) in l for k in conf['mism'])]
    if rel and not ctx.violations:
        ctx.problems.append(('tie', 'model and implementation disagree on %d step(s) relevant to %s; first: %s' % (len(rel), pid, rel[0][1][:600])))
    return rel


def check_arena(ctx):
    pid = ctx.pid
    conf = ARENA[pid]
    target = 'Properties/' + pid
    ctx.regen()
    ok, out = ctx.coq_build(target)
    nthm, nclosed = (0, 0)
    if ok:
        nthm, nclosed = ctx.check_assumptions(target, out)
    else:
        nthm = len(ctx.pinned(target)[0])
    ctx.grep_forbidden()
    if ctx.tier == 'thorough' and ok:
        ctx.coqchk(target)
    arith_dep_broken = None
    if pid == 'C01' and ok:
        # the arena model computes with the SPECIFICATION functions of the bump arithmetic and the size policy; that the
        # current bumping.rs / size_config.rs compute them is C11's and C12's obligation - and a premise of "every block
        # lies inside memory the arena owns": re-checked here, with their search for a concrete input if it breaks
        for dep in ('Properties/C12', 'Properties/C11'):
            rc_, out_, _ = sh('make -j16 %s.vo' % dep, cwd=COQ, timeout=1500)
            if rc_ != 0:
                arith_dep_broken = dep
                ctx.problems.append(('proof', 'premise of C01 broken: make %s.vo failed (the current %s no longer computes the specification the arena model uses):\n%s'
                                     % (dep, 'size_config.rs' if dep.endswith('C12') else 'bumping.rs', '\n'.join(out_.strip().split('\n')[-8:]))))
                break
    if ctx.build_driver():
        if arith_dep_broken:
            summ, mism_ = run_arith(ctx, 400_000, [ctx.seed, ctx.seed + 7], binname='sizecfg' if arith_dep_broken.endswith('C12') else 'arith')
            for mode, l in (mism_ or []):
                pf = parse_propfail(l)
                if pf:
                    ctx.violations.append({'kind': 'sizecfg-input' if arith_dep_broken.endswith('C12') else 'arith-input', 'build': mode, 'input': pf['input'],
                                           'what_fails': (pf.get('why') or 'the compiled function differs from its specification') + ' (a block allocated in such a chunk / range does not lie inside the memory the arena owns)',
                                           'signature': 'arith-premise:%s' % (pf.get('why') or 'differs')})
                    break
        runs, ops = (240, 60) if ctx.tier == 'quick' else (4000, 100)
        seeds = [ctx.seed] if ctx.tier == 'quick' else [ctx.seed, ctx.seed + 1000003]
        binname = 'arena_x' if pid in ARENA_X else 'arena'
        res = run_arena(ctx, runs, ops, seeds, binname=binname)
        if res is not None and ctx.tier == 'thorough' and (pid in ARENA_X or conf.get('search_x')):
            res_b = run_arena(ctx, runs, ops, seeds, binname='arena' if pid in ARENA_X else 'arena_x')
            if res_b is not None:
                arena_verdict(ctx, pid, res_b, conf)
        if res is not None and ctx.tier == 'quick' and conf.get('quick_x') and pid not in ARENA_X:
            res_q = run_arena(ctx, conf['quick_x'][0], conf['quick_x'][1], seeds, binname='arena_x')
            if res_q is not None:
                arena_verdict(ctx, pid, res_q, conf)
        if res is not None:
            rel = arena_verdict(ctx, pid, res, conf)
            if (rel or ctx.problems) and not ctx.violations:
                ctx.say('proof or tie broken: searching for a concrete failing history')
                ctx.problems = [p for p in ctx.problems if p[0] != 'tie']
                res2 = run_arena(ctx, 3000, 120, [ctx.seed + 7, ctx.seed + 77], binname=binname)
                if res2 is not None:
                    rel2 = arena_verdict(ctx, pid, res2, conf)
                    if not ctx.violations and conf.get('search_x') and binname == 'arena':
                        # the collections on top of the arena (MutBumpVec growth with refused requests)
                        res3 = run_arena(ctx, 1500, 80, [ctx.seed, ctx.seed + 7], binname='arena_x')
                        if res3 is not None:
                            arena_verdict(ctx, pid, res3, conf)
                    if not ctx.violations and conf.get('colls_search_x'):
                        # the collections reach the arena through the forwarding layers (&Bump, &mut Bump): their
                        # histories are a further place to look for a concrete input
                        rcs = run_colls(ctx, 20000, [ctx.seed, ctx.seed + 7])
                        if rcs is not None:
                            for (b, case, xl) in rcs['implx']:
                                if any(k in xl for k in conf['colls_search_x']):
                                    ctx.violations.append({'kind': 'colls-case' if case else 'colls-probe', 'build': b, 'case': case, 'what_fails': xl,
                                                           'signature': 'colls:' + re.sub(r'[0-9]+', 'N', xl)[:80]})
                            for (b, rc, case, err) in rcs.get('crashes', []):
                                ctx.violations.append({'kind': 'colls-case', 'build': b, 'case': case,
                                                       'what_fails': 'the process died (exit status %d: %s) while the crate executed this capacity history through its safe API' % (rc, err.strip()[-120:]),
                                                       'signature': 'colls:crash-in-capacity-history'})
                    for k in ('runs', 'steps', 'nontrivial_steps'):
                        res['summary'][k] += res2['summary'][k]
                    if (rel or rel2) and not ctx.violations and not any(p[0] == 'tie' for p in ctx.problems):
                        ctx.problems.append(('tie', 'model and implementation disagree; first: %s' % ((rel or rel2)[0][1][:600])))
            if conf.get('pool_x'):
                # BumpPool::try_get* are try_ methods too: they must return, not panic (also on a pool whose mutex was
                # poisoned by a panicking get), and the pool must stay usable
                rp = run_pool(ctx, 60 if ctx.tier == 'quick' else 600, 60, 0, [ctx.seed])
                if rp is not None:
                    for (b, hdr, xl) in rp['implx']:
                        if any(k in xl for k in conf['pool_x']):
                            ctx.violations.append({'kind': 'pool-run', 'build': b, 'run': hdr, 'what_fails': xl, 'steps': 60,
                                                   'signature': 'pool:%s' % re.sub(r'[0-9]+', 'N', xl)[:80]})
                    for (b, rc, err) in rp['crashes']:
                        ctx.violations.append({'kind': 'pool-run', 'build': b, 'what_fails': 'the pool harness crashed (exit status %d)' % rc, 'stderr': err, 'signature': 'pool:crash'})
            if conf.get('colls_x'):
                rc_ = run_colls(ctx, 6000 if ctx.tier == 'quick' else 60000, [ctx.seed])
                if rc_ is not None:
                    for (b, case, xl) in rc_['implx']:
                        if any(k in xl for k in conf['colls_x']):
                            hist = case if (case and ((case.startswith('V ') and 'cap history' in xl) or (case.startswith('G ') and 'gaps case' in xl))) else None
                            ctx.violations.append({'kind': 'colls-case' if hist else 'colls-probe', 'build': b, 'case': hist, 'what_fails': xl,
                                                   'signature': 'colls:' + re.sub(r'[0-9]+', 'N', xl)[:80]})
                    for (b, rc, case, err) in rc_.get('crashes', []):
                        if pid not in ('C07', 'C15'):
                            continue
                        ctx.violations.append({'kind': 'colls-case', 'build': b, 'case': case,
                                               'what_fails': 'the process died (exit status %d: %s) while the crate executed this capacity history / probe case through its safe API' % (rc, err.strip()[-120:]),
                                               'signature': 'colls:crash-in-capacity-history'})
                    relm = [(b, l) for (b, l) in rc_['mism'] if any(k in l for k in conf.get('colls_mism', []))]
                    if relm and not ctx.violations:
                        ctx.problems.append(('tie', 'capacity model and implementation disagree on %d histor(ies); first: %s' % (len(relm), relm[0][1][:900])))
            S = res['summary']
            ctx.cov.update({
                'evaluations': S['steps'],
                'distinct_nontrivial': S['nontrivial_steps'],
                'rule': 'online-generated operation histories (allocate/zeroed/typed sized+slice, deallocate, grow(_zeroed), shrink, through WithoutDealloc/WithoutShrink nestings, splitting a live block in two (about 3% of the operations; the parts are then deallocated / grown / shrunk on their own), checkpoint/reset_to, nested scopes incl. unwinding, reset, reset_to_start, reserve, injected base-allocator refusals, drop) over a 40-entry settings x base-allocator-shape matrix (both directions, MIN_ALIGN 1..16, guaranteed-allocated, deallocates, shrinks, min chunk size, zero-sized/8-byte/align-32/align-64 allocator values, 4 over-granting policies, adjacent chunk placement); every step replayed on the extracted Coq model with exact comparison of addresses, chunk positions, all statistics, base-allocator events and block contents; debug and release builds. evaluations = steps; distinct_nontrivial = steps that requested/released a chunk, moved a block or failed (counted by the driver)',
                'samples': res['samples'],
                'traces_validated_against_impl': S['steps'],
                'input_distribution': {'runs': S['runs'], 'configs': S['configs'], 'ops': S['ops'], 'paths': S['paths']},
                'mismatches': {'model_vs_impl_steps': S['mismatches'], 'impl_monitor_failures': S['impl_monitor_failures'], 'model_ub': S['model_ub']},
                'partial_note': conf['note'],
            })
    return ctx.finish(level='proof', obligations=nthm, discharged=nclosed,
                      checker_cmd='make -C coq Properties/%s.vo (coqc 8.16.1; Print Assumptions under each theorem)' % pid + ('; coqchk -o' if ctx.tier == 'thorough' else ''),
                      extra_assumptions=['usize is 64 bit',
                                         'base allocator: granted block aligned as requested, at least as large, non-null, not wrapping, at most isize::MAX bytes, disjoint from outstanding blocks (resp_ok)',
                                         'hand-written model (coq/Arena.v) of raw_bump.rs / allocator_impl.rs / without_dealloc.rs tied to the code by the correspondence check; ' + conf['note']])


def replay_arena(ctx, path):
    r = json.load(open(path))
    if r.get('kind') != 'arena-history' or not r.get('script'):
        print(json.dumps(r, indent=1)[:3000])
        return check_arena(ctx)
    if not ctx.build_driver():
        return 1
    if r.get('harness') == 'arena_x':
        # `RUN i cfg seed overgrant ops`: the extended harness regenerates the run from its seed
        f = r['run'].split()
        res = run_arena(ctx, 0, 0, [0], binname='arena_x', extra='--cfg %s --run-seed %s --runs 1 --ops %s' % (f[2], f[3], f[5]))
    else:
        sp = os.path.join(CACHE, 'replay_script_%s.txt' % ctx.pid)
        with open(sp, 'w') as fh:
            fh.write('\n'.join(r['script']) + '\n')
        res = run_arena(ctx, 0, 0, [0], script=sp)
    arena_verdict(ctx, ctx.pid, res, ARENA[ctx.pid])
    for v in ctx.violations[:3]:
        print('reproduced:', v.get('what_fails'))
    if ctx.violations or ctx.problems:
        p = ctx.write_replay('violation', r)
        print('VIOLATION property=%s replay=%s' % (ctx.pid, p))
        return 1
    print('the recorded history no longer fails on the current tree')
    return 0


for _p in ARENA:
    globals()['check_' + _p] = check_arena
    globals()['replay_' + _p] = replay_arena


# ----------------------------------------------------------------------------------------
# collection algorithms: C06 C08 C16 (and the collection-level clauses of C07)
# ----------------------------------------------------------------------------------------
COLLS = {
    'C06': dict(x=['accounted', 'lost', 'unknown element', 'stale slot', 'drops do not match', 'was dropped while moving', 'helpers:'],
                note='PARTIAL: conservation proved for the modelled algorithms (now including into_iter, splice, map_in_place with a panicking closure, append, and the growth by a producer that may panic at any call: extend_from_slice_clone / extend_from_within_clone / extend(iterator) / resize_with / resize, the consuming map, dedup_by_key); extend with lying size hints / into_boxed_slice / partition are covered by the drop-count monitor and std Vec in lock-step only (extras probe); the allocation helpers and collections of zero-sized elements are covered by birth/drop-count probes (helpers probe, HP / HZ lines), the two zero-sized branches that were defective are modelled in both versions (pinned refuted, repaired proved)'),
    'C08': dict(x=['std::vec::Vec', 'contents differ', 'returned values differ', 'capacity:', 'capacity ', 'cap history', 'helpers: contents', 'helpers: std::vec::Vec panics', 'overwrote a neighbouring allocation', 'yielded', 'len() of the iterator', 'accounted', 'lost'],
                note='list-function refinement proved for the modelled operations; capacity clauses proved for BumpVec / FixedBumpVec / MutBumpVec / MutBumpVecRev over the capacity model VecCap.v (capacity >= length in every reachable state, reserve / reserve_exact / with_capacity keep their promise, no allocator call and no move while the promise suffices, amortised doubling, a fixed vector never reallocates and fails exactly when full) and replayed from capacity histories; PARTIAL: zero-sized element types and unmodelled operations are checked against std::vec::Vec in lock-step only'),
    'C16': dict(x=['split_off capacities', 'split_off part', 'changed the remaining part', 'changed the split-off part', 'parts:', 'flatten:'],
                ops=['split_off', 'split_at', 'split_first', 'split_last', 'split_off_first', 'split_off_last', 'partition', 'merge'],
                note='split_off (rotate in place), split_at, split_first/last (+ split_off_ twins), merge and partition (partition_in_place + split_at) proved against their specifications (Parts.v: windows of one buffer) and replayed from the trace; the buffer windows of split_off on a vector (SplitCap.v: the offset / length / capacity; they hold exactly the parts, tile the old buffer without overlap, capacities add up, the spare capacity stays with the window at the end) proved and compared with the implementation on every split_off case of BumpVec / FixedBumpVec (`win=` field of the trace); PARTIAL: into_flattened (flatten probe: std in lock-step, capacity = old capacity * N, zero-sized elements, birth / drop ledger), split_at_spare and the independence of the parts under follow-up operations are checked on the implementation only'),
}


def run_colls(ctx, cases, seeds, inputs_file=None, binname='colls', prefix='C '):
    res = {'summary': {'cases': 0, 'mismatches': 0, 'impl_monitor_failures': 0, 'unwound': 0, 'with_drop_panic': 0, 'nontrivial': 0, 'distinct': 0, 'by_kind_op': {}},
           'implx': [], 'mism': [], 'samples': []}
    for release in (False, True):
        exe = ctx.cargo_build(binname, release=release)
        if exe is None:
            return None
        b = 'release' if release else 'debug'
        for sd in seeds:
            trace = os.path.join(CACHE, '%s_%s_%s_%d.txt' % (binname, ctx.pid, b, sd))
            cmd = ('%s --input %s > %s' % (exe, inputs_file, trace)) if inputs_file else ('%s --seed %d --cases %d > %s' % (exe, sd, cases, trace))
            rc, out, dt = sh(cmd, timeout=1800)
            if rc != 0:
                # a capacity history announces its input (VB line, flushed) before it runs: when the process
                # died inside one, that line is the failing input
                inflight = None
                try:
                    with open(trace, errors='replace') as f:
                        for l in f:
                            if l.startswith('VB '):
                                inflight = l.rstrip('\n')
                            elif l.startswith('GB '):
                                inflight = 'VB G ' + l.rstrip('\n')[3:]
                            elif l.startswith('SB '):
                                inflight = 'VB S ' + l.rstrip('\n')[3:]
                            elif l.startswith('V ') or l.startswith('G ') or l.startswith('S '):
                                inflight = None
                except OSError:
                    pass
                if inflight and binname in ('colls', 'strs'):
                    res.setdefault('crashes', []).append((b, rc, inflight[3:] if (inflight.startswith('VB G ') or inflight.startswith('VB S ')) else 'V ' + inflight[3:], out[-300:]))
                else:
                    ctx.problems.append(('harness', '%s harness crashed rc=%d %s' % (binname, rc, out[-300:])))
            rc2, out2, _ = sh('%s %s < %s' % (DRV, binname, trace), timeout=1800)
            if rc2 != 0:
                ctx.problems.append(('driver', 'drv %s failed: ' % binname + out2[-400:]))
                continue
            # case line preceding each X line = the input of that monitor failure
            last_case = None
            xs = []
            with open(trace, errors='replace') as f:
                for l in f:
                    l = l.rstrip('\n')
                    if l.startswith(prefix) or (binname == 'colls' and (l.startswith('V ') or l.startswith('HP ') or l.startswith('HZ ') or l.startswith('HB ') or l.startswith('HH ') or l.startswith('G '))):
                        last_case = l
                        if len(res['samples']) < 6 and l.startswith(prefix):
                            res['samples'].append(l[:200])
                    elif l.startswith('X '):
                        xs.append((b, last_case, l))
            res['implx'] += xs
            for l in out2.split('\n'):
                if l.startswith('MISMATCH'):
                    res['mism'].append((b, l))
                elif l.startswith('SUMMARY'):
                    s = json.loads(l[len('SUMMARY '):])
                    S = res['summary']
                    for k, v in s.items():
                        if isinstance(v, dict):
                            S.setdefault(k, {})
                            for kk, vv in v.items():
                                S[k][kk] = S[k].get(kk, 0) + vv
                        else:
                            S[k] = S.get(k, 0) + v
            os.remove(trace)
    return res


def colls_verdict(ctx, pid, res, conf):
    for (b, case, xl) in res['implx']:
        msg = xl.split('::', 1)[1].strip() if '::' in xl else xl
        if not any(k in msg for k in conf['x']):
            continue
        if pid == 'C16' and 'split_off' not in xl and 'parts probe' not in xl and 'parts case' not in xl and 'flatten:' not in xl:
            continue
        if pid != 'C16' and ('parts probe' in xl or 'parts case' in xl):
            continue
        is_content = ('helpers: contents' in xl or 'helpers: std::vec::Vec' in xl)
        if 'helpers case' in xl and not ((pid == 'C06' and not is_content) or (pid == 'C08' and is_content)):
            continue
        probe = ' probe ' in xl or ' reserve ::' in xl
        ctx.violations.append({'kind': 'colls-probe' if probe else 'colls-case', 'build': b, 'case': None if probe else case, 'what_fails': xl,
                               'signature': 'colls:%s' % re.sub(r'[0-9]+', 'N', msg)[:80],
                               'how_to_replay': 'tools/vcheck %s --replay <this file>' % pid})
    if pid in ('C08', 'C07', 'C06'):
        for (b, rc, case, err) in res.get('crashes', []):
            if pid == 'C06' and not (case.startswith('G 1 ') or case.startswith('G 2 ')):
                continue
            ctx.violations.append({'kind': 'colls-case', 'build': b, 'case': case,
                                   'what_fails': 'the process died (exit status %d: %s) while the crate executed this history / probe case through its safe API' % (rc, err.strip()[-120:]),
                                   'signature': 'colls:crash-in-capacity-history',
                                   'how_to_replay': 'tools/vcheck %s --replay <this file>' % pid})
    # a violation that carries its own case replays exactly: report those first
    ctx.violations.sort(key=lambda v: v.get('kind') == 'colls-probe')
    c16_ops = (' split_off ', ' split_at ', ' split_first;', ' split_last;', ' split_off_first;', ' split_off_last;', ' partition;', ' merge ')
    rel = [(b, l) for (b, l) in res['mism'] if (pid != 'C16' or any(o in l for o in c16_ops))]
    if pid != 'C08':
        # capacity histories (VecCap.v) belong to C08 (and C07, see check_arena)
        rel = [(b, l) for (b, l) in rel if ' capacity ' not in l]
    if rel and not ctx.violations:
        # a disagreement between model and implementation on what is kept / handed out / dropped
        # is itself an observable difference from the proved behaviour: report the case
        b, l = rel[0]
        ctx.problems.append(('tie', 'collection model and implementation disagree on %d case(s); first: %s' % (len(rel), l[:700])))
    return rel


def check_colls(ctx):
    pid = ctx.pid
    conf = COLLS[pid]
    target = 'Properties/' + pid
    ctx.regen()
    ok, out = ctx.coq_build(target)
    nthm, nclosed = (0, 0)
    if ok:
        nthm, nclosed = ctx.check_assumptions(target, out)
    else:
        nthm = len(ctx.pinned(target)[0])
    ctx.grep_forbidden()
    if ctx.tier == 'thorough' and ok:
        ctx.coqchk(target)
    if ctx.build_driver():
        cases = 30_000 if ctx.tier == 'quick' else 600_000
        seeds = [ctx.seed] if ctx.tier == 'quick' else [ctx.seed, ctx.seed + 1000003]
        res = run_colls(ctx, cases, seeds)
        if res is not None:
            rel = colls_verdict(ctx, pid, res, conf)
            if (rel or ctx.problems) and not ctx.violations:
                ctx.say('proof or tie broken: searching for a concrete failing case')
                ctx.problems = [p for p in ctx.problems if p[0] != 'tie']
                res2 = run_colls(ctx, 400_000, [ctx.seed + 7, ctx.seed + 77])
                if res2 is not None:
                    rel2 = colls_verdict(ctx, pid, res2, conf)
                    res['summary']['cases'] += res2['summary']['cases']
                    if (rel or rel2) and not ctx.violations and not any(p[0] == 'tie' for p in ctx.problems):
                        ctx.problems.append(('tie', 'collection model and implementation disagree; first: %s' % ((rel or rel2)[0][1][:700])))
            S = res['summary']
            ctx.cov.update({
                'evaluations': S['cases'],
                'distinct_nontrivial': min(S['nontrivial'], S['distinct']),
                'rule': 'one operation per case on a freshly built collection (BumpVec, MutBumpVec, FixedBumpVec, BumpBox<[T]>, MutBumpVecRev mirrored) of 0..12 identified elements; operations truncate/pop/remove/swap_remove/insert/push/retain/dedup_by/drain (both ends, dropped / keep_rest / leaked)/extract_if (early drop)/split_off with boundary and out-of-range arguments; callback answers scripted per invocation with a panic at a random invocation in 1/3 of the cases; a panicking Drop in 1/8; every case replayed on the extracted Coq model (kept / handed out / dropped / unwound / number of callback invocations compared) and on std::vec::Vec in lock-step; every 10th case is a capacity history of a BumpVec / FixedBumpVec / MutBumpVec / MutBumpVecRev (1-40 reserve / reserve_exact / push / extend / pop / truncate / shrink_to(_fit) operations, element sizes 1/4/8/24/1600, refusals, absurd sizes) replayed on VecCap.v; every 5th case is one operation dividing or merging a BumpBox<[T]> of 0..11 drop-counting elements (split_at incl. out of range, split_first/last, split_off_first/last, partition with per-element scripted answers, merge of two of three adjacent windows in any order), replayed on Parts.v; plus into_iter/splice/map_in_place/append (extras), every 5th case one growth by a producer with a scripted panic (extend_from_slice_clone / extend_from_within_clone, extend from an iterator with or without a size hint, resize_with, resize, the consuming map into a same-size and a wider type, dedup_by_key with scripted keys) replayed on Colls.v, every 10th case the raw views (spare_capacity_mut / split_at_spare_mut / set_len, from_init / from_uninit / is_full, BumpBox and Bump raw round trips, leaking conversions) with std::vec::Vec and a birth / drop ledger, the one-element operations through every spelling (push / push_with / push_mut / push_mut_with, insert / insert_mut and the try_ twins), overflow probes of try_reserve(_exact). non-trivial = cases that dropped, handed out or unwound (counted by the driver); distinct = distinct (kind, op, renumbered input, answers, drop-panic set)',
                'samples': res['samples'],
                'traces_validated_against_impl': S['cases'],
                'input_distribution': {'by_kind_op': S['by_kind_op'], 'unwound': S['unwound'], 'with_drop_panic': S['with_drop_panic']},
                'mismatches': {'model_vs_impl': S['mismatches'], 'impl_monitor_failures': S['impl_monitor_failures']},
                'partial_note': conf['note'],
            })
    return ctx.finish(level='proof', obligations=nthm, discharged=nclosed,
                      checker_cmd='make -C coq Properties/%s.vo (coqc 8.16.1; Print Assumptions under each theorem)' % pid + ('; coqchk -o' if ctx.tier == 'thorough' else ''),
                      extra_assumptions=['hand-written list-level model (coq/Colls.v) of the slot algorithms: moved-from / dropped slots between the write and read cursors are not represented (they are what the panic guards skip); tied to the code by the correspondence check; ' + conf['note'],
                                         'a second panic while unwinding (abort) is outside the model'])


def replay_colls(ctx, path):
    r = json.load(open(path))
    if r.get('kind') != 'colls-case' or not r.get('case'):
        print(json.dumps(r, indent=1)[:3000])
        return check_colls(ctx)
    inp = os.path.join(CACHE, 'replay_colls_%s.txt' % ctx.pid)
    with open(inp, 'w') as f:
        f.write(r['case'] + '\n')
    if not ctx.build_driver():
        return 1
    res = run_colls(ctx, 0, [0], inputs_file=inp)
    colls_verdict(ctx, ctx.pid, res, COLLS[ctx.pid])
    for v in ctx.violations[:3]:
        print('reproduced:', v.get('what_fails'))
    if ctx.violations or ctx.problems:
        p = ctx.write_replay('violation', r)
        print('VIOLATION property=%s replay=%s' % (ctx.pid, p))
        return 1
    print('the recorded case no longer fails on the current tree')
    return 0


for _p in COLLS:
    globals()['check_' + _p] = check_colls
    globals()['replay_' + _p] = replay_colls


# ----------------------------------------------------------------------------------------
# strings: C09
# ----------------------------------------------------------------------------------------
C09_NOTE = ('PARTIAL: str::chars(), core::str::from_utf8 and Utf8Chunks are std code, modelled by Utf8.decode / Utf8.valid / Str.lossy_fuel '
            'and compared on every case; formatting is compared with std format! on the implementation only')


def strs_verdict(ctx, res):
    for (b, case, xl) in res['implx']:
        msg = xl.split('::', 1)[1].strip() if '::' in xl else xl
        ctx.violations.append({'kind': 'strs-case', 'build': b, 'case': case, 'what_fails': xl,
                               'signature': 'strs:%s' % re.sub(r'[0-9]+', 'N', msg)[:80],
                               'how_to_replay': 'tools/vcheck C09 --replay <this file>'})
    for (b, rc, case, err) in res.get('crashes', []):
        ctx.violations.append({'kind': 'strs-case', 'build': b, 'case': case,
                               'what_fails': 'the process died (exit status %d: %s) while the crate executed this string operation through its safe API' % (rc, err.strip()[-120:]),
                               'signature': 'strs:crash-in-case',
                               'how_to_replay': 'tools/vcheck C09 --replay <this file>'})
    rel = res['mism']
    if rel and not ctx.violations:
        b, l = rel[0]
        ctx.problems.append(('tie', 'string model and implementation disagree on %d case(s); first: %s' % (len(rel), l[:700])))
    return rel


def check_C09(ctx):
    target = 'Properties/C09'
    ctx.regen()
    ok, out = ctx.coq_build(target)
    nthm, nclosed = (0, 0)
    if ok:
        nthm, nclosed = ctx.check_assumptions(target, out)
    else:
        nthm = len(ctx.pinned(target)[0])
    ctx.grep_forbidden()
    if ctx.tier == 'thorough' and ok:
        ctx.coqchk(target)
    if ctx.build_driver():
        cases = 40_000 if ctx.tier == 'quick' else 1_000_000
        seeds = [ctx.seed] if ctx.tier == 'quick' else [ctx.seed, ctx.seed + 1000003]
        res = run_colls(ctx, cases, seeds, binname='strs', prefix='S ')
        if res is not None:
            rel = strs_verdict(ctx, res)
            if (rel or ctx.problems) and not ctx.violations:
                ctx.say('proof or tie broken: searching for a concrete failing case')
                ctx.problems = [p for p in ctx.problems if p[0] != 'tie']
                res2 = run_colls(ctx, 600_000, [ctx.seed + 7, ctx.seed + 77], binname='strs', prefix='S ')
                if res2 is not None:
                    rel2 = strs_verdict(ctx, res2)
                    res['summary']['cases'] += res2['summary']['cases']
                    if (rel or rel2) and not ctx.violations and not any(p[0] == 'tie' for p in ctx.problems):
                        ctx.problems.append(('tie', 'string model and implementation disagree; first: %s' % ((rel or rel2)[0][1][:700])))
            S = res['summary']
            ctx.cov.update({
                'evaluations': S['cases'],
                'distinct_nontrivial': min(S['nontrivial'], S['distinct']),
                'rule': 'one operation per case on a freshly built BumpBox<str> / FixedBumpString / BumpString / MutBumpString holding 0..8 random characters (1-4 byte encodings, edge code points U+0, U+7F/80, U+7FF/800, U+D7FF/E000, U+FFFF/10000, U+10FFFF, embedded NULs): push, push_str, insert, insert_str, remove, pop, truncate, retain (callback answers scripted, panic at a random invocation in 1/3), drain (pulled from both ends, dropped or leaked), replace_range, extend_from_within, split_off with every kind of byte index (boundary, inside a character, = len, > len, inverted and empty ranges); every fourth case a conversion: from_utf8 / from_utf8_lossy on ill-formed bytes (truncated, overlong, surrogate, > U+10FFFF, stray continuation), from_utf16(_lossy) with unpaired surrogates, C-string constructors (into_cstr, alloc_cstr_from_str, alloc_cstr_fmt(_mut)), formatting. Every case replayed on the extracted Coq model (contents, returned characters, split-off part, panicked or not compared exactly), on std::string::String in lock-step, and core::str::from_utf8 on the raw bytes afterwards (also after a caught panic). non-trivial = cases that panicked, returned characters, split, rejected or repaired input (counted by the driver); distinct = distinct (kind, op, input, argument, answers)',
                'samples': res['samples'],
                'traces_validated_against_impl': S['cases'],
                'input_distribution': {'by_kind_op': S['by_kind_op'], 'unwound': S['unwound'], 'off_boundary_args': S.get('off_boundary_args', 0), 'rejected_inputs': S.get('rejected_inputs', 0)},
                'mismatches': {'model_vs_impl': S['mismatches'], 'impl_monitor_failures': S['impl_monitor_failures']},
                'partial_note': C09_NOTE,
            })
    return ctx.finish(level='proof', obligations=nthm, discharged=nclosed,
                      checker_cmd='make -C coq Properties/C09.vo (coqc 8.16.1; Print Assumptions under each theorem)' + ('; coqchk -o' if ctx.tier == 'thorough' else ''),
                      extra_assumptions=['hand-written model (coq/Utf8.v, coq/Str.v) of bump_box.rs (impl BumpBox<str>), owned_str/drain.rs, bump_string.rs, fixed_bump_string.rs, alloc_cstr_from_str; tied to the code by the correspondence check; ' + C09_NOTE,
                                         'the reserve before an insertion / replacement succeeded (spare capacity is long enough): allocation failure is C07'])


def replay_C09(ctx, path):
    r = json.load(open(path))
    if r.get('kind') != 'strs-case' or not r.get('case'):
        print(json.dumps(r, indent=1)[:3000])
        return check_C09(ctx)
    inp = os.path.join(CACHE, 'replay_strs.txt')
    with open(inp, 'w') as f:
        f.write(r['case'] + '\n')
    if not ctx.build_driver():
        return 1
    res = run_colls(ctx, 0, [0], inputs_file=inp, binname='strs', prefix='S ')
    strs_verdict(ctx, res)
    for v in ctx.violations[:3]:
        print('reproduced:', v.get('what_fails'))
    if ctx.violations or ctx.problems:
        p = ctx.write_replay('violation', r)
        print('VIOLATION property=C09 replay=%s' % p)
        return 1
    print('the recorded case no longer fails on the current tree')
    return 0


# ----------------------------------------------------------------------------------------
# pool: C19
# ----------------------------------------------------------------------------------------
C19_NOTE = ('PARTIAL: data races, memory ordering, Mutex and `unsafe impl Send` soundness are trusted (the model cannot exhibit them); '
            'real-thread runs are checked by monitors (exclusivity, survival of blocks across hand-overs, arenas created <= peak of live guards, release ledger), not replayed on the model')


def run_pool(ctx, runs, steps, mt_runs, seeds, extra=None):
    res = {'summary': {'runs': 0, 'steps': 0, 'mismatches': 0, 'impl_monitor_failures': 0, 'nontrivial': 0, 'mt_runs': 0, 'mt_blocks': 0, 'ops': {}},
           'implx': [], 'mism': [], 'samples': [], 'crashes': []}
    for release in (False, True):
        exe = ctx.cargo_build('poolx', release=release)
        if exe is None:
            return None
        b = 'release' if release else 'debug'
        for sd in seeds:
            trace = os.path.join(CACHE, 'poolx_%s_%d.txt' % (b, sd))
            cmd = ('%s %s > %s' % (exe, extra, trace)) if extra else ('%s --seed %d --runs %d --steps %d --mt-runs %d > %s' % (exe, sd, runs, steps, mt_runs, trace))
            rc, out, dt = sh(cmd, timeout=1800)
            if rc != 0:
                res['crashes'].append((b, rc, out[-300:]))
            rc2, out2, _ = sh('%s pool < %s' % (DRV, trace), timeout=1800)
            if rc2 != 0:
                ctx.problems.append(('driver', 'drv pool failed: ' + out2[-400:]))
                continue
            # every X line belongs to the run (RUN ... / M ...) whose header precedes it
            last_hdr = None
            with open(trace, errors='replace') as f:
                for l in f:
                    l = l.rstrip('\n')
                    if l.startswith('RUN ') or l.startswith('M '):
                        last_hdr = l
                        if len(res['samples']) < 2:
                            res['samples'].append(l)
                    elif l.startswith('P ') and len(res['samples']) < 10:
                        res['samples'].append(l)
                    elif l.startswith('X '):
                        res['implx'].append((b, last_hdr, l))
            for l in out2.split('\n'):
                if l.startswith('MISMATCH'):
                    res['mism'].append((b, l))
                elif l.startswith('SUMMARY'):
                    s = json.loads(l[len('SUMMARY '):])
                    S = res['summary']
                    for k, v in s.items():
                        if isinstance(v, dict):
                            for kk, vv in v.items():
                                S[k][kk] = S[k].get(kk, 0) + vv
                        else:
                            S[k] = S.get(k, 0) + v
            os.remove(trace)
    return res


def pool_verdict(ctx, res, steps):
    for (b, rc, err) in res['crashes']:
        ctx.violations.append({'kind': 'pool-run', 'build': b, 'what_fails': 'the pool harness crashed (exit status %d)' % rc, 'stderr': err, 'signature': 'pool:crash'})
    for (b, hdr, xl) in res['implx']:
        msg = xl.split('::', 1)[1].strip() if '::' in xl else xl
        v = {'kind': 'pool-run', 'build': b, 'run': hdr, 'what_fails': xl, 'steps': steps,
             'signature': 'pool:%s' % re.sub(r'[0-9]+', 'N', msg)[:80], 'how_to_replay': 'tools/vcheck C19 --replay <this file>'}
        ctx.violations.append(v)
    rel = res['mism']
    if rel and not ctx.violations:
        b, l = rel[0]
        ctx.problems.append(('tie', 'pool model and implementation disagree on %d step(s); first: %s' % (len(rel), l[:600])))
    return rel


def check_C19(ctx):
    target = 'Properties/C19'
    ctx.regen()
    ok, out = ctx.coq_build(target)
    nthm, nclosed = (0, 0)
    if ok:
        nthm, nclosed = ctx.check_assumptions(target, out)
    else:
        nthm = len(ctx.pinned(target)[0])
    ctx.grep_forbidden()
    if ctx.tier == 'thorough' and ok:
        ctx.coqchk(target)
    if ctx.build_driver():
        runs, steps, mt = (600, 40, 24) if ctx.tier == 'quick' else (20000, 80, 400)
        seeds = [ctx.seed] if ctx.tier == 'quick' else [ctx.seed, ctx.seed + 1000003]
        res = run_pool(ctx, runs, steps, mt, seeds)
        if res is not None:
            rel = pool_verdict(ctx, res, steps)
            if (rel or ctx.problems) and not ctx.violations:
                ctx.say('proof or tie broken: searching for a concrete failing schedule')
                ctx.problems = [p for p in ctx.problems if p[0] != 'tie']
                res2 = run_pool(ctx, 6000, 60, 100, [ctx.seed + 7, ctx.seed + 77])
                if res2 is not None:
                    rel2 = pool_verdict(ctx, res2, 60)
                    if (rel or rel2) and not ctx.violations and not any(p[0] == 'tie' for p in ctx.problems):
                        ctx.problems.append(('tie', 'pool model and implementation disagree; first: %s' % ((rel or rel2)[0][1][:600])))
            S = res['summary']
            ctx.cov.update({
                'evaluations': S['steps'],
                'distinct_nontrivial': S['nontrivial'],
                'rule': 'deterministic schedules: one OS thread plays any number of guard holders on a real BumpPool (get / try_get / get_with_size / try_get_with_size / try_get_with_capacity; gets whose arena creation panics while the pool lock is held (capacity overflow: poisons the mutex), reports an error, or is refused by the base allocator; guard drop; mem::forget of a guard; allocations of patterned blocks through any live guard; between rounds pool.reset / reset_to_start; finally drop of the pool), every action replayed on the extracted Coq model with exact comparison of WHICH arena is handed out (identity of its base allocator value), fresh or reused, failures, the idle stack at quiescent points; plus runs with 2..8 real threads (300 iterations each) checked by monitors: no two live guards on one arena, every block ever allocated intact after all hand-overs, arenas created <= peak number of live guards, reset rewinds every arena, release ledger of the base allocator. evaluations = deterministic steps; non-trivial = steps that created an arena or failed',
                'samples': res['samples'],
                'traces_validated_against_impl': S['steps'],
                'input_distribution': {'runs': S['runs'], 'ops': S['ops'], 'thread_runs': S['mt_runs'], 'blocks_checked_after_thread_runs': S['mt_blocks']},
                'mismatches': {'model_vs_impl_steps': S['mismatches'], 'impl_monitor_failures': S['impl_monitor_failures']},
                'partial_note': C19_NOTE,
            })
    return ctx.finish(level='proof', obligations=nthm, discharged=nclosed,
                      checker_cmd='make -C coq Properties/C19.vo (coqc 8.16.1; Print Assumptions under each theorem)' + ('; coqchk -o' if ctx.tier == 'thorough' else ''),
                      extra_assumptions=['hand-written model (coq/Pool.v) of bump_pool.rs tied to the code by the correspondence check; ' + C19_NOTE,
                                         'each pooled arena behaves as a single Bump (C01-C03); std::sync::Mutex provides mutual exclusion'])


def replay_C19(ctx, path):
    r = json.load(open(path))
    if r.get('kind') != 'pool-run' or not r.get('run'):
        print(json.dumps(r, indent=1)[:3000])
        return check_C19(ctx)
    if not ctx.build_driver():
        return 1
    f = r['run'].split()
    if f[0] == 'RUN':
        extra = '--only-run-seed %s --steps %d' % (f[2], r.get('steps', 40))
    else:
        th = [x for x in f if x.startswith('threads=')]
        extra = '--only-mt-seed %s --threads %s' % (f[2], th[0].split('=')[1] if th else '4')
    res = run_pool(ctx, 0, 0, 0, [0], extra=extra)
    pool_verdict(ctx, res, r.get('steps', 40))
    for v in ctx.violations[:3]:
        print('reproduced:', v.get('what_fails'))
    if ctx.violations or ctx.problems:
        p = ctx.write_replay('violation', r)
        print('VIOLATION property=C19 replay=%s' % p)
        return 1
    print('the recorded schedule no longer fails on the current tree')
    return 0


# ----------------------------------------------------------------------------------------
# lifetimes: C04
# ----------------------------------------------------------------------------------------
C04_NOTE = ("PARTIAL: rustc's NLL / variance / auto-trait reasoning is observed on the generated corpus only; the static check of coq/Regions.v is a model of "
            "the loans the signatures create, tied to rustc by that corpus; the abstraction of each Rust program to model commands is the generator's")


def c04_predict(ctx, progs):
    """evaluate Regions.check on the abstraction of every program, with the regenerated tables, inside Coq"""
    def cmd(c):
        if c[0] == 'Alloc':
            return 'Alloc %d %s' % (c[1], c[2])
        if c[0] == 'Use':
            return 'Use %d' % c[1]
        if c[0] == 'Rewind':
            return 'Rewind %s' % c[1]
        return c[0]
    path = os.path.join(CACHE, 'c04_cases.v')
    with open(path, 'w') as f:
        f.write('From Coq Require Import List.\nFrom BS Require Import Regions.\nFrom BS.gen Require Import Tables.\nImport ListNotations.\n')
        f.write('Definition cases : list (list cmd) := [\n')
        f.write(';\n'.join('  [' + '; '.join(cmd(c) for c in pr['abstract']) + ']' for pr in progs))
        f.write('].\nEval vm_compute in (map (fun p => (check tables sinit p, dexec dinit p)) cases).\n')
    rc, out, dt = sh('coqc -noglob -Q %s BS %s' % (COQ, path), timeout=600)
    for ext in ('.vo', '.vok', '.vos', '.glob'):
        try:
            os.remove(path[:-2] + ext)
        except OSError:
            pass
    if rc != 0:
        return None, out[-600:]
    body = out[out.index('= [') + 2:]
    body = body[:body.rindex(']') + 1]
    pairs = re.findall(r'\(\s*(true|false)\s*,\s*(true|false)\s*\)', body)
    if len(pairs) != len(progs):
        return None, 'could not parse the model verdicts (%d of %d)' % (len(pairs), len(progs))
    return [(a == 'true', b == 'true') for (a, b) in pairs], ''


def check_C04(ctx):
    import c04
    target = 'Properties/C04'
    ctx.regen()
    ok, out = ctx.coq_build(target)
    nthm, nclosed = (0, 0)
    if ok:
        nthm, nclosed = ctx.check_assumptions(target, out)
    else:
        nthm = len(ctx.pinned(target)[0])
    ctx.grep_forbidden()
    if ctx.tier == 'thorough' and ok:
        ctx.coqchk(target)
    # the corpus, judged by rustc against the crate as it is now
    exe = ctx.cargo_build('arith', release=False)
    env = dict(os.environ, CARGO_TARGET_DIR=os.path.join(CACHE, 'harness-target'), RUSTFLAGS='--cfg bump_scope_verif', CARGO_NET_OFFLINE='true')
    rlib, rc, err = c04.find_rlib(os.path.join(VERIF, 'harness'), None, env)
    if exe is None or rlib is None:
        ctx.problems.append(('harness', 'cannot build the crate for the corpus: ' + (err or '')))
        return ctx.finish(level='proof', obligations=nthm, discharged=nclosed, checker_cmd='make -C coq Properties/C04.vo')
    t0 = time.time()
    reg, fx, notes = c04.judge_all(rlib, os.path.join(CACHE, 'c04'))
    ctx.say('corpus: %d region programs + %d thread/settings programs judged by rustc in %.1fs' % (len(reg), len(fx), time.time() - t0))
    pred, perr = (None, 'proof did not build') if not os.path.exists(os.path.join(COQ, 'gen', 'Tables.vo')) else c04_predict(ctx, reg)
    n_escape_rejected = 0
    disagreements = []
    for i, pr in enumerate(reg):
        escape = pr['kind'] == 'escape'
        if escape and pr['accepted']:
            ctx.violations.append({'kind': 'rust-program', 'name': pr['name'], 'program': pr['src'],
                                   'what_fails': 'rustc accepts this safe program, which uses a value after the memory it points into may have been handed out again (%s)' % pr['name'],
                                   'abstract': pr['abstract'], 'signature': 'c04:accepted-escape:' + pr['name'].split('.')[0] + '.' + pr['name'].split('.')[-2],
                                   'how_to_replay': 'tools/vcheck C04 --replay <this file>'})
            continue
        if escape and not (set(pr['codes']) <= c04.BORROWCK | {'lifetime'}):
            disagreements.append('%s is rejected, but not by the borrow checker: %s %s' % (pr['name'], pr['codes'], pr['first'][:160]))
            continue
        if escape:
            n_escape_rejected += 1
        if not escape and not pr['accepted']:
            disagreements.append('the control program %s no longer compiles: %s %s' % (pr['name'], pr['codes'], pr['first'][:160]))
        if pred is not None:
            (macc, muse) = pred[i]
            if macc != pr['accepted']:
                disagreements.append('model check says %s, rustc %s for %s' % ('accept' if macc else 'reject', 'accepts' if pr['accepted'] else 'rejects', pr['name']))
            if escape and not muse:
                disagreements.append('generator: the abstraction of escape program %s does not use memory after reuse' % pr['name'])
            if not escape and muse:
                disagreements.append('generator: the abstraction of control program %s uses memory after reuse' % pr['name'])
    for pr in fx:
        if pr['expect'] == 'reject' and pr['accepted']:
            ctx.violations.append({'kind': 'rust-program', 'name': pr['name'], 'program': pr['src'],
                                   'what_fails': 'rustc accepts this safe program although it must be rejected (%s)' % pr['name'],
                                   'signature': 'c04:accepted:' + pr['name'], 'how_to_replay': 'tools/vcheck C04 --replay <this file>'})
        elif pr['expect'] == 'accept' and not pr['accepted']:
            disagreements.append('the control program %s no longer compiles: %s %s' % (pr['name'], pr['codes'], pr['first'][:160]))
        elif pr['expect'] == 'reject':
            want = {'E0080'} if pr['name'].startswith('settings.') else {'E0277'}
            if not (set(pr['codes']) & want):
                disagreements.append('%s is rejected for another reason than expected: %s %s' % (pr['name'], pr['codes'], pr['first'][:160]))
            else:
                n_escape_rejected += 1
    if pred is None and not ctx.violations:
        ctx.problems.append(('tie', 'model verdicts unavailable: ' + perr))
    if (disagreements or notes) and not ctx.violations:
        ctx.problems.append(('tie', 'corpus and model disagree on %d program(s); first: %s' % (len(disagreements) + len(notes), (disagreements + notes)[0][:600])))
    kinds = {}
    for pr in reg + fx:
        k = pr['name'].split('.')[0]
        kinds[k] = kinds.get(k, 0) + 1
    codes = {}
    for pr in reg + fx:
        for c in pr['codes'] or ['accepted']:
            codes[c] = codes.get(c, 0) + 1
    ctx.cov.update({
        'evaluations': len(reg) + len(fx),
        'distinct_nontrivial': n_escape_rejected,
        'rule': 'generated safe Rust programs compiled by rustc against the crate as built from the current tree: every allocation-producing call (alloc, alloc_str, alloc_slice_copy, alloc_iter(_mut), alloc_fmt(_mut), alloc_cstr, alloc_uninit, BumpVec/MutBumpVec::into_slice/into_boxed_slice, BumpString/MutBumpString::into_(boxed_)str, stats, allocator) x every handle (Bump, the scope of scoped(), the scope of a scope guard, a pool guard, a claim guard, and the generic trait path B: BumpAllocatorTypedScope with B = &Bump, &mut Bump, &&Bump, &mut &mut Bump, WithoutDealloc/WithoutShrink wrappers, &/&mut BumpScope, BumpScope by value, with and without a forced static lifetime) x every escape route (use after reset / reset_to_start / drop / a second scope / guard reset / guard drop / pool reset / pool drop, return from the closure, store in an outer variable), each with a minimally different control that must compile; plus thread programs (Send only with a Send allocator, never Sync) and settings conversions (post-monomorphisation const assertions, compiled to an executable). The verdict of Regions.check with the regenerated tables on the abstraction of each program is compared with rustc. non-trivial = escape programs rejected by the borrow checker (or by the expected trait / const-evaluation error)',
        'samples': [pr['name'] for pr in (reg[:4] + reg[-3:] + fx[:3])],
        'traces_validated_against_impl': len(reg) + len(fx),
        'input_distribution': {'by_handle': kinds, 'by_rustc_verdict': codes},
        'mismatches': {'model_vs_rustc': len(disagreements), 'escapes_accepted_by_rustc': len(ctx.violations)},
        'partial_note': C04_NOTE,
    })
    return ctx.finish(level='proof', obligations=nthm, discharged=nclosed,
                      checker_cmd='make -C coq Properties/C04.vo (coqc 8.16.1; Print Assumptions under each theorem)' + ('; coqchk -o' if ctx.tier == 'thorough' else ''),
                      extra_assumptions=['signature translator tools/c04.py (regular expressions over impl headers and fn signatures; refuses shapes it does not know); ' + C04_NOTE,
                                         'the abstraction of each generated Rust program to Regions.cmd is given by the generator (checked: every escape abstraction does use memory after reuse in the dynamic semantics, no control abstraction does)'])


def replay_C04(ctx, path):
    import c04
    r = json.load(open(path))
    if r.get('kind') != 'rust-program' or not r.get('program'):
        print(json.dumps(r, indent=1)[:3000])
        return check_C04(ctx)
    exe = ctx.cargo_build('arith', release=False)
    env = dict(os.environ, CARGO_TARGET_DIR=os.path.join(CACHE, 'harness-target'), RUSTFLAGS='--cfg bump_scope_verif', CARGO_NET_OFFLINE='true')
    rlib, rc, err = c04.find_rlib(os.path.join(VERIF, 'harness'), None, env)
    res = c04.run_corpus([{'src': r['program'], 'link': r['name'].startswith('settings.')}], os.path.join(CACHE, 'c04'), rlib, os.path.dirname(rlib))
    ok, codes, first = res[0]
    if ok:
        print('reproduced: rustc accepts the program', r['name'])
        p = ctx.write_replay('violation', r)
        print('VIOLATION property=C04 replay=%s' % p)
        return 1
    print('rustc rejects the recorded program on the current tree:', codes, first[:200])
    return 0
