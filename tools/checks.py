"""Per-property checks.  Each check_Cxx(ctx) returns the process exit code."""
import os, json, re, time
from vlib import *


# ----------------------------------------------------------------------------------------
# shared: arithmetic correspondence (C11; reused by C12 for the size policy)
# ----------------------------------------------------------------------------------------
def run_arith(ctx, cases, seeds, inputs_file=None):
    """run real bumping.rs (debug and release builds) and compare with extracted gen + spec.
    returns (summary, mismatch-lines)"""
    total = {'cases': 0, 'spec_some': 0, 'spec_none': 0, 'dummy_range': 0,
             'impl_vs_spec': 0, 'gen_vs_impl': 0, 'gen_vs_spec': 0, 'by_fn_hints': {}}
    mism = []
    samples = []
    for release in (False, True):
        exe = ctx.cargo_build('arith', release=release)
        if exe is None:
            return None, []
        for sd in seeds:
            trace = os.path.join(CACHE, 'arith_%s_%d.txt' % ('rel' if release else 'dbg', sd))
            if inputs_file:
                cmd = '%s --inputs %s > %s' % (exe, inputs_file, trace)
            else:
                cmd = '%s --seed %d --cases %d > %s' % (exe, sd, cases, trace)
            rc, out, dt = sh(cmd, timeout=1200)
            if rc != 0:
                ctx.problems.append(('harness', 'arith harness failed rc=%d: %s' % (rc, out[-500:])))
                continue
            rc, out, dt2 = sh('%s arith < %s' % (DRV, trace), timeout=1800)
            if rc != 0:
                ctx.problems.append(('driver', 'drv arith failed: ' + out[-500:]))
                continue
            for l in out.split('\n'):
                if l.startswith('MISMATCH'):
                    mism.append(('release' if release else 'debug', l))
                elif l.startswith('SUMMARY'):
                    s = json.loads(l[len('SUMMARY '):])
                    for k in ('cases', 'spec_some', 'spec_none', 'dummy_range', 'impl_vs_spec', 'gen_vs_impl', 'gen_vs_spec'):
                        total[k] += s[k]
                    for k, v in s['by_fn_hints'].items():
                        total['by_fn_hints'][k] = total['by_fn_hints'].get(k, 0) + v
            if not samples:
                with open(trace) as f:
                    samples = [next(f).strip() for _ in range(4)]
            # distinct inputs (measured): count distinct lines of the trace
            rc, out, _ = sh("sort -u %s | wc -l" % trace)
            total.setdefault('distinct_lines', 0)
            total['distinct_lines'] += int(out.strip() or 0)
            os.remove(trace)
    total['samples'] = samples
    return total, mism


def parse_mismatch(line):
    m = re.match(r'MISMATCH kind=(\S+) input=(.*?) spec=(\S+) gen=(\S+) impl=(\S+)$', line)
    if not m:
        return None
    return {'kind': m.group(1), 'input': m.group(2), 'spec': m.group(3), 'gen': m.group(4), 'impl': m.group(5)}


def check_C11(ctx):
    target = 'Properties/C11'
    ctx.regen()
    ok, out = ctx.coq_build(target)
    nthm, nclosed = (0, 0)
    if ok:
        nthm, nclosed = ctx.check_assumptions(target, out)
    else:
        nthm = len(ctx.pinned(target)[0])
    ctx.grep_forbidden()
    if ctx.tier == 'thorough' and ok:
        ctx.coqchk(target)
    drv_ok = ctx.build_driver()
    cases = 150_000 if ctx.tier == 'quick' else 2_000_000
    seeds = [ctx.seed] if ctx.tier == 'quick' else [ctx.seed, ctx.seed + 1000003]
    summary = None
    if drv_ok:
        summary, mism = run_arith(ctx, cases, seeds)
        broken = bool(ctx.problems)
        if summary is not None:
            if (broken or summary['gen_vs_impl'] or summary['gen_vs_spec']) and not summary['impl_vs_spec']:
                # failing-input search: more seeds, more cases
                ctx.say('proof or tie broken: searching for a concrete failing input')
                s2, m2 = run_arith(ctx, 1_000_000, [ctx.seed + 7, ctx.seed + 77, ctx.seed + 777])
                if s2:
                    mism += m2
                    for k in ('cases', 'impl_vs_spec', 'gen_vs_impl', 'gen_vs_spec'):
                        summary[k] += s2[k]
            for mode, l in mism:
                pm = parse_mismatch(l)
                if not pm:
                    continue
                if pm['kind'] == 'impl_vs_spec':
                    fnname = {'U': 'bump_up', 'D': 'bump_down', 'PU': 'bump_prepare_up', 'PD': 'bump_prepare_down'}[pm['input'].split()[0]]
                    ctx.violations.append({
                        'kind': 'arith-input', 'function': fnname, 'build': mode,
                        'input_fields': 'fn start end min_align size align align_is_const size_is_const size_is_multiple_of_align -> impl result',
                        'input': pm['input'], 'expected_spec': pm['spec'], 'observed_impl': pm['impl'],
                        'generated_model': pm['gen'],
                        'signature': 'arith:%s' % fnname,
                        'how_to_replay': 'tools/vcheck C11 --replay <this file>',
                    })
            if summary['gen_vs_impl'] and not summary['impl_vs_spec']:
                ctx.problems.append(('tie', 'generated model and compiled code disagree on %d inputs (translator or extraction infidelity); first: %s'
                                     % (summary['gen_vs_impl'], next((l for _, l in mism if 'gen_vs_impl' in l), ''))))
            if summary['gen_vs_spec'] and not summary['impl_vs_spec'] and not summary['gen_vs_impl']:
                ctx.problems.append(('tie', 'generated model disagrees with the specification although the proof checked (stale build?)'))
            ctx.cov.update({
                'evaluations': summary['cases'],
                'distinct_nontrivial': summary.get('distinct_lines', 0),
                'rule': 'boundary-biased valid inputs (regular ranges near 0, 2^63, 2^64, the -16 dummy range; sizes around the fitting boundary; alignments 1..2^63; all 8 hint combinations that are truthful) from one splitmix64 stream; each run on the debug and the release build of the real src/bumping.rs; non-trivial = every case (each reaches a comparison of the code), distinct = distinct trace lines (sort -u)',
                'samples': summary['samples'],
                'traces_validated_against_impl': summary['cases'],
                'input_distribution': {k: summary[k] for k in ('spec_some', 'spec_none', 'dummy_range', 'by_fn_hints')},
                'mismatches': {k: summary[k] for k in ('impl_vs_spec', 'gen_vs_impl', 'gen_vs_spec')},
            })
    return ctx.finish(level='proof', obligations=nthm, discharged=nclosed,
                      checker_cmd='make -C coq Properties/C11.vo (coqc 8.16.1; Print Assumptions under each theorem)' + ('; coqchk -o' if ctx.tier == 'thorough' else ''),
                      extra_assumptions=['usize is 64 bit', 'inputs satisfy BumpProps::debug_assert_valid and Layout validity (the Valid predicates of BumpSpec.v)'])


def replay_C11(ctx, path):
    r = json.load(open(path))
    if r.get('kind') != 'arith-input':
        print('replay file names a broken proof/tie, not an input:', json.dumps(r.get('broken', r), indent=1)[:3000])
        return check_C11(ctx)
    inp = os.path.join(CACHE, 'replay_inputs.txt')
    with open(inp, 'w') as f:
        f.write(' '.join(r['input'].split()[:9]) + '\n')
    ctx.build_driver()
    s, mism = run_arith(ctx, 0, [0], inputs_file=inp)
    bad = [l for _, l in mism if 'impl_vs_spec' in l]
    for mode, l in mism:
        print(mode, l)
    if bad:
        p = ctx.write_replay('violation', r)
        print('VIOLATION property=C11 replay=%s' % p)
        return 1
    print('replayed input agrees with the specification on the current tree')
    return 0
