"""Per-property checks.  Each check_Cxx(ctx) returns the process exit code."""
import os, json, re, time
from vlib import *


# ----------------------------------------------------------------------------------------
# shared: arithmetic correspondence (C11; reused by C12 for the size policy)
# ----------------------------------------------------------------------------------------
def run_arith(ctx, cases, seeds, inputs_file=None, binname='arith'):
    """run the real functions (debug and release builds) and compare with extracted gen + spec.
    returns (summary, mismatch-lines)"""
    total = {'cases': 0, 'impl_vs_spec': 0, 'gen_vs_impl': 0, 'gen_vs_spec': 0}
    mism = []
    samples = []
    for release in (False, True):
        exe = ctx.cargo_build(binname, release=release)
        if exe is None:
            return None, []
        for sd in seeds:
            trace = os.path.join(CACHE, '%s_%s_%d.txt' % (binname, 'rel' if release else 'dbg', sd))
            if inputs_file:
                cmd = '%s --inputs %s > %s' % (exe, inputs_file, trace)
            else:
                cmd = '%s --seed %d --cases %d > %s' % (exe, sd, cases, trace)
            rc, out, dt = sh(cmd, timeout=1200)
            if rc != 0:
                ctx.problems.append(('harness', '%s harness failed rc=%d: %s' % (binname, rc, out[-500:])))
                continue
            rc, out, dt2 = sh('%s %s < %s' % (DRV, binname, trace), timeout=1800)
            if rc != 0:
                ctx.problems.append(('driver', 'drv %s failed: %s' % (binname, out[-500:])))
                continue
            for l in out.split('\n'):
                if l.startswith('MISMATCH') or l.startswith('PROPFAIL'):
                    mism.append(('release' if release else 'debug', l))
                elif l.startswith('SUMMARY'):
                    s = json.loads(l[len('SUMMARY '):])
                    for k, v in s.items():
                        if isinstance(v, dict):
                            d = total.setdefault(k, {})
                            for kk, vv in v.items():
                                d[kk] = d.get(kk, 0) + vv
                        elif k == 'header_layouts':
                            total[k] = max(total.get(k, 0), v)
                        else:
                            total[k] = total.get(k, 0) + v
            if not samples:
                with open(trace) as f:
                    samples = [next(f).strip() for _ in range(4)]
            # distinct inputs (measured): count distinct lines of the trace
            rc, out, _ = sh("sort -u %s | wc -l" % trace)
            total.setdefault('distinct_lines', 0)
            total['distinct_lines'] += int(out.strip() or 0)
            os.remove(trace)
    total['samples'] = samples
    return total, mism


def parse_propfail(line):
    m = re.match(r'PROPFAIL input=(.*?) (?:why=(\S+)|spec=(\S+) gen=(\S+) impl=(\S+))\s*$', line)
    if not m:
        return None
    return {'input': m.group(1), 'why': m.group(2), 'spec': m.group(3), 'gen': m.group(4), 'impl': m.group(5)}


def parse_mismatch(line):
    m = re.match(r'MISMATCH kind=(\S+) input=(.*?) spec=(\S+) gen=(\S+) impl=(\S+)\s*$', line)
    if not m:
        return None
    return {'kind': m.group(1), 'input': m.group(2), 'spec': m.group(3), 'gen': m.group(4), 'impl': m.group(5)}


def check_C11(ctx):
    target = 'Properties/C11'
    ctx.regen()
    ok, out = ctx.coq_build(target)
    nthm, nclosed = (0, 0)
    if ok:
        nthm, nclosed = ctx.check_assumptions(target, out)
    else:
        nthm = len(ctx.pinned(target)[0])
    ctx.grep_forbidden()
    if ctx.tier == 'thorough' and ok:
        ctx.coqchk(target)
    drv_ok = ctx.build_driver()
    cases = 150_000 if ctx.tier == 'quick' else 2_000_000
    seeds = [ctx.seed] if ctx.tier == 'quick' else [ctx.seed, ctx.seed + 1000003]
    summary = None
    if drv_ok:
        summary, mism = run_arith(ctx, cases, seeds)
        broken = bool(ctx.problems)
        if summary is not None:
            if (broken or summary['gen_vs_impl'] or summary['gen_vs_spec'] or summary['impl_vs_spec']) and not summary.get('prop_fail'):
                # failing-input search: more seeds, more cases
                ctx.say('proof or tie broken: searching for a concrete failing input')
                s2, m2 = run_arith(ctx, 1_000_000, [ctx.seed + 7, ctx.seed + 77, ctx.seed + 777])
                if s2:
                    mism += m2
                    for k in ('cases', 'impl_vs_spec', 'gen_vs_impl', 'gen_vs_spec', 'prop_fail'):
                        summary[k] = summary.get(k, 0) + s2.get(k, 0)
            for mode, l in mism:
                pf = parse_propfail(l)
                if not pf:
                    continue
                fnname = {'U': 'bump_up', 'D': 'bump_down', 'PU': 'bump_prepare_up', 'PD': 'bump_prepare_down'}[pf['input'].split()[0]]
                ctx.violations.append({
                    'kind': 'arith-input', 'function': fnname, 'build': mode,
                    'input_fields': 'fn start end min_align size align align_is_const size_is_const size_is_multiple_of_align -> impl result',
                    'input': pf['input'], 'expected_spec': pf['spec'], 'observed_impl': pf['impl'],
                    'generated_model': pf['gen'],
                    'signature': 'arith:%s' % fnname,
                    'how_to_replay': 'tools/vcheck C11 --replay <this file>',
                })
            if summary['impl_vs_spec'] and not summary.get('prop_fail'):
                ctx.problems.append(('tie', 'the compiled code differs from the specification on %d inputs in a way the property allows (e.g. a larger but valid new position); the refinement theorem no longer describes the code; first: %s'
                                     % (summary['impl_vs_spec'], next((l for _, l in mism if 'impl_vs_spec' in l), ''))))
            if summary['gen_vs_impl'] and not summary['impl_vs_spec']:
                ctx.problems.append(('tie', 'generated model and compiled code disagree on %d inputs (translator or extraction infidelity); first: %s'
                                     % (summary['gen_vs_impl'], next((l for _, l in mism if 'gen_vs_impl' in l), ''))))
            if summary['gen_vs_spec'] and not summary['impl_vs_spec'] and not summary['gen_vs_impl']:
                ctx.problems.append(('tie', 'generated model disagrees with the specification although the proof checked (stale build?)'))
            ctx.cov.update({
                'evaluations': summary['cases'],
                'distinct_nontrivial': summary.get('distinct_lines', 0),
                'rule': 'boundary-biased valid inputs (regular ranges near 0, 2^63, 2^64, the -16 dummy range; sizes around the fitting boundary; alignments 1..2^63; all 8 hint combinations that are truthful) from one splitmix64 stream; each run on the debug and the release build of the real src/bumping.rs; non-trivial = every case (each reaches a comparison of the code), distinct = distinct trace lines (sort -u)',
                'samples': summary['samples'],
                'traces_validated_against_impl': summary['cases'],
                'input_distribution': {k: summary[k] for k in ('spec_some', 'spec_none', 'dummy_range', 'by_fn_hints')},
                'mismatches': {k: summary.get(k, 0) for k in ('prop_fail', 'impl_vs_spec', 'gen_vs_impl', 'gen_vs_spec')},
            })
    return ctx.finish(level='proof', obligations=nthm, discharged=nclosed,
                      checker_cmd='make -C coq Properties/C11.vo (coqc 8.16.1; Print Assumptions under each theorem)' + ('; coqchk -o' if ctx.tier == 'thorough' else ''),
                      extra_assumptions=['usize is 64 bit', 'inputs satisfy BumpProps::debug_assert_valid and Layout validity (the Valid predicates of BumpSpec.v)'])


def replay_C11(ctx, path):
    r = json.load(open(path))
    if r.get('kind') != 'arith-input':
        print('replay file names a broken proof/tie, not an input:', json.dumps(r.get('broken', r), indent=1)[:3000])
        return check_C11(ctx)
    inp = os.path.join(CACHE, 'replay_inputs.txt')
    with open(inp, 'w') as f:
        f.write(' '.join(r['input'].split()[:9]) + '\n')
    ctx.build_driver()
    s, mism = run_arith(ctx, 0, [0], inputs_file=inp)
    bad = [l for _, l in mism if l.startswith('PROPFAIL')]
    for mode, l in mism:
        print(mode, l)
    if bad:
        p = ctx.write_replay('violation', r)
        print('VIOLATION property=C11 replay=%s' % p)
        return 1
    print('replayed input agrees with the specification on the current tree')
    return 0


# ----------------------------------------------------------------------------------------
def check_C12(ctx):
    target = 'Properties/C12'
    ctx.regen()
    ok, out = ctx.coq_build(target)
    nthm, nclosed = (0, 0)
    if ok:
        nthm, nclosed = ctx.check_assumptions(target, out)
    else:
        nthm = len(ctx.pinned(target)[0])
    ctx.grep_forbidden()
    if ctx.tier == 'thorough' and ok:
        ctx.coqchk(target)
    drv_ok = ctx.build_driver()
    cases = 100_000 if ctx.tier == 'quick' else 1_500_000
    seeds = [ctx.seed] if ctx.tier == 'quick' else [ctx.seed, ctx.seed + 1000003]
    if drv_ok:
        summary, mism = run_arith(ctx, cases, seeds, binname='sizecfg')
        if summary is not None:
            broken = bool(ctx.problems)
            if (broken or summary['gen_vs_impl'] or summary['gen_vs_spec'] or summary['impl_vs_spec']) and not summary.get('prop_fail'):
                ctx.say('proof or tie broken: searching for a concrete failing input')
                s2, m2 = run_arith(ctx, 700_000, [ctx.seed + 7, ctx.seed + 77, ctx.seed + 777], binname='sizecfg')
                if s2:
                    mism += m2
                    for k in ('cases', 'impl_vs_spec', 'gen_vs_impl', 'gen_vs_spec', 'prop_fail'):
                        summary[k] = summary.get(k, 0) + s2.get(k, 0)
            for mode, l in mism:
                pf = parse_propfail(l)
                if not pf:
                    continue
                tag = pf['input'].split()[0]
                what = {'H': 'calc_hint_from_capacity', 'Z': 'calc_size_from_hint', 'A': 'align_size',
                        'F': 'fresh chunk (size policy + real bump functions on the new chunk range)'}[tag]
                ctx.violations.append({
                    'kind': 'sizecfg-input', 'function': what, 'build': mode, 'what_fails': pf['why'],
                    'input_fields': {'H': 'H up hs ha size align -> result', 'Z': 'Z up hs ha hint -> result',
                                     'A': 'A up hs ha size -> result',
                                     'F': 'F up hs ha min_align size align min_chunk_size prev_chunk_size extra_granted base -> S hint n usable fits(1/0)'}[tag],
                    'input': pf['input'],
                    'signature': 'sizecfg:%s:%s' % (tag, pf['why']),
                })
            if summary['impl_vs_spec'] and not summary.get('prop_fail'):
                ctx.problems.append(('tie', 'the compiled size policy differs from the specified policy on %d inputs without violating the property on any explored input; the refinement theorems no longer describe the code; first: %s'
                                     % (summary['impl_vs_spec'], next((l for _, l in mism if 'impl_vs_spec' in l), ''))))
            if summary['gen_vs_impl'] and not summary['impl_vs_spec']:
                ctx.problems.append(('tie', 'generated model and compiled code disagree on %d inputs; first: %s'
                                     % (summary['gen_vs_impl'], next((l for _, l in mism if 'gen_vs_impl' in l), ''))))
            if summary.get('model_nofit'):
                ctx.problems.append(('model', 'the specification itself produced a fresh chunk that does not fit (contradicts the theorem: stale build?)'))
            ctx.cov.update({
                'evaluations': summary['cases'],
                'distinct_nontrivial': summary.get('distinct_lines', 0),
                'rule': 'random header layouts derived from allocator value layouts (size 0..256, align 1..256), layouts with sizes around powers of two / page multiples / the isize limit, alignments up to 2^63 (2^29 for the fresh-chunk cases), hints up to 2^64-1; kinds: H=calc_hint_from_capacity, Z=calc_size_from_hint, A=align_size, F=whole fresh-chunk path (hint, max with 2*prev and minimum chunk size, size, granted = size+extra, usable = align_size, then the REAL bump_up/bump_down/prepare on the fresh range for all three LayoutProps classes); debug and release builds; distinct = distinct trace lines',
                'samples': summary['samples'],
                'traces_validated_against_impl': summary['cases'],
                'input_distribution': {'by_kind': summary.get('by_kind'), 'header_layouts': summary.get('header_layouts')},
                'mismatches': {k: summary.get(k, 0) for k in ('prop_fail', 'impl_vs_spec', 'gen_vs_impl', 'gen_vs_spec')},
            })
    return ctx.finish(level='proof', obligations=nthm, discharged=nclosed,
                      checker_cmd='make -C coq Properties/C12.vo (coqc 8.16.1; Print Assumptions under each theorem)' + ('; coqchk -o' if ctx.tier == 'thorough' else ''),
                      extra_assumptions=['usize is 64 bit', 'header layout satisfies hdr_ok (ha power of two, 16 <= ha <= 2^32, ha | hs, 32 <= hs <= 2^40): true for every ChunkHeader<A>',
                                         'the composition in src/chunk/size.rs and NonDummyChunk::new (max with MINIMUM_CHUNK_SIZE and 2*previous, header placement) is hand-modelled; it is tied to the real arena by the arena correspondence (C01/C10 checks)'])


def replay_C12(ctx, path):
    r = json.load(open(path))
    print(json.dumps(r, indent=1)[:3000])
    return check_C12(ctx)
