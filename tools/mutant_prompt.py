#!/usr/bin/env python3
"""Print the prompt given to an independent sub-agent that seeds a property-breaking change.
Usage: mutant_prompt.py C07 /tmp/wt_C07 [variant-hint]"""
import json, sys
pid, wt = sys.argv[1], sys.argv[2]
hint = sys.argv[3] if len(sys.argv) > 3 else ""
for l in open('/verif/properties.jsonl'):
    p = json.loads(l)
    if p['id'] == pid:
        break
print(f"""You are helping to test a verification framework by mutation. You have your own scratch git worktree of the Rust crate bluurryy/bump-scope (a bump/arena allocator) at {wt} . Work ONLY inside {wt} (never touch /repo or /verif, do not read /verif). The sandbox is offline: always use `cargo ... --offline`.

Here is a semantic property of the crate that must hold:

  Title: {p['title']}
  Statement: {p['statement']}
  Quantified over: {p['quantifier']['text']}

Your task: make ONE small, realistic change to the crate's source under {wt}/src (the kind of slip a maintainer could make in a refactor or optimisation: an off-by-one, a wrong variable, a dropped re-alignment, a missing branch, a wrong constant, swapped arguments, a missing reset, ...) that BREAKS this property, while
  (1) the crate still compiles, and
  (2) the existing test suite still passes: `cd {wt} && cargo test --workspace --no-fail-fast --offline 2>&1 | grep -E "^test result|FAILED|failed|error" ` must show no failure (run it on the unchanged tree first if you want a baseline; it takes a few minutes; doc tests are included).
The change must need something specific to manifest - a particular multi-step sequence of operations, an unusual layout/alignment/size, a particular settings combination (e.g. downward bumping, MIN_ALIGN, a stateful or over-aligned base allocator), a failure or panic at a particular point, or two cooperating sites that each look fine alone - NOT something ordinary use would expose at once. {hint}

Also write a demonstration: a self-contained integration test file {wt}/tests/seeded_demo.rs (it may use only the crate's public API, `unsafe` allowed for the Allocator interface; custom base allocators can be written against bump_scope::alloc::Allocator) that FAILS with your change and PASSES without it. Verify both: run `cargo test --offline --test seeded_demo` with the change, then temporarily undo ONLY the src change with `git -C {wt} diff -- src > {wt}/patch.diff && git -C {wt} apply -R {wt}/patch.diff`, run it again, then restore with `git -C {wt} apply {wt}/patch.diff`. NEVER use `git stash` (the stash is shared between all worktrees of this repository and other agents work concurrently).

When done, leave in {wt}: the source change applied in the working tree (uncommitted), tests/seeded_demo.rs, and write {wt}/SEEDED.md with: what you changed and where (file:line), why it breaks the property, what exactly is needed for it to manifest, and the exact commands + observed results (test suite summary with the change; demo fails with / passes without). Also produce {wt}/patch.diff via `git -C {wt} diff -- src > {wt}/patch.diff` (source change only, not the demo test).
If your first idea makes an existing test fail, pick another one; do not edit or delete existing tests. Do not build anything outside {wt}. Final answer: a 5-line summary (file changed, nature of change, trigger condition, test-suite result, demo result).""")
