(* ArenaFill.v — C15 for whole fill sequences.  A MutBumpVec / MutBumpVecRev / MutBumpString or a
   *_mut helper, while it is being filled, does two things to the arena: it prepares a range
   (at creation and at every growth) and it writes into the range it was given.  For ANY sequence
   of such steps — growth as often as one likes, refused requests, chunk switches — no chunk up to
   and including the one that was current at the start changes at all (so no bump position in it
   moves and allocated() of those chunks stays), the live blocks stay, the invariant holds; at most
   a later chunk becomes the current one, and that chunk is empty.  Dropping or leaking the
   collection does nothing to the arena, so the state after the sequence is the state after a drop. *)
From Coq Require Import ZArith List Lia Bool.
From BS Require Import Word BumpSpec ChunkSpec Arena ArenaInv ArenaExt ArenaInv2.
Import ListNotations.
Open Scope Z_scope.

Definition is_fill (o : op) : Prop :=
  match o with OPrepare _ _ _ _ _ | OWriteRaw _ _ _ => True | _ => False end.

Fixpoint frun (c : cfg) (s : arena) (xs : list (op * resp)) : arena :=
  match xs with [] => s | (o, r) :: t => frun c (fst (step c s o r)) t end.

Fixpoint fok (c : cfg) (s : arena) (xs : list (op * resp)) : Prop :=
  match xs with
  | [] => True
  | (o, r) :: t => is_fill o /\ op_resp_ok2 c s o r /\ fok c (fst (step c s o r)) t
  end.

(* what one fill step keeps *)
Definition kept (i : nat) (s s' : arena) : Prop :=
  (forall k, (k <= i)%nat -> nth_error (chunks s') k = nth_error (chunks s) k) /\
  (exists j, cur s' = Cur j /\ (i <= j)%nat) /\
  live s' = live s /\ aligns s' = aligns s /\ depth s' = depth s.

Lemma kept_refl i s : cur s = Cur i -> kept i s s.
Proof. intros E. split; [reflexivity|]. split; [exists i; split; [exact E|lia]|]. repeat split. Qed.

Lemma fill_step_kept c s0 o r i :
  cfg_ok c -> inv c s0 -> cur s0 = Cur i -> is_fill o -> op_resp_ok2 c s0 o r ->
  kept i s0 (fst (step c s0 o r)).
Proof.
  intros Hc Hinv Ec Hf Hr. destruct o; try destruct Hf.
  - (* OPrepare *)
    cbn [op_resp_ok2] in Hr. apply inv_tick in Hinv.
    assert (Hr' : resp_ok c (tick s0) (es * cap) ea r) by (eapply resp_ok_ext; [|exact Hr]; reflexivity).
    assert (Ec' : cur (tick s0) = Cur i) by exact Ec.
    assert (Hk0 : kept i s0 (tick s0)) by (split; [reflexivity|]; split; [exists i; split; [exact Ec|lia]|repeat split]).
    cbn [step]. set (s := tick s0) in *.
    destruct (negb (is_top s h)); [exact Hk0|].
    destruct (IMAX <? es * cap + (ea - 1)); [exact Hk0|].
    destruct (raw_prepare_range c s (es * cap) ea r) as [s1 res] eqn:Ep.
    destruct (prepare_keeps c s (es * cap) ea r s1 res Hc (proj1 Hinv) Hr' Ep) as ((F1 & F2 & F3 & F4 & F5 & F6) & _ & _ & _).
    destruct (prepare_keeps_positions c s i (es * cap) ea r s1 res Hc (proj1 Hinv) Ec' Ep) as (P1 & P2).
    assert (K : kept i s0 s1).
    { split; [intros k Hk; rewrite (P1 k Hk); reflexivity|]. split; [exact P2|]. split; [exact F1|]. split; [exact F4|exact F3]. }
    destruct res as [[st en]|e]; exact K.
  - (* OWriteRaw *)
    cbn [step fst]. split; [reflexivity|]. split; [exists i; split; [exact Ec|lia]|]. repeat split.
Qed.

Lemma kept_trans i j a b d :
  kept i a b -> cur b = Cur j -> kept j b d -> kept i a d.
Proof.
  intros (P1 & (j1 & E1 & L1) & V1 & A1 & D1) Ej (P2 & (j2 & E2 & L2) & V2 & A2 & D2).
  assert (j1 = j) by congruence. subst j1.
  split; [intros k Hk; rewrite (P2 k ltac:(lia)); apply P1; exact Hk|].
  split; [exists j2; split; [exact E2|lia]|]. split; [congruence|]. split; congruence.
Qed.

(* any fill sequence *)
Theorem fill_sequence_keeps c : forall xs s i,
  cfg_ok c -> inv c s -> cur s = Cur i -> fok c s xs ->
  inv c (frun c s xs) /\ kept i s (frun c s xs).
Proof.
  induction xs as [|[o r] t IH]; intros s i Hc Hinv Ec Hok.
  - cbn. split; [exact Hinv|apply kept_refl; exact Ec].
  - destruct Hok as (Hf & Hr & Ht). cbn [frun].
    assert (Hok2 : op_ok2 c s o).
    { destruct o; try destruct Hf; cbn; exact I. }
    pose proof (step_inv c s o r Hc Hinv Hok2 Hr) as Hinv1.
    pose proof (fill_step_kept c s o r i Hc Hinv Ec Hf Hr) as K1.
    pose proof K1 as (_ & (j & Ej & Hij) & _).
    destruct (IH _ j Hc Hinv1 Ej Ht) as (Hinv2 & K2).
    split; [exact Hinv2|]. exact (kept_trans i j _ _ _ K1 Ej K2).
Qed.

(* in particular: the bump position and the allocated bytes of every chunk up to the original
   current one are what they were *)
Corollary fill_sequence_keeps_positions c xs s i :
  cfg_ok c -> inv c s -> cur s = Cur i -> fok c s xs ->
  forall k ch, (k <= i)%nat -> nth_error (chunks s) k = Some ch ->
  exists ch', nth_error (chunks (frun c s xs)) k = Some ch' /\ cpos ch' = cpos ch /\ allocated_in c ch' = allocated_in c ch.
Proof.
  intros Hc Hinv Ec Hok k ch Hk En. destruct (fill_sequence_keeps c xs s i Hc Hinv Ec Hok) as (_ & (P & _)).
  exists ch. rewrite (P k Hk). split; [exact En|]. split; reflexivity.
Qed.

(* ---------------------------------------------------------------- "at most a later, still empty chunk" *)
Definition fresh (c : cfg) (ch : chunk) : Prop := cpos ch = fresh_pos c ch.

Lemma fresh_empty c ch : fresh c ch -> allocated_in c ch = 0.
Proof. unfold fresh, allocated_in, fresh_pos. intros ->. destruct (up c); lia. Qed.

Lemma reset_chunk_fresh c ch : fresh c (reset_chunk c ch).
Proof. unfold fresh, reset_chunk, set_pos, fresh_pos, content_start, content_end. cbn. reflexivity. Qed.

(* the walk over later chunks, with a function that leaves the chunk it accepts as it is (prepare):
   every chunk it passed, and the one it stopped at, is the reset version of what was there *)
Lemma walk_next_resets {R} c (f : chunk -> option (R * chunk))
      (Hsame : forall ch p ch1, f ch = Some (p, ch1) -> ch1 = ch) :
  forall fuel cs i cs' j res, walk_next c f cs i fuel = (cs', j, res) ->
  (i <= j)%nat /\ length cs' = length cs /\
  (forall k, (k <= i)%nat -> nth_error cs' k = nth_error cs k) /\
  (forall k, (i < k <= j)%nat -> exists ch, nth_error cs k = Some ch /\ nth_error cs' k = Some (reset_chunk c ch)) /\
  (forall k, (j < k)%nat -> nth_error cs' k = nth_error cs k).
Proof.
  induction fuel as [|fuel IH]; intros cs i cs' j res H.
  - cbn in H. injection H as <- <- <-. repeat split; try lia; try reflexivity; try (intros k Hk; lia).
  - cbn [walk_next] in H. destruct (nth_error cs (S i)) as [ch|] eqn:En.
    2:{ injection H as <- <- <-. repeat split; try lia; try reflexivity; try (intros k Hk; lia). }
    pose proof (nth_error_some_lt _ _ _ En) as Hlt.
    destruct (f (reset_chunk c ch)) as [[p ch1]|] eqn:Ef.
    + injection H as <- <- <-. rewrite (Hsame _ _ _ Ef). split; [lia|]. split; [apply set_nth_length|]. split.
      * intros k Hk. apply nth_error_set_nth_neq. lia.
      * split.
        -- intros k Hk. assert (k = S i) by lia. subst k. exists ch. split; [exact En|]. apply nth_error_set_nth_eq. exact Hlt.
        -- intros k Hk. apply nth_error_set_nth_neq. lia.
    + destruct (IH _ _ _ _ _ H) as (Hij & Hlen & Hpre & Hmid & Hpost).
      rewrite set_nth_length in Hlen.
      split; [lia|]. split; [exact Hlen|]. split.
      * intros k Hk. rewrite (Hpre k ltac:(lia)). apply nth_error_set_nth_neq. lia.
      * split.
        -- intros k Hk. destruct (Nat.eq_dec k (S i)) as [->|Hne].
           ++ exists ch. split; [exact En|]. rewrite (Hpre (S i) (le_n _)). apply nth_error_set_nth_eq. exact Hlt.
           ++ destruct (Hmid k ltac:(lia)) as (chk & E1 & E2). exists chk. split; [|exact E2].
              rewrite nth_error_set_nth_neq in E1 by lia. exact E1.
        -- intros k Hk. rewrite (Hpost k Hk). apply nth_error_set_nth_neq. lia.
Qed.

(* one prepare: every chunk after the old current one up to the new current one is empty *)
Theorem prepare_later_chunks_are_empty c s i size align r s1 res :
  cfg_ok c -> ginv c s -> cur s = Cur i ->
  raw_prepare_range c s size align r = (s1, res) ->
  exists j, cur s1 = Cur j /\ (i <= j)%nat /\
    forall k chk, (i < k <= j)%nat -> nth_error (chunks s1) k = Some chk -> fresh c chk.
Proof.
  intros Hc (Hok & Hd & Hm & Hcur) Ec H. rewrite Ec in Hcur. destruct Hcur as (chi & Eni & Hmpi).
  pose proof (nth_error_some_lt _ _ _ Eni) as Hilt.
  unfold raw_prepare_range in H. rewrite Ec, Eni in H.
  set (f := fun ch : chunk => match chunk_prepare c ch size align with Some rng => Some (rng, ch) | None => None end) in *.
  cbv beta in H. destruct (chunk_prepare c chi size align) as [rng|] eqn:Ef.
  { injection H as <- _. exists i. split; [exact Ec|]. split; [lia|]. intros k chk Hk. lia. }
  assert (Hsame : forall ch p ch1, f ch = Some (p, ch1) -> ch1 = ch).
  { intros ch p ch1 Hfe. unfold f in Hfe. destruct (chunk_prepare c ch size align); [|discriminate]. injection Hfe as _ <-. reflexivity. }
  unfold in_another_chunk in H.
  destruct (walk_next c f (chunks s) i (length (chunks s))) as [[cs j] wres] eqn:Ew.
  destruct (walk_next_resets c f Hsame _ _ _ _ _ _ Ew) as (Hij & Hlen & Hpre & Hmid & Hpost).
  assert (Hfresh_mid : forall k chk, (i < k <= j)%nat -> nth_error cs k = Some chk -> fresh c chk).
  { intros k chk Hk E. destruct (Hmid k Hk) as (ch0 & _ & E2). rewrite E in E2. injection E2 as ->. apply reset_chunk_fresh. }
  destruct wres as [p|].
  - injection H as <- _. cbn [chunks cur upd_cur upd_chunks]. exists j. split; [reflexivity|]. split; [exact Hij|exact Hfresh_mid].
  - set (s0 := upd_cur (upd_chunks s cs) (Cur j)) in *.
    unfold grow_arena in H.
    destruct (new_chunk_size c _ size align) as [n|].
    2:{ injection H as <- _. cbn [chunks cur upd_cur upd_chunks s0]. exists i. split; [reflexivity|]. split; [lia|]. intros k chk Hk. lia. }
    destruct r as [[addr g]|].
    2:{ injection H as <- _. cbn [chunks cur upd_cur upd_chunks log_event s0]. exists i. split; [reflexivity|]. split; [lia|]. intros k chk Hk. lia. }
    cbn [cur chunks upd_cur upd_chunks log_event s0] in H.
    rewrite nth_error_app_last in H.
    (* the walk ran to the end: j is the last index, the new chunk gets index (length cs) *)
    assert (Hj_last : forall k chk, (i < k)%nat -> nth_error cs k = Some chk -> fresh c chk).
    { intros k chk Hk E. destruct (le_lt_dec k j) as [Hle|Hgt]; [apply (Hfresh_mid k chk); [lia|exact E]|].
      (* beyond j nothing was found by the walk: the walk stops only at the end of the list when it finds nothing *)
      exfalso. clear - Ew Hgt E Hlen.
      assert (Hend : forall fuel cs i cs' j, (length cs <= i + fuel + 1)%nat ->
                 walk_next c f cs i fuel = (cs', j, None) -> (length cs <= S j)%nat).
      { induction fuel as [|fuel IHf]; intros cs0 i0 cs0' j0 Hl Hw.
        - cbn in Hw. injection Hw as <- <-. lia.
        - cbn [walk_next] in Hw. destruct (nth_error cs0 (S i0)) as [ch|] eqn:En.
          + destruct (f (reset_chunk c ch)) as [[p ch1]|]; [discriminate|].
            assert (Hl' : (length (set_nth cs0 (S i0) (reset_chunk c ch)) <= S i0 + fuel + 1)%nat) by (rewrite set_nth_length; lia).
            pose proof (IHf _ _ _ _ Hl' Hw) as Hx. rewrite set_nth_length in Hx. exact Hx.
          + injection Hw as <- <-. apply nth_error_None in En. lia. }
      assert (Hl0 : (length (chunks s) <= i + length (chunks s) + 1)%nat) by lia.
      pose proof (Hend _ _ _ _ _ Hl0 Ew) as Hx.
      pose proof (nth_error_some_lt _ _ _ E). lia. }
    set (nc := make_chunk c n addr g) in *.
    assert (Hncf : fresh c nc) by (unfold nc, make_chunk; apply reset_chunk_fresh).
    destruct (f nc) as [[p ch1]|] eqn:Efn.
    + pose proof (Hsame _ _ _ Efn) as ->. injection H as <- _. cbn [chunks cur upd_chunks upd_cur log_event].
      exists (length cs). split; [reflexivity|]. split; [lia|]. intros k chk Hk E.
      destruct (Nat.eq_dec k (length cs)) as [->|Hne].
      * rewrite nth_error_set_nth_eq in E by (rewrite app_length; cbn; lia). injection E as <-. exact Hncf.
      * rewrite nth_error_set_nth_neq in E by lia. rewrite nth_error_app1 in E by lia. apply (Hj_last k chk); [lia|exact E].
    + injection H as <- _. cbn [chunks cur upd_chunks upd_cur log_event].
      exists (length cs). split; [reflexivity|]. split; [lia|]. intros k chk Hk E.
      destruct (Nat.eq_dec k (length cs)) as [->|Hne].
      * rewrite nth_error_app_last in E. injection E as <-. exact Hncf.
      * rewrite nth_error_app1 in E by lia. apply (Hj_last k chk); [lia|exact E].
Qed.

Definition later_empty (c : cfg) (i : nat) (s' : arena) : Prop :=
  exists j, cur s' = Cur j /\ (i <= j)%nat /\
    forall k chk, (i < k <= j)%nat -> nth_error (chunks s') k = Some chk -> fresh c chk.

Lemma fill_step_later_empty c s0 o r i :
  cfg_ok c -> inv c s0 -> cur s0 = Cur i -> is_fill o -> later_empty c i (fst (step c s0 o r)).
Proof.
  intros Hc Hinv Ec Hf.
  assert (Hsame : forall s1, cur s1 = Cur i -> later_empty c i s1).
  { intros s1 E. exists i. split; [exact E|]. split; [lia|]. intros k chk Hk. lia. }
  destruct o; try destruct Hf.
  - apply inv_tick in Hinv. assert (Ec' : cur (tick s0) = Cur i) by exact Ec.
    cbn [step]. set (s := tick s0) in *.
    destruct (negb (is_top s h)); [apply Hsame; exact Ec'|].
    destruct (IMAX <? es * cap + (ea - 1)); [apply Hsame; exact Ec'|].
    destruct (raw_prepare_range c s (es * cap) ea r) as [s1 res] eqn:Ep.
    pose proof (prepare_later_chunks_are_empty c s i (es * cap) ea r s1 res Hc (proj1 Hinv) Ec' Ep) as H.
    destruct res as [[st en]|e]; exact H.
  - cbn [step fst]. apply Hsame. exact Ec.
Qed.

(* any fill sequence: whatever chunk is current at the end, every chunk after the original current
   one up to it is empty — "at most a later, still empty chunk becomes the current one" *)
Theorem fill_sequence_later_chunks_empty c : forall xs s i,
  cfg_ok c -> inv c s -> cur s = Cur i -> fok c s xs -> later_empty c i (frun c s xs).
Proof.
  induction xs as [|[o r] t IH]; intros s i Hc Hinv Ec Hok.
  - cbn. exists i. split; [exact Ec|]. split; [lia|]. intros k chk Hk. lia.
  - destruct Hok as (Hf & Hr & Ht). cbn [frun].
    assert (Hok2 : op_ok2 c s o) by (destruct o; try destruct Hf; cbn; exact I).
    pose proof (step_inv c s o r Hc Hinv Hok2 Hr) as Hinv1.
    destruct (fill_step_later_empty c s o r i Hc Hinv Ec Hf) as (j & Ej & Hij & Hfr1).
    destruct (IH _ j Hc Hinv1 Ej Ht) as (j2 & Ej2 & Hjj2 & Hfr2).
    destruct (fill_sequence_keeps c t _ j Hc Hinv1 Ej Ht) as (_ & (P & _)).
    exists j2. split; [exact Ej2|]. split; [lia|]. intros k chk Hk E.
    destruct (le_lt_dec k j) as [Hle|Hgt].
    + rewrite (P k Hle) in E. apply (Hfr1 k chk); [lia|exact E].
    + apply (Hfr2 k chk); [lia|exact E].
Qed.

(* non-vacuity: a fill sequence that outgrows two chunks *)
Module FillExample.
  Definition c0 : cfg := mkCfg true false true true 512 32 16 true.
  Definition s0 : arena := fst (init_with_size c0 1 512 (Some (65536, 512))).
  Definition xs : list (op * resp) :=
    [(OPrepare 0 8 8 4 false, None); (OWriteRaw 65568 32 7, None);
     (OPrepare 0 8 8 100 false, Some (131072, 1024)); (OWriteRaw 131104 64 9, None);
     (OPrepare 0 8 8 400 false, Some (262144, 4096))].
  Example outgrows_two_chunks :
    cur s0 = Cur 0 /\ cur (frun c0 s0 xs) = Cur 2 /\
    map cpos (chunks (frun c0 s0 xs)) = [65568; 131104; 262176] /\
    map (allocated_in c0) (chunks (frun c0 s0 xs)) = [0; 0; 0].
  Proof. vm_compute. repeat split; reflexivity. Qed.
End FillExample.
