(* LibRefine.v — the arithmetic helpers of the CURRENT src/lib.rs (regenerated into gen/LibArith.v
   on every run) compute what the hand-written models use in their place:
   align_pos = Arena.align_posZ (re-alignment after deallocate / commit / aligned regions),
   min_non_zero_cap = VecCap.min_non_zero_cap (smallest capacity a growing vector asks for),
   bump_down / up_align_usize_unchecked / down_align_usize = the Word.v alignment functions. *)
From Coq Require Import ZArith Lia Bool ZifyBool.
From BS Require Import Word BumpSpec ChunkSpec Arena ArenaInv VecCap.
From BS.gen Require LibArith.
Open Scope Z_scope.

Lemma lib_down_align_ok x a :
  pow2 a -> a < W -> 0 <= x < W -> LibArith.down_align_usize x a = Ok (down_alignZ x a).
Proof.
  intros Ha HaW Hx. pose proof (pow2_pos _ Ha). unfold LibArith.down_align_usize.
  rewrite sub_ok by lia. cbn [bindc run]. rewrite and_not_mask by (try assumption; lia).
  reflexivity.
Qed.

Lemma lib_up_align_unchecked_ok x a :
  pow2 a -> a < W -> 0 <= x -> x + a - 1 < W -> LibArith.up_align_usize_unchecked x a = Ok (up_alignZ x a).
Proof.
  intros Ha HaW Hx Hb. pose proof (pow2_pos _ Ha). unfold LibArith.up_align_usize_unchecked.
  rewrite sub_ok by lia. cbn [bindc]. rewrite add_ok by lia. cbn [bindc run].
  rewrite and_not_mask by (try assumption; lia). unfold up_alignZ.
  replace (x + (a - 1)) with (x + a - 1) by lia. reflexivity.
Qed.

(* align_pos: the position of a chunk is below its end, which is 16-aligned and below 2^64, so the
   upward re-alignment cannot overflow *)
Theorem align_pos_refines upb m pos :
  valid_min_align m -> 0 <= pos -> pos + m - 1 < W ->
  LibArith.align_pos upb m pos = Ok (align_posZ upb m pos).
Proof.
  intros [Hm Hm16] Hp Hb. pose proof (pow2_pos _ Hm). assert (HmW : m < W) by (unfold W; lia).
  unfold LibArith.align_pos, align_posZ. destruct upb.
  - rewrite lib_up_align_unchecked_ok by (try assumption; lia). reflexivity.
  - rewrite lib_down_align_ok by (try assumption; lia). reflexivity.
Qed.

(* for the position of any chunk of a state that satisfies the invariant the precondition holds:
   the code's align_pos computes the model's re-alignment wherever the model uses it *)
Theorem align_pos_refines_chunk c ch upb m :
  cfg_ok c -> chunk_ok c ch -> valid_min_align m ->
  LibArith.align_pos upb m (cpos ch) = Ok (align_posZ upb m (cpos ch)).
Proof.
  intros Hc [Hg Hpos] Hm. pose proof (geom_bounds c Hc ch Hg) as (H0 & _ & HW & _ & _ & (k & Hk) & _).
  apply align_pos_refines; [exact Hm|lia|]. destruct Hm as [_ Hm16].
  (* content_end is a multiple of 16 below 2^64 *)
  assert (content_end c ch <= W - 16).
  { unfold W in *. assert (k < 2 ^ 60) by lia. lia. }
  lia.
Qed.

Theorem min_non_zero_cap_refines sz : LibArith.min_non_zero_cap sz = Ok (min_non_zero_cap sz).
Proof. reflexivity. Qed.

Theorem lib_bump_down_refines addr size align :
  pow2 align -> align < W -> 0 <= addr < W -> 0 <= size ->
  LibArith.bump_down addr size align = Ok (down_alignZ (Z.max (addr - size) 0) align).
Proof.
  intros Ha HaW Hx Hs. unfold LibArith.bump_down, sat_sub.
  rewrite lib_down_align_ok by (try assumption; lia). reflexivity.
Qed.
