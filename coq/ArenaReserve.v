(* ArenaReserve.v — RawBump::reserve walks the chunk list from the current chunk: it subtracts what the current chunk
   has left, then the capacity of every later chunk, with `checked_sub` — stopping as soon as a subtraction would go
   below zero (enough room) — and asks for a new chunk for what is left unless that is zero.  The arena model
   (Arena.step, OReserve) uses the closed form: nothing to do iff the request is at most the sum, otherwise a chunk
   for the difference.  reserve_walk is the loop as the code writes it; the theorem is that the two agree. *)
From Coq Require Import ZArith List Lia Bool.
From BS Require Import Word Arena.
Import ListNotations.
Open Scope Z_scope.

(* None = the existing chunks suffice (return Ok(())); Some r = append a chunk for r more bytes *)
Fixpoint reserve_walk_rest (additional : Z) (caps_after : list Z) : option Z :=
  match caps_after with
  | [] => if additional =? 0 then None else Some additional
  | cap :: t =>
    match checked_sub additional cap with
    | Some rest => reserve_walk_rest rest t
    | None => None
    end
  end.

Definition reserve_walk (n remaining_cur : Z) (caps_after : list Z) : option Z :=
  match checked_sub n remaining_cur with
  | Some rest => reserve_walk_rest rest caps_after
  | None => None
  end.

Lemma reserve_walk_rest_closed additional caps :
  0 <= additional -> Forall (fun x => 0 <= x) caps ->
  reserve_walk_rest additional caps =
  if additional <=? sumZ caps then None else Some (additional - sumZ caps).
Proof.
  revert additional. induction caps as [|cap t IH]; intros a Ha Hc.
  - cbn [reserve_walk_rest sumZ fold_right]. unfold sumZ. cbn.
    destruct (Z.eqb_spec a 0); destruct (Z.leb_spec a 0); try lia; try reflexivity. f_equal. lia.
  - inversion Hc as [|? ? Hcap Ht]; subst. cbn [reserve_walk_rest]. unfold checked_sub.
    assert (Es : sumZ (cap :: t) = cap + sumZ t) by reflexivity. rewrite Es.
    assert (Hs : 0 <= sumZ t).
    { clear - Ht. induction Ht as [|x l Hx _ IHl]; [unfold sumZ; cbn; lia|]. change (sumZ (x :: l)) with (x + sumZ l). lia. }
    destruct (Z.leb_spec 0 (a - cap)).
    + rewrite IH by (try assumption; lia).
      destruct (Z.leb_spec (a - cap) (sumZ t)); destruct (Z.leb_spec a (cap + sumZ t)); try lia; try reflexivity.
      f_equal. lia.
    + destruct (Z.leb_spec a (cap + sumZ t)); [reflexivity|lia].
Qed.

Theorem reserve_walk_closed_form n remaining_cur caps :
  0 <= n -> 0 <= remaining_cur -> Forall (fun x => 0 <= x) caps ->
  reserve_walk n remaining_cur caps =
  let avail := remaining_cur + sumZ caps in
  if n <=? avail then None else Some (n - avail).
Proof.
  intros Hn Hr Hc. unfold reserve_walk, checked_sub. cbv zeta.
  assert (Hs : 0 <= sumZ caps).
  { clear - Hc. induction Hc as [|x l Hx _ IHl]; [unfold sumZ; cbn; lia|]. change (sumZ (x :: l)) with (x + sumZ l). lia. }
  destruct (Z.leb_spec 0 (n - remaining_cur)).
  - rewrite reserve_walk_rest_closed by (try assumption; lia).
    destruct (Z.leb_spec (n - remaining_cur) (sumZ caps)); destruct (Z.leb_spec n (remaining_cur + sumZ caps)); try lia; try reflexivity.
    f_equal. lia.
  - destruct (Z.leb_spec n (remaining_cur + sumZ caps)); [reflexivity|lia].
Qed.

Example reserve_walk_example :
  reserve_walk 100 30 [40; 20] = Some 10 /\ reserve_walk 90 30 [40; 20] = None /\ reserve_walk 20 30 [40] = None.
Proof. vm_compute. repeat split; reflexivity. Qed.
