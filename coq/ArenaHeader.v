(* ArenaHeader.v — where the chunk header is (C05 "never touches bytes outside the blocks it was granted",
   C10 "with its header inside the granted block"): the header of a chunk is the `hs` bytes at the
   low end of the chunk when bumping upwards and at the high end of the (size-aligned) chunk when
   bumping downwards (`RawChunk::header` / `NonDummyChunk::new` in raw_bump.rs).  For every chunk of
   a state satisfying the invariant the header lies inside the block granted by the base allocator,
   is aligned to the header alignment, shares no byte with the content range — so no allocation,
   prepared range or live block can overlap it — and no live block overlaps the header of ANY chunk
   of the arena (blocks live in content ranges, granted blocks are pairwise disjoint).
   All the arena's own bookkeeping writes (pos, prev / next links) go to headers: together with
   ArenaWrites.v (data writes stay inside live blocks) this places every write of the arena inside
   a granted block it still holds. *)
From Coq Require Import ZArith List Lia.
From BS Require Import Word BumpSpec ChunkSpec Arena ArenaInv.
Import ListNotations.
Open Scope Z_scope.

Definition header_start (c : cfg) (ch : chunk) : Z :=
  if up c then cbase ch else cbase ch + csize ch - hs c.

Theorem header_inside_granted c ch :
  cfg_ok c -> chunk_geom c ch ->
  cbase ch <= header_start c ch /\ header_start c ch + hs c <= cbase ch + cgranted ch.
Proof.
  intros Hc Hg. unfold chunk_geom in Hg. unfold header_start.
  destruct Hg as (Hb & Hdb & H16 & Hdn & Hhs & Hreq & Hsz & HW & HI).
  destruct (up c); lia.
Qed.

Theorem header_disjoint_from_content c ch :
  header_start c ch + hs c <= content_start c ch \/ content_end c ch <= header_start c ch.
Proof. unfold header_start, content_start, content_end. destruct (up c); lia. Qed.

Theorem header_and_content_tile_the_chunk c ch :
  (if up c then header_start c ch + hs c = content_start c ch /\ content_end c ch = cbase ch + csize ch
   else content_start c ch = cbase ch /\ content_end c ch = header_start c ch /\ header_start c ch + hs c = cbase ch + csize ch).
Proof. unfold header_start, content_start, content_end. destruct (up c); lia. Qed.

Theorem header_aligned c ch :
  cfg_ok c -> chunk_geom c ch -> (ha c | header_start c ch).
Proof.
  intros Hc Hg. unfold chunk_geom in Hg.
  destruct Hg as (Hb & Hdb & H16 & Hdn & Hhs & Hreq & Hsz & HW & HI).
  assert (Hh : (ha c | hs c)) by (unfold cfg_ok, hdr_ok in Hc; tauto).
  unfold header_start. destruct (up c) eqn:E; [exact Hdb|].
  apply Z.divide_sub_r; [apply Z.divide_add_r; [exact Hdb|apply Hdn; reflexivity]|exact Hh].
Qed.

(* anything inside a content range misses the header of the same chunk *)
Lemma in_chunk_misses_header c ch p sz :
  in_chunk c ch p sz -> disjoint_rng p sz (header_start c ch) (hs c).
Proof.
  unfold in_chunk, disjoint_rng. intros [H1 H2].
  destruct (header_disjoint_from_content c ch); lia.
Qed.

(* a live block misses the header of EVERY chunk of the arena *)
Theorem live_block_misses_every_header c s b k ch :
  cfg_ok c -> inv c s -> In b (live s) -> nth_error (chunks s) k = Some ch ->
  disjoint_rng (bptr b) (bsize b) (header_start c ch) (hs c).
Proof.
  intros Hc (Hg & Hl & _ & _) Hin Hk.
  destruct Hg as (Hok & Hdis & _ & _).
  rewrite Forall_forall in Hl. specialize (Hl b Hin).
  destruct Hl as (Hs0 & _ & (k' & ch' & Hk' & Hic & _)).
  destruct (Nat.eq_dec k' k) as [E|NE].
  - subst k'. rewrite Hk in Hk'. injection Hk' as <-. apply in_chunk_misses_header. exact Hic.
  - (* another chunk: the granted blocks are disjoint, the block is inside one, the header inside the other *)
    rewrite Forall_forall in Hok.
    assert (Hc1 : chunk_ok c ch) by (apply Hok; eapply nth_error_In; eassumption).
    assert (Hc2 : chunk_ok c ch') by (apply Hok; eapply nth_error_In; eassumption).
    destruct Hc1 as [Hg1 _]. destruct Hc2 as [Hg2 _].
    pose proof (header_inside_granted c ch Hc Hg1) as [Hh1 Hh2].
    specialize (Hdis k' k ch' ch NE Hk' Hk).
    unfold in_chunk, content_start, content_end in Hic.
    unfold chunk_geom in Hg2. destruct Hg2 as (Hb & Hdb & H16 & Hdn & Hhs & Hreq & Hsz & HW & HI).
    unfold disjoint_rng. destruct (up c); lia.
Qed.

(* non-vacuity: a concrete downward chunk with an over-aligned 64-byte header *)
Example header_example :
  let c := mkCfg false false true true 512 64 64 true in
  let ch := mkChunk 65536 512 512 520 (65536 + 448) in
  header_start c ch = 65984 /\ content_start c ch = 65536 /\ content_end c ch = 65984.
Proof. vm_compute. repeat split; reflexivity. Qed.
