(* BumpSpec.v — unbounded-Z specifications of the four bump computations and their
   characterisation (sound / tight / nearest / maximal).  Independent of generated code. *)
From Coq Require Import ZArith Lia Bool.
From BS Require Import Word.
Open Scope Z_scope.

(* ---------------- specifications (executable) ---------------- *)

(* upwards: block as near to `start` as alignment allows; returns (ptr, new_pos) *)
Definition spec_up (start end_ min_align size align : Z) : option (Z * Z) :=
  let q := up_alignZ start align in
  if (start <=? end_) && (q + size <=? end_)
  then Some (q, up_alignZ (q + size) min_align) else None.

(* downwards: block as near to `end_` as alignment allows; ptr = new_pos *)
Definition spec_down (start end_ min_align size align : Z) : option Z :=
  let p := down_alignZ (end_ - size) (Z.max align min_align) in
  if (start <=? end_) && (start <=? p) then Some p else None.

Definition spec_prep_up (start end_ size align : Z) : option (Z * Z) :=
  let q := up_alignZ start align in
  if (start <=? end_) && (q + size <=? end_)
  then Some (q, down_alignZ end_ align) else None.

Definition spec_prep_down (start end_ size align : Z) : option (Z * Z) :=
  let e := down_alignZ end_ align in
  if (start <=? end_) && (start + size <=? e)
  then Some (up_alignZ start align, e) else None.

(* ---------------- input domain ---------------- *)

Definition valid_layout (size align : Z) : Prop :=
  pow2 align /\ 0 <= size /\ size + (align - 1) <= IMAX.

Definition valid_min_align (m : Z) : Prop := pow2 m /\ m <= 16.

(* BumpProps::debug_assert_valid, regular (non-dummy) range *)
Definition regular_up (start end_ m : Z) : Prop :=
  0 < start /\ start <= end_ /\ end_ < W /\ end_ - start <= IMAX /\ (m | start) /\ (16 | end_).
Definition regular_down (start end_ m : Z) : Prop :=
  0 < start /\ start <= end_ /\ end_ < W /\ end_ - start <= IMAX /\ (16 | start) /\ (m | end_).
(* the two static dummy ranges: capacity -16 *)
Definition dummy_range (start end_ : Z) : Prop :=
  0 < end_ /\ start = end_ + 16 /\ start < W /\ (16 | start) /\ (16 | end_).

Definition valid_up (start end_ m : Z) := regular_up start end_ m \/ dummy_range start end_.
Definition valid_down (start end_ m : Z) := regular_down start end_ m \/ dummy_range start end_.

Lemma min_align_div16 m : valid_min_align m -> (m | 16).
Proof. intros [Hp Hle]. apply pow2_divide; [assumption|apply pow2_16|assumption]. Qed.

Lemma min_align_pos m : valid_min_align m -> 0 < m.
Proof. intros [Hp _]. apply pow2_pos; assumption. Qed.

(* ---------------- characterisation: upwards ---------------- *)

Theorem spec_up_sound start end_ m size align ptr np :
  valid_min_align m -> valid_layout size align -> regular_up start end_ m ->
  spec_up start end_ m size align = Some (ptr, np) ->
  (align | ptr) /\ start <= ptr /\ ptr + size <= np /\ np <= end_ /\ (m | np) /\
  np < ptr + size + m.
Proof.
  intros Hm [Ha [Hs Hl]] (H0 & Hse & HeW & Hsz & Hms & H16) H.
  pose proof (pow2_pos _ Ha) as Hap. pose proof (min_align_pos _ Hm) as Hmp.
  unfold spec_up in H.
  destruct ((start <=? end_) && (up_alignZ start align + size <=? end_)) eqn:E; [|discriminate].
  injection H as <- <-.
  apply andb_true_iff in E. destruct E as [_ E]. apply Z.leb_le in E.
  repeat split.
  - apply up_align_div; assumption.
  - apply up_align_ge; assumption.
  - apply up_align_ge; assumption.
  - apply up_align_min; [assumption| |assumption].
    eapply Z.divide_trans; [apply min_align_div16; eassumption|assumption].
  - apply up_align_div; assumption.
  - apply up_align_lt; assumption.
Qed.

Theorem spec_up_tight start end_ m size align :
  valid_layout size align -> regular_up start end_ m ->
  (spec_up start end_ m size align = None <->
   ~ exists q, (align | q) /\ start <= q /\ q + size <= end_).
Proof.
  intros [Ha [Hs Hl]] (H0 & Hse & HeW & Hsz & Hms & H16).
  pose proof (pow2_pos _ Ha) as Hap. unfold spec_up.
  destruct (Z.leb_spec start end_); [|lia]. cbn [andb].
  destruct (Z.leb_spec (up_alignZ start align + size) end_) as [Hfit|Hno].
  - split; [discriminate|]. intros Hn. exfalso. apply Hn.
    exists (up_alignZ start align). split; [apply up_align_div; assumption|].
    split; [apply up_align_ge; assumption|assumption].
  - split; [|reflexivity]. intros _ [q (Hq & Hge & Hle)].
    pose proof (up_align_min start q align Hap Hq Hge). lia.
Qed.

Theorem spec_up_nearest start end_ m size align ptr np q :
  valid_layout size align ->
  spec_up start end_ m size align = Some (ptr, np) ->
  (align | q) -> start <= q -> ptr <= q.
Proof.
  intros [Ha _] H Hq Hge. pose proof (pow2_pos _ Ha) as Hap. unfold spec_up in H.
  destruct ((start <=? end_) && (up_alignZ start align + size <=? end_)); [|discriminate].
  injection H as <- <-. apply up_align_min; assumption.
Qed.

Theorem spec_up_dummy start end_ m size align :
  0 <= size -> 0 < align -> dummy_range start end_ ->
  spec_up start end_ m size align = None.
Proof.
  intros Hs Ha (H0 & -> & _). unfold spec_up.
  destruct (Z.leb_spec (end_ + 16) end_); [lia|reflexivity].
Qed.

(* ---------------- characterisation: downwards ---------------- *)

Theorem spec_down_sound start end_ m size align p :
  valid_min_align m -> valid_layout size align -> regular_down start end_ m ->
  spec_down start end_ m size align = Some p ->
  (align | p) /\ (m | p) /\ start <= p /\ p + size <= end_.
Proof.
  intros [Hmp2 Hm16] [Ha [Hs Hl]] (H0 & Hse & HeW & Hsz & H16 & Hme) H.
  pose proof (pow2_pos _ Ha) as Hap. pose proof (pow2_pos _ Hmp2) as Hmp.
  pose proof (pow2_max _ _ Ha Hmp2) as Hmx. pose proof (pow2_pos _ Hmx) as Hmxp.
  unfold spec_down in H.
  destruct ((start <=? end_) && (start <=? down_alignZ (end_ - size) (Z.max align m))) eqn:E;
    [|discriminate].
  injection H as <-. apply andb_true_iff in E. destruct E as [_ E]. apply Z.leb_le in E.
  repeat split.
  - apply down_align_div_finer; [assumption|]. apply pow2_divide; [assumption|assumption|lia].
  - apply down_align_div_finer; [assumption|]. apply pow2_divide; [assumption|assumption|lia].
  - assumption.
  - pose proof (down_align_le (end_ - size) (Z.max align m) Hmxp). lia.
Qed.

Theorem spec_down_tight start end_ m size align :
  valid_min_align m -> valid_layout size align -> regular_down start end_ m ->
  (spec_down start end_ m size align = None <->
   ~ exists q, (align | q) /\ start <= q /\ q + size <= end_).
Proof.
  intros [Hmp2 Hm16] [Ha [Hs Hl]] (H0 & Hse & HeW & Hsz & H16 & Hme).
  pose proof (pow2_pos _ Ha) as Hap. pose proof (pow2_pos _ Hmp2) as Hmp.
  pose proof (pow2_max _ _ Ha Hmp2) as Hmx. pose proof (pow2_pos _ Hmx) as Hmxp.
  unfold spec_down. destruct (Z.leb_spec start end_); [|lia]. cbn [andb].
  destruct (Z.leb_spec start (down_alignZ (end_ - size) (Z.max align m))) as [Hfit|Hno].
  - split; [discriminate|]. intros Hn. exfalso. apply Hn.
    exists (down_alignZ (end_ - size) (Z.max align m)). split.
    + apply down_align_div_finer; [assumption|]. apply pow2_divide; [assumption|assumption|lia].
    + split; [assumption|]. pose proof (down_align_le (end_ - size) (Z.max align m) Hmxp). lia.
  - split; [|reflexivity]. intros _ [q (Hq & Hge & Hle)].
    (* q' := q aligned down to max(align,m) is still >= start because 16 | start *)
    assert (Hq' : start <= down_alignZ q (Z.max align m)).
    { destruct (Z.max_spec align m) as [[Hlt ->]|[Hge' ->]].
      - apply down_align_max; [assumption| |assumption].
        eapply Z.divide_trans; [|exact H16]. apply pow2_divide; [assumption|apply pow2_16|assumption].
      - rewrite down_align_id; assumption. }
    pose proof (down_align_mono q (end_ - size) (Z.max align m) Hmxp ltac:(lia)). lia.
Qed.

Theorem spec_down_nearest start end_ m size align p q :
  valid_min_align m -> valid_layout size align ->
  spec_down start end_ m size align = Some p ->
  (Z.max align m | q) -> q + size <= end_ -> q <= p.
Proof.
  intros [Hmp2 _] [Ha _] H Hq Hle.
  pose proof (pow2_max _ _ Ha Hmp2) as Hmx. pose proof (pow2_pos _ Hmx) as Hmxp.
  unfold spec_down in H.
  destruct ((start <=? end_) && (start <=? down_alignZ (end_ - size) (Z.max align m)));
    [|discriminate].
  injection H as <-. apply down_align_max; [assumption|assumption|lia].
Qed.

Theorem spec_down_dummy start end_ m size align :
  dummy_range start end_ -> spec_down start end_ m size align = None.
Proof.
  intros (H0 & -> & _). unfold spec_down.
  destruct (Z.leb_spec (end_ + 16) end_); [lia|reflexivity].
Qed.

(* ---------------- characterisation: prepare ---------------- *)

Theorem spec_prep_up_maximal start end_ size align s e :
  valid_layout size align -> (align | size) ->
  spec_prep_up start end_ size align = Some (s, e) ->
  (align | s) /\ (align | e) /\ start <= s /\ e <= end_ /\ size <= e - s /\
  (forall a b, (align | a) -> (align | b) -> start <= a -> b <= end_ -> s <= a /\ b <= e).
Proof.
  intros [Ha [Hs Hl]] Hmul H. pose proof (pow2_pos _ Ha) as Hap. unfold spec_prep_up in H.
  destruct ((start <=? end_) && (up_alignZ start align + size <=? end_)) eqn:E; [|discriminate].
  injection H as <- <-. apply andb_true_iff in E. destruct E as [_ E]. apply Z.leb_le in E.
  repeat split.
  - apply up_align_div; assumption.
  - apply down_align_div; assumption.
  - apply up_align_ge; assumption.
  - apply down_align_le; assumption.
  - assert (up_alignZ start align + size <= down_alignZ end_ align); [|lia].
    apply down_align_max; [assumption| |assumption].
    apply Z.divide_add_r; [apply up_align_div; assumption|assumption].
  - apply up_align_min; assumption.
  - apply down_align_max; assumption.
Qed.

Theorem spec_prep_down_maximal start end_ size align s e :
  valid_layout size align -> (align | size) ->
  spec_prep_down start end_ size align = Some (s, e) ->
  (align | s) /\ (align | e) /\ start <= s /\ e <= end_ /\ size <= e - s /\
  (forall a b, (align | a) -> (align | b) -> start <= a -> b <= end_ -> s <= a /\ b <= e).
Proof.
  intros [Ha [Hs Hl]] Hmul H. pose proof (pow2_pos _ Ha) as Hap. unfold spec_prep_down in H.
  destruct ((start <=? end_) && (start + size <=? down_alignZ end_ align)) eqn:E; [|discriminate].
  injection H as <- <-. apply andb_true_iff in E. destruct E as [_ E]. apply Z.leb_le in E.
  repeat split.
  - apply up_align_div; assumption.
  - apply down_align_div; assumption.
  - apply up_align_ge; assumption.
  - apply down_align_le; assumption.
  - assert (up_alignZ start align <= down_alignZ end_ align - size); [|lia].
    apply up_align_min; [assumption| |lia].
    apply Z.divide_sub_r; [apply down_align_div; assumption|assumption].
  - apply up_align_min; assumption.
  - apply down_align_max; assumption.
Qed.

Theorem spec_prep_dummy start end_ size align :
  0 <= size -> 0 < align -> dummy_range start end_ ->
  spec_prep_up start end_ size align = None /\ spec_prep_down start end_ size align = None.
Proof.
  intros Hs Ha (H0 & -> & _). unfold spec_prep_up, spec_prep_down.
  destruct (Z.leb_spec (end_ + 16) end_); [lia|]. split; reflexivity.
Qed.

(* prepare and allocate agree on whether the request fits (used by the arena model) *)
Lemma spec_prep_up_some_iff start end_ m size align :
  spec_prep_up start end_ size align = None <-> spec_up start end_ m size align = None.
Proof.
  unfold spec_prep_up, spec_up.
  destruct ((start <=? end_) && (up_alignZ start align + size <=? end_)); split; congruence.
Qed.

(* a coarser alignment aligns further down *)
Lemma down_align_coarser x a A : 0 < a -> 0 < A -> (a | A) -> down_alignZ x A <= down_alignZ x a.
Proof.
  intros Ha HA Hd. apply down_align_max; [assumption| |apply down_align_le; assumption].
  eapply Z.divide_trans; [exact Hd|apply down_align_div; assumption].
Qed.

(* for sizes that are multiples of the alignment, prepare fits whenever allocate fits *)
Lemma spec_prep_down_fits start end_ m size align :
  valid_min_align m -> valid_layout size align -> (align | size) ->
  spec_down start end_ m size align <> None -> spec_prep_down start end_ size align <> None.
Proof.
  intros [Hm2 _] [Ha2 [Hs _]] Hmul H. pose proof (pow2_pos _ Ha2) as Hap.
  pose proof (pow2_max _ _ Ha2 Hm2) as HA2. pose proof (pow2_pos _ HA2) as HAp.
  unfold spec_down in H. unfold spec_prep_down.
  destruct (Z.leb_spec start end_); [|exfalso; apply H; reflexivity]. cbn [andb] in *.
  destruct (Z.leb_spec start (down_alignZ (end_ - size) (Z.max align m))) as [Hfit|];
    [|exfalso; apply H; reflexivity].
  assert (Hc : down_alignZ (end_ - size) (Z.max align m) <= down_alignZ (end_ - size) align).
  { apply down_align_coarser; [assumption|assumption|].
    apply pow2_divide; [assumption|assumption|lia]. }
  assert (He : down_alignZ (end_ - size) align = down_alignZ end_ align - size).
  { destruct Hmul as [k Hk]. replace (end_ - size) with (end_ + (- k) * align) by lia.
    unfold down_alignZ. rewrite Z.mod_add by lia. lia. }
  destruct (Z.leb_spec (start + size) (down_alignZ end_ align)); [discriminate|lia].
Qed.

Lemma spec_prep_up_fits start end_ m size align :
  spec_up start end_ m size align <> None -> spec_prep_up start end_ size align <> None.
Proof. intros H Hn. apply H. apply (spec_prep_up_some_iff start end_ m size align). exact Hn. Qed.

(* non-vacuity: the hypotheses are satisfiable by concrete, non-trivial ranges *)
Example spec_up_example :
  spec_up 4104 8192 8 13 32 = Some (4128, 4144) /\ spec_down 4096 8188 4 13 32 = Some 8160.
Proof. split; reflexivity. Qed.
