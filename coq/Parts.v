(* Parts.v — executable model of dividing and merging owned slices (MODEL ONLY; proofs in
   PartsProofs.v).  Hand-written from src/bump_box.rs: split_at / split_at_unchecked, split_first,
   split_last (split_off_first / split_off_last forward to them), merge (sized elements),
   partition = polyfill::iter::partition_in_place followed by split_at.

   Memory is a buffer of elements (a list, index = element offset from some base address); an
   owned slice is a window (offset, length) of it — a BumpBox<[T]> is exactly that pair: a pointer
   and a length, no capacity.  Dividing never moves an element: it only makes new windows. *)
From Coq Require Import List Arith Bool.
Import ListNotations.

Record part := mkPart { poff : nat; plen : nat }.

Definition view {A} (buf : list A) (p : part) : list A := firstn (plen p) (skipn (poff p) buf).

(* split_at: panics (None) iff at > len *)
Definition split_at (p : part) (mid : nat) : option (part * part) :=
  if plen p <? mid then None
  else Some (mkPart (poff p) mid, mkPart (poff p + mid) (plen p - mid)).

(* split_first / split_last: (offset of the single element, the rest) *)
Definition split_first (p : part) : option (nat * part) :=
  if plen p =? 0 then None else Some (poff p, mkPart (poff p + 1) (plen p - 1)).
Definition split_last (p : part) : option (nat * part) :=
  if plen p =? 0 then None else Some (poff p + (plen p - 1), mkPart (poff p) (plen p - 1)).

(* merge (sized T): panics (None) unless `other` starts where `self` ends *)
Definition merge (a b : part) : option part :=
  if poff a + plen a =? poff b then Some (mkPart (poff a) (plen a + plen b)) else None.

(* ---------------------------------------------------------------- partition_in_place *)
(* find(is_false): skip (and count) the leading elements that satisfy the predicate *)
Fixpoint span {A} (p : A -> bool) (l : list A) : list A * list A :=
  match l with
  | [] => ([], [])
  | x :: t => if p x then let '(a, b) := span p t in (x :: a, b) else ([], l)
  end.

(* rfind(is_true) on what is left: the trailing elements that do not satisfy it are passed over;
   returns (what is left before them, reversed, i.e. last element first; the passed-over tail) *)
Definition rspan {A} (p : A -> bool) (l : list A) : list A * list A :=
  let '(fs_rev, rest_rev) := span (fun x => negb (p x)) (rev l) in (rest_rev, rev fs_rev).

(* one window of the slice still inside the double-ended iterator; returns the rearranged window
   and what the pass added to true_count *)
Fixpoint pgo {A} (fuel : nat) (p : A -> bool) (mid : list A) : list A * nat :=
  match fuel with
  | O => (mid, 0)
  | S fuel' =>
    let '(ts, r1) := span p mid in
    match r1 with
    | [] => (ts, length ts)                         (* find: None *)
    | h :: r2 =>
      let '(r3rev, fs) := rspan p r2 in
      match r3rev with
      | [] => (ts ++ h :: fs, length ts)            (* rfind: None — break *)
      | t :: r4rev =>                               (* swap(head, tail); true_count += 1 *)
        let '(m, k) := pgo fuel' p (rev r4rev) in
        (ts ++ t :: m ++ h :: fs, length ts + 1 + k)
      end
    end
  end.

Definition partition_in_place {A} (p : A -> bool) (l : list A) : list A * nat := pgo (length l) p l.

(* ---------------------------------------------------------------- operations on a whole slice, in the
   outcome format of Colls.v: `final` = first part, `yielded` = second part *)
Record presult {A} := mkPR { pr_first : list A; pr_second : list A; pr_panic : bool }.
Arguments presult : clear implicits.
Arguments mkPR {A}.

Definition whole {A} (l : list A) : part := mkPart 0 (length l).

Definition op_split_at {A} (l : list A) (mid : nat) : presult A :=
  match split_at (whole l) mid with
  | Some (a, b) => mkPR (view l a) (view l b) false
  | None => mkPR l [] true
  end.

(* (rest, the single element); both empty-handed when the slice is empty *)
Definition op_split_first {A} (l : list A) : presult A :=
  match split_first (whole l) with
  | Some (i, r) => mkPR (view l r) (view l (mkPart i 1)) false
  | None => mkPR l [] false
  end.
Definition op_split_last {A} (l : list A) : presult A :=
  match split_last (whole l) with
  | Some (i, r) => mkPR (view l r) (view l (mkPart i 1)) false
  | None => mkPR l [] false
  end.

Definition op_partition {A} (p : A -> bool) (l : list A) : presult A :=
  let '(l', k) := partition_in_place p l in
  match split_at (whole l') k with
  | Some (a, b) => mkPR (view l' a) (view l' b) false
  | None => mkPR l' [] true
  end.

(* cut the buffer at i <= j into three windows, then merge window x with window y (0, 1, 2) *)
Definition three {A} (l : list A) (i j : nat) (x : nat) : part :=
  match x with
  | 0 => mkPart 0 i
  | 1 => mkPart i (j - i)
  | _ => mkPart j (length l - j)
  end.
Definition op_merge {A} (l : list A) (i j x y : nat) : presult A :=
  match merge (three l i j x) (three l i j y) with
  | Some m => mkPR (view l m) [] false
  | None => mkPR [] [] true
  end.
