(* ChunkSpec.v — chunk geometry and the chunk-size policy on unbounded Z, with the theorems
   C12 needs: sizes are aligned, cover header + capacity, grow, and a fresh chunk always fits
   the request that caused it.  Independent of generated code. *)
From Coq Require Import ZArith Lia Bool.
From BS Require Import Word BumpSpec.
Open Scope Z_scope.

(* layout of ChunkHeader<A>: #[repr(C, align(16))], four pointers + the allocator value *)
Definition hdr_ok (hs ha : Z) : Prop :=
  pow2 ha /\ 16 <= ha /\ ha <= 2 ^ 32 /\ (ha | hs) /\ 32 <= hs /\ hs <= 2 ^ 40.

(* AssumedMallocOverhead = [usize; 2] *)
Definition OVH : Z := 16.
Definition PAGE : Z := 4096.

Definition size_align (up : bool) (ha : Z) : Z := if up then 16 else Z.max 16 ha.

(* align_size: what the arena uses of a granted block *)
Definition spec_align_size (up : bool) (ha size : Z) : Z := down_alignZ size (size_align up ha).

Definition spec_hint_bytes (up : bool) (hs ha bytes : Z) : Z :=
  if up then OVH + (ha - OVH) + hs + bytes + 16
  else up_alignZ (OVH + bytes) ha + hs + 16.

Definition spec_hint (up : bool) (hs ha size align : Z) : Z :=
  spec_hint_bytes up hs ha (size + Z.max (align - ha) 0).

Definition next_pow2Z (x : Z) : Z := if x <=? 1 then 1 else 2 ^ Z.log2_up x.

Definition spec_size0 (hs ha hint : Z) : Z :=
  let mn := ha + hs in
  let step := Z.max PAGE ha in
  let h := Z.max hint mn in
  if h <? step then next_pow2Z h else up_alignZ h step.

Definition spec_size_from_hint (up : bool) (hs ha hint : Z) : Z :=
  let s0 := spec_size0 hs ha hint in
  if up || (ha <=? 16) then spec_align_size up ha (s0 - OVH) else s0.

(* ---------------- facts about the policy ---------------- *)
Lemma next_pow2_ge x : x <= next_pow2Z x.
Proof.
  unfold next_pow2Z. destruct (Z.leb_spec x 1); [lia|].
  pose proof (Z.log2_up_spec x ltac:(lia)). lia.
Qed.

Lemma next_pow2_pow2 x : pow2 (next_pow2Z x).
Proof.
  unfold next_pow2Z. destruct (Z.leb_spec x 1); [apply pow2_1|].
  exists (Z.log2_up x). split; [apply Z.log2_up_nonneg|reflexivity].
Qed.

Lemma next_pow2_lt x : 1 < x -> next_pow2Z x < 2 * x.
Proof.
  intros Hx. unfold next_pow2Z. destruct (Z.leb_spec x 1); [lia|].
  pose proof (Z.log2_up_spec x ltac:(lia)) as [Hlo _].
  assert (0 < Z.log2_up x) by (apply Z.log2_up_pos; lia).
  replace (Z.log2_up x) with (Z.succ (Z.pred (Z.log2_up x))) by lia.
  rewrite Z.pow_succ_r by lia. lia.
Qed.

Lemma size_align_pow2 up ha : pow2 ha -> pow2 (size_align up ha).
Proof. intros H. unfold size_align. destruct up; [apply pow2_16|apply pow2_max; [apply pow2_16|assumption]]. Qed.

Lemma size_align_16 up ha : pow2 ha -> (16 | size_align up ha).
Proof.
  intros H. unfold size_align. destruct up; [apply Z.divide_refl|].
  apply pow2_divide; [apply pow2_16|apply pow2_max; [apply pow2_16|assumption]|lia].
Qed.

Section Policy.
  Variables (up : bool) (hs ha : Z).
  Hypothesis Hh : hdr_ok hs ha.

  Let Hha2 : pow2 ha. Proof. destruct Hh; tauto. Qed.
  Let Hha16 : 16 <= ha. Proof. destruct Hh; tauto. Qed.
  Let Hhap : 0 < ha. Proof. lia. Qed.

  Lemma step_facts : let step := Z.max PAGE ha in pow2 step /\ (16 | step) /\ (ha | step) /\ PAGE <= step.
  Proof.
    cbv zeta. assert (Hp : pow2 PAGE) by (exists 12; split; [lia|reflexivity]).
    pose proof (pow2_max _ _ Hp Hha2) as Hs.
    repeat split; [assumption| | |lia].
    - apply pow2_divide; [apply pow2_16|assumption|unfold PAGE; lia].
    - apply pow2_divide; [assumption|assumption|lia].
  Qed.

  (* size0: >= max(hint, ha + hs), a multiple of 16 and of ha *)
  Lemma size0_facts hint :
    let s0 := spec_size0 hs ha hint in
    Z.max hint (ha + hs) <= s0 /\ (16 | s0) /\ (ha | s0).
  Proof.
    cbv zeta. unfold spec_size0. destruct Hh as (_ & _ & _ & Hdiv & Hhs32 & _).
    destruct step_facts as (Hs2 & Hs16 & Hsha & Hpg). pose proof (pow2_pos _ Hs2) as Hsp.
    set (h := Z.max hint (ha + hs)). assert (48 <= h) by (unfold h; lia).
    destruct (Z.ltb_spec h (Z.max PAGE ha)).
    - pose proof (next_pow2_ge h). pose proof (next_pow2_pow2 h) as Hp2.
      split; [assumption|]. split.
      + apply pow2_divide; [apply pow2_16|assumption|lia].
      + apply pow2_divide; [assumption|assumption|unfold h in *; lia].
    - split; [apply up_align_ge; assumption|]. split.
      + apply up_align_div_finer; assumption.
      + apply up_align_div_finer; assumption.
  Qed.

  Theorem size_from_hint_facts hint :
    let n := spec_size_from_hint up hs ha hint in
    (16 | n) /\ (up = false -> (ha | n)) /\
    Z.max hint (ha + hs) - 16 <= n /\ hs <= n /\
    (up = false -> 16 < ha -> Z.max hint (ha + hs) <= n).
  Proof.
    cbv zeta. unfold spec_size_from_hint. pose proof (size0_facts hint) as (Hge & H16 & Hha).
    destruct Hh as (_ & _ & _ & Hdiv & Hhs32 & _).
    set (s0 := spec_size0 hs ha hint) in *.
    destruct up eqn:Eup; cbn [orb].
    - unfold spec_align_size, size_align, OVH.
      rewrite down_align_id by (first [lia | (apply Z.divide_sub_r; [assumption|apply Z.divide_refl])]).
      repeat split; try lia; try discriminate.
      apply Z.divide_sub_r; [assumption|apply Z.divide_refl].
    - destruct (Z.leb_spec ha 16).
      + assert (ha = 16) by lia. subst ha. unfold spec_align_size, size_align, OVH.
        replace (Z.max 16 16) with 16 by lia.
        rewrite down_align_id by (first [lia | (apply Z.divide_sub_r; [assumption|apply Z.divide_refl])]).
        repeat split; try lia.
        * apply Z.divide_sub_r; [assumption|apply Z.divide_refl].
        * intros _. apply Z.divide_sub_r; [assumption|apply Z.divide_refl].
      + repeat split; try assumption; try lia. intros _; assumption.
  Qed.

  (* growth: a chunk created with hint >= 2 * prev is at least 2 * prev - 16 *)
  Corollary next_ge_double_less_16 prev hint :
    2 * prev <= hint -> 2 * prev - 16 <= spec_size_from_hint up hs ha hint.
  Proof. intros H. pose proof (size_from_hint_facts hint) as (_ & _ & Hge & _). lia. Qed.

  (* align_size keeps a size between what was requested and what was granted *)
  Theorem align_size_between n g :
    (16 | n) -> (up = false -> (ha | n)) -> n <= g ->
    let u := spec_align_size up ha g in
    n <= u /\ u <= g /\ (16 | u) /\ (up = false -> (ha | u)).
  Proof.
    intros H16 Hhan Hle. cbv zeta. unfold spec_align_size.
    pose proof (size_align_pow2 up ha Hha2) as Hp. pose proof (pow2_pos _ Hp) as Hpp.
    split.
    - apply down_align_max; [assumption| |assumption].
      unfold size_align. destruct up; [assumption|].
      destruct (Z.max_spec 16 ha) as [[_ ->]|[_ ->]]; [apply Hhan; reflexivity|assumption].
    - split; [apply down_align_le; assumption|]. split.
      + apply down_align_div_finer; [assumption|apply size_align_16; assumption].
      + intros ->. apply down_align_div_finer; [assumption|]. unfold size_align.
        apply pow2_divide; [assumption|apply pow2_max; [apply pow2_16|assumption]|lia].
  Qed.

  (* ---------------- a fresh chunk fits the request that caused it ---------------- *)
  Variables (size align m : Z).
  Hypothesis Hl : valid_layout size align.
  Hypothesis Hm : valid_min_align m.

  Theorem fresh_chunk_fits hint g b :
    spec_hint up hs ha size align <= hint ->
    spec_size_from_hint up hs ha hint <= g ->
    (ha | b) ->
    let u := spec_align_size up ha g in
    (up = true -> spec_up (b + hs) (b + u) m size align <> None) /\
    (up = false -> spec_down b (b + u - hs) m size align <> None).
  Proof.
    intros Hhint Hg Hb. cbv zeta.
    destruct Hl as (Ha2 & Hs0 & _). destruct Hm as (Hm2 & Hm16).
    pose proof (pow2_pos _ Ha2) as Hap. pose proof (pow2_pos _ Hm2) as Hmp.
    pose proof (size_from_hint_facts hint) as (Hn16 & Hnha & Hnge & Hnhs & Hnbig).
    set (n := spec_size_from_hint up hs ha hint) in *.
    pose proof (align_size_between n g Hn16 Hnha Hg) as (Hun & Hug & Hu16 & Huha).
    set (u := spec_align_size up ha g) in *.
    destruct Hh as (_ & _ & _ & Hdiv & Hhs32 & _).
    unfold spec_hint, spec_hint_bytes, OVH in Hhint.
    split; intros Hup; rewrite Hup in *.
    - (* upwards: content range [b + hs, b + u) *)
      unfold spec_up. set (q := up_alignZ (b + hs) align).
      assert (Hq : q <= b + hs + Z.max (align - ha) 0).
      { unfold q. destruct (Z_le_gt_dec align ha).
        - rewrite up_align_id; [lia|assumption|].
          apply Z.divide_add_r; eapply Z.divide_trans; try eassumption;
            apply pow2_divide; assumption.
        - (* align > ha: b + hs is ha-aligned, so padding <= align - ha *)
          assert (Hd : (ha | b + hs)) by (apply Z.divide_add_r; assumption).
          assert (Hda : (ha | align)) by (apply pow2_divide; [assumption|assumption|lia]).
          pose proof (up_align_div (b + hs) align Hap) as Hqa.
          pose proof (up_align_lt (b + hs) align Hap) as Hql.
          assert (Hqd : (ha | up_alignZ (b + hs) align)) by (eapply Z.divide_trans; eassumption).
          destruct Hd as [k Hk]. destruct Hqd as [j Hj]. rewrite Hk, Hj in *.
          destruct Hda as [c Hc]. rewrite Hc in *.
          assert (j < k + c) by nia. assert (j * ha <= (k + c - 1) * ha) by (apply Z.mul_le_mono_nonneg_r; lia).
          lia. }
      destruct (Z.leb_spec (b + hs) (b + u)); [|lia]. cbn [andb].
      destruct (Z.leb_spec (q + size) (b + u)); [discriminate|lia].
    - (* downwards: content range [b, b + u - hs) *)
      unfold spec_down. set (A := Z.max align m).
      assert (HA2 : pow2 A) by (apply pow2_max; assumption). pose proof (pow2_pos _ HA2) as HAp.
      set (x := b + u - hs - size).
      assert (Hup1 : up_alignZ (16 + (size + Z.max (align - ha) 0)) ha >= 16 + size + Z.max (align - ha) 0).
      { pose proof (up_align_ge (16 + (size + Z.max (align - ha) 0)) ha Hhap). lia. }
      destruct (Z.leb_spec b (b + u - hs)); [|lia]. cbn [andb].
      replace (b + u - hs - size) with x by reflexivity.
      destruct (Z.leb_spec b (down_alignZ x A)) as [|Hbad]; [discriminate|exfalso].
      destruct (Z_le_gt_dec A ha) as [HAle|HAgt].
      + (* A | b: aligning down cannot pass b *)
        assert (b <= down_alignZ x A); [|lia].
        apply down_align_max; [assumption| |unfold x; lia].
        eapply Z.divide_trans; [|exact Hb]. apply pow2_divide; assumption.
      + (* A > ha >= 16 >= m, so A = align > ha *)
        assert (A = align) by (unfold A in *; lia).
        pose proof (down_align_gt x A HAp).
        destruct (Z_le_gt_dec ha 16).
        * (* ha = 16: n >= hint - 16 *)
          assert (x >= b + align) by (unfold x; lia). lia.
        * (* ha > 16: no overhead subtraction, and n = 0, hint = 16 (mod ha) gives ha - 16 slack *)
          specialize (Hnbig eq_refl ltac:(lia)). specialize (Hnha eq_refl).
          set (r := up_alignZ (16 + (size + Z.max (align - ha) 0)) ha) in *.
          assert (Hr : (ha | r)) by (apply up_align_div; assumption).
          assert (Hn' : r + hs + ha <= n).
          { assert (Hd : (ha | r + hs)) by (apply Z.divide_add_r; assumption).
            destruct Hd as [k Hk]. destruct Hnha as [j Hj].
            assert (r + hs + 16 <= n) by lia. rewrite Hk, Hj in *.
            assert (k < j) by nia.
            assert ((k + 1) * ha <= j * ha) by (apply Z.mul_le_mono_nonneg_r; lia). lia. }
          assert (x >= b + align + 16) by (unfold x; lia). lia.
  Qed.
End Policy.

(* non-vacuity / sanity: the zero-sized-allocator header, a 100-byte align-64 request *)
Example policy_example :
  spec_hint true 32 16 100 64 = 212 /\ spec_size_from_hint true 32 16 212 = 240 /\
  spec_hint false 64 32 100 64 = 240 /\ spec_size_from_hint false 64 32 240 = 256.
Proof. repeat split; reflexivity. Qed.
