(* PartsProofs.v — dividing and merging owned slices partitions them exactly (C16). *)
From Coq Require Import List Arith Bool Lia Permutation.
From BS Require Import Parts.
Import ListNotations.

Definition in_buf {A} (buf : list A) (p : part) : Prop := poff p + plen p <= length buf.
(* two windows share no slot *)
Definition pdisjoint (a b : part) : Prop := poff a + plen a <= poff b \/ poff b + plen b <= poff a.

Lemma view_length {A} (buf : list A) p : in_buf buf p -> length (view buf p) = plen p.
Proof. unfold view, in_buf. intros H. rewrite firstn_length, skipn_length. lia. Qed.

Lemma view_whole {A} (l : list A) : view l (whole l) = l.
Proof. unfold view, whole. cbn. apply firstn_all. Qed.

Lemma skipn_skipn {A} (l : list A) a b : skipn a (skipn b l) = skipn (b + a) l.
Proof.
  revert l. induction b as [|b IH]; intros l; [reflexivity|].
  destruct l as [|x t]; [rewrite !skipn_nil; reflexivity|]. cbn [skipn plus]. apply IH.
Qed.

Lemma firstn_add {A} (l : list A) a b : firstn (a + b) l = firstn a l ++ firstn b (skipn a l).
Proof.
  revert l. induction a as [|a IH]; intros l; [reflexivity|].
  destruct l as [|x t]; [cbn; rewrite firstn_nil; reflexivity|]. cbn [plus firstn skipn app]. f_equal. apply IH.
Qed.

(* ---------------------------------------------------------------- split_at *)
Theorem split_at_panics_iff p mid : split_at p mid = None <-> plen p < mid.
Proof. unfold split_at. destruct (Nat.ltb_spec (plen p) mid); split; intros; try lia; congruence. Qed.

Theorem split_at_spec {A} (buf : list A) p mid a b :
  split_at p mid = Some (a, b) ->
  view buf a = firstn mid (view buf p) /\ view buf b = skipn mid (view buf p) /\
  view buf a ++ view buf b = view buf p /\
  plen a + plen b = plen p /\ poff a = poff p /\ poff b = poff a + plen a /\
  pdisjoint a b /\ (in_buf buf p -> in_buf buf a /\ in_buf buf b).
Proof.
  unfold split_at. destruct (Nat.ltb_spec (plen p) mid) as [|Hle]; [discriminate|]. intros H. injection H as <- <-.
  unfold view, in_buf, pdisjoint. cbn [poff plen].
  assert (E1 : firstn mid (firstn (plen p) (skipn (poff p) buf)) = firstn mid (skipn (poff p) buf)).
  { rewrite firstn_firstn. f_equal. lia. }
  assert (E2 : skipn mid (firstn (plen p) (skipn (poff p) buf)) = firstn (plen p - mid) (skipn (poff p + mid) buf)).
  { rewrite skipn_firstn_comm, skipn_skipn. reflexivity. }
  split; [symmetry; exact E1|]. split; [symmetry; exact E2|]. split.
  - rewrite <- E1, <- E2. apply firstn_skipn.
  - repeat split; lia.
Qed.

(* ---------------------------------------------------------------- split_first / split_last *)
Theorem split_first_none_iff p : split_first p = None <-> plen p = 0.
Proof. unfold split_first. destruct (Nat.eqb_spec (plen p) 0); split; intros; try lia; congruence. Qed.
Theorem split_last_none_iff p : split_last p = None <-> plen p = 0.
Proof. unfold split_last. destruct (Nat.eqb_spec (plen p) 0); split; intros; try lia; congruence. Qed.

Theorem split_first_spec {A} (buf : list A) p i r :
  split_first p = Some (i, r) ->
  view buf (mkPart i 1) ++ view buf r = view buf p /\ plen r + 1 = plen p /\
  pdisjoint (mkPart i 1) r /\ (in_buf buf p -> in_buf buf (mkPart i 1) /\ in_buf buf r).
Proof.
  unfold split_first. destruct (Nat.eqb_spec (plen p) 0) as [|Hne]; [discriminate|]. intros H. injection H as <- <-.
  destruct (split_at_spec buf p 1 (mkPart (poff p) 1) (mkPart (poff p + 1) (plen p - 1))) as (_ & _ & E & L & _ & _ & D & I).
  { unfold split_at. destruct (Nat.ltb_spec (plen p) 1); [lia|reflexivity]. }
  split; [exact E|]. split; [cbn [plen] in *; lia|]. split; [exact D|exact I].
Qed.

Theorem split_last_spec {A} (buf : list A) p i r :
  split_last p = Some (i, r) ->
  view buf r ++ view buf (mkPart i 1) = view buf p /\ plen r + 1 = plen p /\
  pdisjoint r (mkPart i 1) /\ (in_buf buf p -> in_buf buf (mkPart i 1) /\ in_buf buf r).
Proof.
  unfold split_last. destruct (Nat.eqb_spec (plen p) 0) as [|Hne]; [discriminate|]. intros H. injection H as <- <-.
  destruct (split_at_spec buf p (plen p - 1) (mkPart (poff p) (plen p - 1)) (mkPart (poff p + (plen p - 1)) (plen p - (plen p - 1))))
    as (_ & _ & E & L & _ & _ & D & I).
  { unfold split_at. destruct (Nat.ltb_spec (plen p) (plen p - 1)); [lia|reflexivity]. }
  replace (plen p - (plen p - 1)) with 1 in * by lia.
  split; [exact E|]. split; [cbn [plen]; lia|]. split; [exact D|]. intros Hin. destruct (I Hin). split; assumption.
Qed.

(* ---------------------------------------------------------------- merge *)
Theorem merge_accepts_iff a b : (exists m, merge a b = Some m) <-> poff a + plen a = poff b.
Proof.
  unfold merge. destruct (Nat.eqb_spec (poff a + plen a) (poff b)); split; intros H; try lia.
  - eexists; reflexivity.
  - destruct H; discriminate.
Qed.

Theorem merge_spec {A} (buf : list A) a b m :
  in_buf buf a -> merge a b = Some m ->
  view buf m = view buf a ++ view buf b /\ plen m = plen a + plen b /\ poff m = poff a.
Proof.
  unfold merge, in_buf. intros Ha. destruct (Nat.eqb_spec (poff a + plen a) (poff b)) as [E|]; [|discriminate].
  intros H. injection H as <-. unfold view. cbn [poff plen]. split; [|split; reflexivity].
  rewrite firstn_add, skipn_skipn, E. reflexivity.
Qed.

(* merging the halves of a split gives the slice back, in this order only *)
Theorem merge_split_at p mid a b : split_at p mid = Some (a, b) -> merge a b = Some p.
Proof.
  unfold split_at. destruct (Nat.ltb_spec (plen p) mid) as [|Hle]; [discriminate|]. intros E. injection E as <- <-.
  unfold merge. cbn [poff plen]. rewrite Nat.eqb_refl. destruct p as [o l]. cbn [poff plen] in *. f_equal. f_equal. lia.
Qed.
Theorem merge_split_at_swapped p mid a b :
  split_at p mid = Some (a, b) -> 0 < plen p -> merge b a = None.
Proof.
  unfold split_at. destruct (Nat.ltb_spec (plen p) mid) as [|Hle]; [discriminate|]. intros E Hp. injection E as <- <-.
  unfold merge. cbn [poff plen]. destruct (Nat.eqb_spec (poff p + mid + (plen p - mid)) (poff p)); [lia|reflexivity].
Qed.

(* ---------------------------------------------------------------- partition_in_place *)
Lemma span_spec {A} (p : A -> bool) l : forall a b, span p l = (a, b) ->
  l = a ++ b /\ Forall (fun x => p x = true) a /\ match b with [] => True | h :: _ => p h = false end.
Proof.
  induction l as [|x t IH]; intros a b H; cbn [span] in H.
  - injection H as <- <-. repeat split; constructor.
  - destruct (p x) eqn:Ex.
    + destruct (span p t) as [a' b'] eqn:Es. injection H as <- <-. destruct (IH a' b' eq_refl) as (E & F & G).
      split; [cbn; f_equal; exact E|]. split; [constructor; assumption|exact G].
    + injection H as <- <-. split; [reflexivity|]. split; [constructor|exact Ex].
Qed.

Lemma rspan_spec {A} (p : A -> bool) l : forall r3rev fs, rspan p l = (r3rev, fs) ->
  l = rev r3rev ++ fs /\ Forall (fun x => p x = false) fs /\ match r3rev with [] => True | t :: _ => p t = true end.
Proof.
  intros r3rev fs H. unfold rspan in H. destruct (span (fun x => negb (p x)) (rev l)) as [a b] eqn:Es. injection H as <- <-.
  destruct (span_spec _ _ _ _ Es) as (E & F & G).
  split; [rewrite <- (rev_involutive l), E, rev_app_distr; reflexivity|]. split.
  - apply Forall_rev. eapply Forall_impl; [|exact F]. cbn. intros x Hx. destruct (p x); [discriminate|reflexivity].
  - destruct b as [|t b']; [exact I|]. cbn in G. destruct (p t); [reflexivity|discriminate].
Qed.

(* the rearranged window: the elements that satisfy p first, then the others; the count is the
   number of the former; nothing is lost or duplicated *)
Definition sorted_by {A} (p : A -> bool) (l : list A) (k : nat) : Prop :=
  Forall (fun x => p x = true) (firstn k l) /\ Forall (fun x => p x = false) (skipn k l) /\ k <= length l.

Lemma sorted_by_build {A} (p : A -> bool) (ts fs : list A) :
  Forall (fun x => p x = true) ts -> Forall (fun x => p x = false) fs -> sorted_by p (ts ++ fs) (length ts).
Proof.
  intros Ht Hf. unfold sorted_by. rewrite firstn_app, Nat.sub_diag, firstn_all. cbn [firstn]. rewrite app_nil_r.
  rewrite skipn_app, Nat.sub_diag, skipn_all. cbn [skipn app]. rewrite app_length. repeat split; try assumption; lia.
Qed.

Lemma sorted_by_inv {A} (p : A -> bool) (l : list A) k : sorted_by p l k ->
  exists ts fs, l = ts ++ fs /\ length ts = k /\ Forall (fun x => p x = true) ts /\ Forall (fun x => p x = false) fs.
Proof.
  intros (H1 & H2 & H3). exists (firstn k l), (skipn k l). split; [symmetry; apply firstn_skipn|].
  split; [rewrite firstn_length; lia|]. split; assumption.
Qed.

Theorem pgo_spec {A} (p : A -> bool) : forall fuel mid, length mid <= fuel ->
  let '(m, k) := pgo fuel p mid in Permutation mid m /\ sorted_by p m k.
Proof.
  induction fuel as [|fuel IH]; intros mid Hlen.
  - destruct mid; [|cbn in Hlen; lia]. cbn. split; [constructor|]. unfold sorted_by. cbn. repeat split; constructor.
  - cbn [pgo]. destruct (span p mid) as [ts r1] eqn:Es. destruct (span_spec p mid ts r1 Es) as (E & Ft & Gh).
    destruct r1 as [|h r2].
    + rewrite app_nil_r in E. subst mid. split; [apply Permutation_refl|].
      rewrite <- (app_nil_r ts) at 1. apply sorted_by_build; [exact Ft|constructor].
    + destruct (rspan p r2) as [r3rev fs] eqn:Er. destruct (rspan_spec p r2 r3rev fs Er) as (E2 & Ff & Gt).
      destruct r3rev as [|t r4rev].
      * cbn [rev app] in E2. subst r2 mid. split; [apply Permutation_refl|].
        apply sorted_by_build; [exact Ft|constructor; assumption].
      * cbn [rev] in E2.
        assert (Hl : length (rev r4rev) <= fuel).
        { subst mid r2. rewrite !app_length in Hlen. cbn [length] in Hlen. rewrite !app_length in Hlen. cbn [length] in Hlen. lia. }
        specialize (IH (rev r4rev) Hl). destruct (pgo fuel p (rev r4rev)) as [m k]. destruct IH as (Pm & Sm).
        destruct (sorted_by_inv p m k Sm) as (mt & mf & Em & Lk & Fmt & Fmf).
        split.
        -- subst mid r2. apply Permutation_app_head.
           (* h :: (rev r4rev ++ [t]) ++ fs  ~  t :: m ++ h :: fs *)
           rewrite <- app_assoc. cbn [app].
           apply Permutation_trans with (t :: (rev r4rev) ++ h :: fs).
           ++ apply Permutation_trans with (h :: t :: rev r4rev ++ fs).
              ** constructor. apply Permutation_trans with ((t :: fs) ++ rev r4rev).
                 --- apply Permutation_trans with (rev r4rev ++ (t :: fs)); [apply Permutation_refl|apply Permutation_app_comm].
                 --- cbn [app]. constructor. apply Permutation_app_comm.
              ** apply Permutation_trans with (t :: h :: rev r4rev ++ fs); [apply perm_swap|].
                 constructor. apply Permutation_middle.
           ++ constructor. apply Permutation_app_tail. exact Pm.
        -- subst m. replace (ts ++ t :: (mt ++ mf) ++ h :: fs) with ((ts ++ t :: mt) ++ (mf ++ h :: fs)).
           2:{ rewrite <- !app_assoc. cbn [app]. rewrite <- ?app_assoc. reflexivity. }
           replace (length ts + 1 + k) with (length (ts ++ t :: mt)) by (rewrite app_length; cbn [length]; lia).
           apply sorted_by_build.
           ++ apply Forall_app. split; [exact Ft|constructor; assumption].
           ++ apply Forall_app. split; [exact Fmf|constructor; assumption].
Qed.

Lemma filter_length_perm {A} (p : A -> bool) (l q : list A) :
  Permutation l q -> length (filter p l) = length (filter p q).
Proof.
  intros Hq. induction Hq as [|x a b _ IH|x y a|a b d _ IH1 _ IH2]; cbn [filter]; try reflexivity.
  - destruct (p x); cbn [length]; rewrite ?IH; reflexivity.
  - destruct (p x), (p y); reflexivity.
  - rewrite IH1. exact IH2.
Qed.

Theorem partition_in_place_spec {A} (p : A -> bool) (l : list A) :
  let '(m, k) := partition_in_place p l in
  Permutation l m /\ sorted_by p m k /\ k = length (filter p l).
Proof.
  unfold partition_in_place. pose proof (pgo_spec p (length l) l (le_n _)) as H.
  destruct (pgo (length l) p l) as [m k]. destruct H as (P & S). split; [exact P|]. split; [exact S|].
  destruct (sorted_by_inv p m k S) as (ts & fs & E & L & Ft & Ff).
  rewrite (filter_length_perm p l m P), E, filter_app, app_length.
  assert (F1 : filter p ts = ts).
  { clear - Ft. induction Ft as [|x t Hx _ IH]; [reflexivity|]. cbn. rewrite Hx, IH. reflexivity. }
  assert (F2 : filter p fs = []).
  { clear - Ff. induction Ff as [|x t Hx _ IH]; [reflexivity|]. cbn. rewrite Hx. exact IH. }
  rewrite F1, F2. cbn. lia.
Qed.

(* partition = partition_in_place + split_at: never panics, the two parts are exactly the
   elements that satisfy the predicate and those that do not, nothing lost or duplicated *)
Theorem op_partition_spec {A} (p : A -> bool) (l : list A) :
  let r := op_partition p l in
  pr_panic r = false /\ Permutation l (pr_first r ++ pr_second r) /\
  Forall (fun x => p x = true) (pr_first r) /\ Forall (fun x => p x = false) (pr_second r) /\
  length (pr_first r) = length (filter p l).
Proof.
  unfold op_partition. pose proof (partition_in_place_spec p l) as H.
  destruct (partition_in_place p l) as [m k]. destruct H as (P & (S1 & S2 & S3) & K).
  unfold split_at, whole. cbn [plen poff]. destruct (Nat.ltb_spec (length m) k) as [|_]; [lia|].
  unfold view. cbn [poff plen pr_panic pr_first pr_second skipn plus].
  assert (E2 : firstn (length m - k) (skipn k m) = skipn k m) by (apply firstn_all2; rewrite skipn_length; lia).
  rewrite E2. split; [reflexivity|]. split; [rewrite firstn_skipn; exact P|]. split; [exact S1|]. split; [exact S2|].
  rewrite firstn_length. lia.
Qed.

Theorem op_split_at_spec {A} (l : list A) mid :
  let r := op_split_at l mid in
  (pr_panic r = true <-> length l < mid) /\
  (pr_panic r = false -> pr_first r = firstn mid l /\ pr_second r = skipn mid l).
Proof.
  unfold op_split_at. destruct (split_at (whole l) mid) as [[a b]|] eqn:E.
  - destruct (split_at_spec l (whole l) mid a b E) as (E1 & E2 & _). rewrite view_whole in E1, E2.
    cbn [pr_panic pr_first pr_second]. split; [|intros _; split; assumption].
    split; [discriminate|]. intros H. exfalso. assert (N : split_at (whole l) mid = None) by (apply split_at_panics_iff; exact H). congruence.
  - cbn [pr_panic]. split; [|discriminate]. split; [|reflexivity]. intros _. apply (split_at_panics_iff (whole l) mid). exact E.
Qed.

Theorem op_split_first_spec {A} (l : list A) :
  match l with
  | [] => op_split_first l = mkPR [] [] false
  | x :: t => op_split_first l = mkPR t [x] false
  end.
Proof.
  destruct l as [|x t]; [reflexivity|]. unfold op_split_first, split_first, whole, view. cbn [plen poff length Nat.eqb].
  cbn. rewrite Nat.sub_0_r, firstn_all. reflexivity.
Qed.

Theorem op_split_last_spec {A} (l : list A) x :
  op_split_last (l ++ [x]) = mkPR l [x] false /\ op_split_last (@nil A) = mkPR [] [] false.
Proof.
  split; [|reflexivity]. unfold op_split_last, split_last, whole, view. cbn [plen poff].
  rewrite app_length. cbn [length]. destruct (Nat.eqb_spec (length l + 1) 0); [lia|].
  cbn [poff plen skipn plus]. replace (length l + 1 - 1) with (length l) by lia.
  rewrite firstn_app, Nat.sub_diag, firstn_all. cbn [firstn]. rewrite app_nil_r.
  rewrite skipn_app, Nat.sub_diag, skipn_all. cbn. reflexivity.
Qed.

(* three adjacent windows: only a window and its right neighbour can be merged *)
Theorem op_merge_spec {A} (l : list A) i j x y :
  i <= j -> j <= length l -> x <= 2 -> y <= 2 ->
  0 < plen (three l i j x) -> 0 < plen (three l i j y) ->
  (pr_panic (op_merge l i j x y) = false <-> y = x + 1 \/ (x = 0 /\ y = 2 /\ i = j)).
Proof.
  intros Hij Hj Hx Hy. unfold op_merge, merge.
  destruct x as [|[|[|x]]], y as [|[|[|y]]]; try lia; cbn [three poff plen]; intros P1 P2;
    match goal with |- context [?a =? ?b] => destruct (Nat.eqb_spec a b) end; cbn [pr_panic]; split; intros H; try lia; try discriminate; try reflexivity.
Qed.
