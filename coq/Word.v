(* Word.v — 64-bit machine arithmetic on Z, the control monad used by generated code,
   alignment functions and their algebra.  Standard library only. *)
From Coq Require Import ZArith Lia Bool List.
Open Scope Z_scope.

Definition W : Z := 2 ^ 64.
Definition IMAX : Z := 2 ^ 63 - 1.          (* isize::MAX *)

(* ------------------------------------------------------------------ *)
(* Control monad of generated code: normal value, early return, trap.  *)
(* Trap = arithmetic overflow / underflow / division by zero, i.e. a   *)
(* panic in a debug build and silent wrap-around in a release build.   *)
Inductive ctl (R A : Type) : Type :=
| Norm (a : A)
| Ret (r : R)
| Trap.
Arguments Norm {R A} a.
Arguments Ret {R A} r.
Arguments Trap {R A}.

Definition bindc {R A B} (m : ctl R A) (f : A -> ctl R B) : ctl R B :=
  match m with
  | Norm a => f a
  | Ret r => Ret r
  | Trap => Trap
  end.

Inductive res (A : Type) : Type := Ok (a : A) | Ovf.
Arguments Ok {A} a.
Arguments Ovf {A}.

Definition run {R} (m : ctl R R) : res R :=
  match m with Norm r => Ok r | Ret r => Ok r | Trap => Ovf end.

(* calling another generated function from inside a body *)
Definition call {R A} (r : res A) : ctl R A :=
  match r with Ok a => Norm a | Ovf => Trap end.

(* `e?` / attempt!(e) in a function returning Option *)
Definition try_opt {R A} (o : option A) : ctl (option R) A :=
  match o with Some a => Norm a | None => Ret None end.

Declare Scope ctl_scope.
Delimit Scope ctl_scope with ctl.
Notation "x <- e ;; k" := (bindc e (fun x => k))
  (at level 61, e at next level, right associativity) : ctl_scope.
Notation "' p <- e ;; k" := (bindc e (fun p => k))
  (at level 61, p pattern, e at next level, right associativity) : ctl_scope.

(* ------------------------------------------------------------------ *)
(* usize operations *)
Definition in_u64 (x : Z) : bool := (0 <=? x) && (x <? W).

Definition add {R} (x y : Z) : ctl R Z := if x + y <? W then Norm (x + y) else Trap.
Definition sub {R} (x y : Z) : ctl R Z := if 0 <=? x - y then Norm (x - y) else Trap.
Definition mul {R} (x y : Z) : ctl R Z := if x * y <? W then Norm (x * y) else Trap.
Definition rem {R} (x y : Z) : ctl R Z := if y =? 0 then Trap else Norm (x mod y).
Definition divu {R} (x y : Z) : ctl R Z := if y =? 0 then Trap else Norm (x / y).

Definition sat_add (x y : Z) : Z := Z.min (x + y) (W - 1).
Definition sat_sub (x y : Z) : Z := Z.max (x - y) 0.
Definition wrapping_sub (x y : Z) : Z := (x - y) mod W.
Definition wrapping_add (x y : Z) : Z := (x + y) mod W.
Definition as_isize (x : Z) : Z := if x <? 2 ^ 63 then x else x - W.
Definition checked_add (x y : Z) : option Z := if x + y <? W then Some (x + y) else None.
Definition checked_sub (x y : Z) : option Z := if 0 <=? x - y then Some (x - y) else None.
Definition checked_mul (x y : Z) : option Z := if x * y <? W then Some (x * y) else None.
Definition not64 (x : Z) : Z := W - 1 - x.
Definition and64 (x y : Z) : Z := Z.land x y.
Definition is_pow2 (x : Z) : bool := (0 <? x) && (Z.land x (x - 1) =? 0).
Definition checked_next_pow2 (x : Z) : option Z :=
  let p := if x <=? 1 then 1 else 2 ^ Z.log2_up x in
  if p <? W then Some p else None.
Definition nonzero_new (x : Z) : option Z := if x =? 0 then None else Some x.

(* core::alloc::Layout *)
Record Layout := mkLayout { lsize : Z; lalign : Z }.

(* ------------------------------------------------------------------ *)
(* alignment on unbounded Z *)
Definition down_alignZ (x a : Z) : Z := x - x mod a.
Definition up_alignZ (x a : Z) : Z := down_alignZ (x + a - 1) a.

Definition pow2 (a : Z) : Prop := exists k, 0 <= k /\ a = 2 ^ k.
Definition pow2b (a : Z) : bool := (0 <? a) && (a =? 2 ^ Z.log2 a).

Lemma pow2b_spec a : pow2b a = true <-> pow2 a.
Proof.
  unfold pow2b, pow2. rewrite andb_true_iff, Z.ltb_lt, Z.eqb_eq. split.
  - intros [Hp He]. exists (Z.log2 a). split; [apply Z.log2_nonneg | exact He].
  - intros [k [Hk ->]]. split; [apply Z.pow_pos_nonneg; lia|].
    rewrite Z.log2_pow2 by lia. reflexivity.
Qed.

Lemma pow2_pos a : pow2 a -> 0 < a.
Proof. intros [k [Hk ->]]. apply Z.pow_pos_nonneg; lia. Qed.

Lemma pow2_divide a b : pow2 a -> pow2 b -> a <= b -> (a | b).
Proof.
  intros [j [Hj ->]] [k [Hk ->]] Hle.
  assert (j <= k) by (apply (Z.pow_le_mono_r_iff 2); lia).
  exists (2 ^ (k - j)). rewrite <- Z.pow_add_r by lia. f_equal; lia.
Qed.

Lemma pow2_le_or a b : pow2 a -> pow2 b -> (a | b) \/ (b | a).
Proof.
  intros Ha Hb. destruct (Z_le_gt_dec a b).
  - left; apply pow2_divide; assumption.
  - right; apply pow2_divide; try assumption; lia.
Qed.

Lemma pow2_max a b : pow2 a -> pow2 b -> pow2 (Z.max a b).
Proof. intros Ha Hb. destruct (Z.max_spec a b) as [[_ ->]|[_ ->]]; assumption. Qed.

Lemma pow2_16 : pow2 16. Proof. exists 4; split; [lia|reflexivity]. Qed.
Lemma pow2_1 : pow2 1. Proof. exists 0; split; [lia|reflexivity]. Qed.

Lemma mod_divide_iff x a : 0 < a -> (x mod a = 0 <-> (a | x)).
Proof. intros Ha. apply Z.mod_divide; lia. Qed.

Lemma down_align_le x a : 0 < a -> down_alignZ x a <= x.
Proof. intros Ha. unfold down_alignZ. pose proof (Z.mod_pos_bound x a Ha). lia. Qed.

Lemma down_align_gt x a : 0 < a -> x - a < down_alignZ x a.
Proof. intros Ha. unfold down_alignZ. pose proof (Z.mod_pos_bound x a Ha). lia. Qed.

Lemma down_align_div x a : 0 < a -> (a | down_alignZ x a).
Proof.
  intros Ha. unfold down_alignZ. exists (x / a).
  pose proof (Z.div_mod x a ltac:(lia)). lia.
Qed.

Lemma down_align_id x a : 0 < a -> (a | x) -> down_alignZ x a = x.
Proof.
  intros Ha Hd. unfold down_alignZ. apply Z.mod_divide in Hd; [|lia]. lia.
Qed.

Lemma down_align_max x y a : 0 < a -> (a | y) -> y <= x -> y <= down_alignZ x a.
Proof.
  intros Ha [q ->] Hle. unfold down_alignZ.
  pose proof (Z.div_mod x a ltac:(lia)) as E.
  pose proof (Z.mod_pos_bound x a Ha) as B.
  assert (q <= x / a) by (apply Z.div_le_lower_bound; lia).
  nia.
Qed.

Lemma down_align_mono x y a : 0 < a -> x <= y -> down_alignZ x a <= down_alignZ y a.
Proof.
  intros Ha Hle. apply down_align_max; [assumption|apply down_align_div; assumption|].
  pose proof (down_align_le x a Ha). lia.
Qed.

Lemma up_align_ge x a : 0 < a -> x <= up_alignZ x a.
Proof. intros Ha. unfold up_alignZ. pose proof (down_align_gt (x + a - 1) a Ha). lia. Qed.

Lemma up_align_lt x a : 0 < a -> up_alignZ x a < x + a.
Proof. intros Ha. unfold up_alignZ. pose proof (down_align_le (x + a - 1) a Ha). lia. Qed.

Lemma up_align_div x a : 0 < a -> (a | up_alignZ x a).
Proof. intros Ha. apply down_align_div; assumption. Qed.

Lemma up_align_id x a : 0 < a -> (a | x) -> up_alignZ x a = x.
Proof.
  intros Ha [q ->]. unfold up_alignZ, down_alignZ.
  replace (q * a + a - 1) with ((a - 1) + q * a) by lia.
  rewrite Z.mod_add by lia. rewrite Z.mod_small by lia. lia.
Qed.

Lemma up_align_min x y a : 0 < a -> (a | y) -> x <= y -> up_alignZ x a <= y.
Proof.
  intros Ha [q ->] Hle. unfold up_alignZ.
  pose proof (down_align_div (x + a - 1) a Ha) as [p Hp].
  pose proof (down_align_le (x + a - 1) a Ha).
  rewrite Hp in *. assert (p < q + 1) by nia. nia.
Qed.

Lemma up_align_mono x y a : 0 < a -> x <= y -> up_alignZ x a <= up_alignZ y a.
Proof.
  intros Ha Hle. apply up_align_min; [assumption|apply up_align_div; assumption|].
  pose proof (up_align_ge y a Ha). lia.
Qed.

Lemma up_align_via_down x a : 0 < a -> up_alignZ x a = down_alignZ (x - 1) a + a.
Proof.
  intros Ha. unfold up_alignZ, down_alignZ.
  replace (x + a - 1) with ((x - 1) + 1 * a) by lia.
  rewrite Z.mod_add by lia. lia.
Qed.

Lemma divide_trans_align a b x : (a | b) -> (b | x) -> (a | x).
Proof. apply Z.divide_trans. Qed.

Lemma down_align_add x a k : 0 < a -> (a | k) -> down_alignZ (x + k) a = down_alignZ x a + k.
Proof.
  intros Ha [q ->]. unfold down_alignZ. rewrite Z.mod_add by lia. lia.
Qed.

Lemma up_align_add x a k : 0 < a -> (a | k) -> up_alignZ (x + k) a = up_alignZ x a + k.
Proof.
  intros Ha Hk. unfold up_alignZ.
  replace (x + k + a - 1) with (x + a - 1 + k) by lia.
  apply down_align_add; assumption.
Qed.

(* aligned values of a coarser alignment are aligned for a finer one *)
Lemma down_align_div_finer x a b : 0 < a -> (b | a) -> (b | down_alignZ x a).
Proof. intros Ha Hb. eapply Z.divide_trans; [exact Hb | apply down_align_div; assumption]. Qed.

Lemma up_align_div_finer x a b : 0 < a -> (b | a) -> (b | up_alignZ x a).
Proof. intros Ha Hb. eapply Z.divide_trans; [exact Hb | apply up_align_div; assumption]. Qed.

(* ------------------------------------------------------------------ *)
(* the bit-level forms the source uses *)
Lemma W_pos : 0 < W. Proof. reflexivity. Qed.
Lemma W_val : W = 18446744073709551616. Proof. reflexivity. Qed.
Lemma IMAX_val : IMAX = 9223372036854775807. Proof. reflexivity. Qed.

Lemma land_not64 x m : 0 <= x < W -> 0 <= m < W -> Z.land x (not64 m) = Z.ldiff x m.
Proof.
  intros Hx Hm. unfold not64.
  replace (W - 1 - m) with (Z.land (Z.lnot m) (Z.ones 64)).
  - rewrite Z.land_assoc, (Z.land_comm x), <- Z.land_assoc.
    rewrite (Z.land_ones x 64) by lia. change (2 ^ 64) with W.
    rewrite Z.mod_small by lia. rewrite Z.land_comm. symmetry. apply Z.ldiff_land.
  - rewrite Z.land_ones by lia. change (2 ^ 64) with W.
    unfold Z.lnot. replace (Z.pred (- m)) with ((W - 1 - m) + (-1) * W) by lia.
    rewrite Z.mod_add by (pose proof W_pos; lia). apply Z.mod_small. lia.
Qed.

Lemma ldiff_pow2_mask x k : 0 <= k -> Z.ldiff x (2 ^ k - 1) = down_alignZ x (2 ^ k).
Proof.
  intros Hk. replace (2 ^ k - 1) with (Z.ones k) by (rewrite Z.ones_equiv; lia).
  rewrite Z.ldiff_ones_r by lia. rewrite Z.shiftr_div_pow2, Z.shiftl_mul_pow2 by lia.
  unfold down_alignZ. pose proof (Z.div_mod x (2 ^ k)).
  assert (0 < 2 ^ k) by (apply Z.pow_pos_nonneg; lia). lia.
Qed.

Lemma and_not_mask x a :
  pow2 a -> a <= W -> 0 <= x < W -> and64 x (not64 (a - 1)) = down_alignZ x a.
Proof.
  intros Ha HaW Hx. pose proof (pow2_pos a Ha). unfold and64.
  rewrite land_not64 by lia. destruct Ha as [k [Hk ->]]. apply ldiff_pow2_mask; assumption.
Qed.

(* is_pow2 (x & (x-1) == 0) characterises powers of two; only needed for debug asserts,
   which the translator drops, and for the executable Valid predicates. *)

(* ------------------------------------------------------------------ *)
(* rewriting lemmas for checked operations *)
Lemma add_ok {R} x y : x + y < W -> @add R x y = Norm (x + y).
Proof. intros H. unfold add. destruct (Z.ltb_spec (x + y) W); [reflexivity|lia]. Qed.
Lemma sub_ok {R} x y : y <= x -> @sub R x y = Norm (x - y).
Proof. intros H. unfold sub. destruct (Z.leb_spec 0 (x - y)); [reflexivity|lia]. Qed.
Lemma mul_ok {R} x y : x * y < W -> @mul R x y = Norm (x * y).
Proof. intros H. unfold mul. destruct (Z.ltb_spec (x * y) W); [reflexivity|lia]. Qed.
Lemma rem_ok {R} x y : y <> 0 -> @rem R x y = Norm (x mod y).
Proof. intros H. unfold rem. destruct (Z.eqb_spec y 0); [lia|reflexivity]. Qed.

Lemma sat_add_small x y : x + y < W -> sat_add x y = x + y.
Proof. unfold sat_add. lia. Qed.
Lemma sat_add_big x y : W - 1 <= x + y -> sat_add x y = W - 1.
Proof. unfold sat_add. lia. Qed.
Lemma sat_sub_ge x y : y <= x -> sat_sub x y = x - y.
Proof. unfold sat_sub. lia. Qed.
Lemma sat_sub_lt x y : x <= y -> sat_sub x y = 0.
Proof. unfold sat_sub. lia. Qed.

Lemma as_isize_wsub_ge x y : 0 <= y <= x -> x - y < 2 ^ 63 -> x < W ->
  as_isize (wrapping_sub x y) = x - y.
Proof.
  intros H1 H2 H3. unfold as_isize, wrapping_sub. rewrite Z.mod_small by lia.
  destruct (Z.ltb_spec (x - y) (2 ^ 63)); lia.
Qed.

Lemma as_isize_wsub_lt x y : 0 <= x < y -> y - x <= 2 ^ 63 -> y < W ->
  as_isize (wrapping_sub x y) = x - y.
Proof.
  intros H1 H2 H3. unfold as_isize, wrapping_sub.
  assert (E : (x - y) mod W = x - y + W).
  { symmetry. apply Z.mod_unique_pos with (q := -1); unfold W in *; lia. }
  rewrite E. destruct (Z.ltb_spec (x - y + W) (2 ^ 63)); unfold W in *; lia.
Qed.

Lemma as_isize_small x : 0 <= x < 2 ^ 63 -> as_isize x = x.
Proof. intros H. unfold as_isize. destruct (Z.ltb_spec x (2 ^ 63)); lia. Qed.
