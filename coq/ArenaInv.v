(* ArenaInv.v — the arena invariant and its preservation by every operation (C01 core;
   C02, C03, C05, C10, C13 are corollaries in their own files). *)
From Coq Require Import ZArith List Bool Lia ZifyBool.
From BS Require Import Word BumpSpec ChunkSpec Arena.
Import ListNotations.
Open Scope Z_scope.

(* ------------------------------------------------------------ list infrastructure *)
Lemma set_nth_length {A} (l : list A) i x : length (set_nth l i x) = length l.
Proof. revert i; induction l as [|h t IH]; intros [|i]; cbn; auto. Qed.

Lemma nth_error_set_nth_eq {A} (l : list A) i x :
  (i < length l)%nat -> nth_error (set_nth l i x) i = Some x.
Proof. revert i; induction l as [|h t IH]; intros [|i] H; cbn in *; try lia; auto. apply IH; lia. Qed.

Lemma nth_error_set_nth_neq {A} (l : list A) i j x :
  i <> j -> nth_error (set_nth l i x) j = nth_error l j.
Proof.
  revert i j; induction l as [|h t IH]; intros [|i] [|j] H; cbn; auto; try congruence.
Qed.

Lemma Forall_set_nth {A} (P : A -> Prop) l i x : Forall P l -> P x -> Forall P (set_nth l i x).
Proof.
  revert i; induction l as [|h t IH]; intros [|i] Hl Hx; cbn; auto;
    inversion Hl; subst; constructor; auto.
Qed.

Lemma Forall_nth_error {A} (P : A -> Prop) l i x : Forall P l -> nth_error l i = Some x -> P x.
Proof. intros H E. rewrite Forall_forall in H. apply H. eapply nth_error_In; eassumption. Qed.

Lemma nth_error_some_lt {A} (l : list A) i x : nth_error l i = Some x -> (i < length l)%nat.
Proof. intros H. apply nth_error_Some. congruence. Qed.

Lemma nth_error_app_last {A} (l : list A) x : nth_error (l ++ [x]) (length l) = Some x.
Proof. rewrite nth_error_app2 by lia. rewrite Nat.sub_diag. reflexivity. Qed.

(* ------------------------------------------------------------ configuration and chunks *)
Definition cfg_ok (c : cfg) : Prop := hdr_ok (hs c) (ha c) /\ 0 <= min_chunk c < W.

Definition chunk_geom (c : cfg) (ch : chunk) : Prop :=
  0 < cbase ch /\ (ha c | cbase ch) /\ (16 | csize ch) /\ (up c = false -> (ha c | csize ch)) /\
  hs c <= csize ch /\ creq ch <= csize ch /\ csize ch <= cgranted ch /\
  cbase ch + cgranted ch < W /\ cgranted ch <= IMAX.

Definition chunk_ok (c : cfg) (ch : chunk) : Prop :=
  chunk_geom c ch /\ content_start c ch <= cpos ch <= content_end c ch.

Section ChunkFacts.
  Variable c : cfg.
  Hypothesis Hc : cfg_ok c.

  Let Hha2 : pow2 (ha c). Proof. unfold cfg_ok, hdr_ok in Hc; tauto. Qed.
  Let Hha16 : 16 <= ha c. Proof. unfold cfg_ok, hdr_ok in Hc; tauto. Qed.
  Let Hhs : (ha c | hs c) /\ 32 <= hs c. Proof. unfold cfg_ok, hdr_ok in Hc; tauto. Qed.

  Lemma ha_div16 : (16 | ha c).
  Proof. apply pow2_divide; [apply pow2_16|assumption|assumption]. Qed.

  Lemma geom_bounds ch : chunk_geom c ch ->
    0 < content_start c ch /\ content_start c ch <= content_end c ch /\ content_end c ch < W /\
    content_end c ch - content_start c ch <= IMAX /\
    (16 | content_start c ch) /\ (16 | content_end c ch) /\
    cbase ch <= content_start c ch /\ content_end c ch <= cbase ch + csize ch.
  Proof.
    intros (Hb0 & Hbd & Hs16 & Hsha & Hhsle & Hreq & Hgr & Hlim & Hgi).
    destruct Hhs as [Hhsd Hhs32]. pose proof ha_div16 as H16.
    assert (Hb16 : (16 | cbase ch)) by (apply Z.divide_trans with (ha c); assumption).
    assert (Hh16 : (16 | hs c)) by (apply Z.divide_trans with (ha c); assumption).
    unfold content_start, content_end. destruct (up c) eqn:Eup.
    - repeat split; try lia; try (apply Z.divide_add_r; assumption).
    - specialize (Hsha eq_refl).
      repeat split; try lia; try assumption.
      apply Z.divide_sub_r; [apply Z.divide_add_r; assumption|assumption].
  Qed.

  Lemma fresh_pos_ok ch : chunk_geom c ch -> chunk_ok c (reset_chunk c ch) /\ (16 | fresh_pos c ch).
  Proof.
    intros Hg. pose proof (geom_bounds ch Hg) as (H0 & Hle & Hlim & Hlim2 & Hs16 & He16 & _).
    unfold reset_chunk, chunk_ok, set_pos, fresh_pos, chunk_geom in *.
    unfold content_start, content_end in *. cbn [cbase csize creq cgranted cpos].
    destruct (up c); (split; [split; [exact Hg|lia]|assumption]).
  Qed.

  Lemma set_pos_ok ch p : chunk_geom c ch -> content_start c ch <= p <= content_end c ch ->
    chunk_ok c (set_pos ch p).
  Proof.
    intros Hg Hp. unfold chunk_ok, set_pos, chunk_geom, content_start, content_end in *.
    cbn [cbase csize creq cgranted cpos]. split; [exact Hg|exact Hp].
  Qed.

  Lemma set_pos_geom ch p : chunk_geom c ch -> chunk_geom c (set_pos ch p).
  Proof. intros Hg. exact Hg. Qed.

  (* allocation inside one chunk *)
  Lemma chunk_alloc_sound m ch size align p ch' :
    chunk_ok c ch -> valid_min_align m -> (m | cpos ch) -> valid_layout size align ->
    chunk_alloc c m ch size align = Some (p, ch') ->
    exists np, ch' = set_pos ch np /\ (align | p) /\ (m | np) /\
      content_start c ch <= np <= content_end c ch /\
      (if up c then cpos ch <= p /\ p + size <= np
       else np = p /\ p + size <= cpos ch).
  Proof.
    intros [Hg Hpos] Hm Hmp Hl H.
    pose proof (geom_bounds ch Hg) as (H0 & Hle & Hlim & Hlim2 & Hs16 & He16 & _).
    pose proof W_val. pose proof IMAX_val. pose proof Hl as (_ & Hs0 & _).
    unfold chunk_alloc in H. destruct (up c) eqn:Eup.
    - destruct (spec_up (cpos ch) (content_end c ch) m size align) as [[q np]|] eqn:E; [|discriminate].
      injection H as <- <-.
      assert (Hreg : regular_up (cpos ch) (content_end c ch) m) by (unfold regular_up; repeat split; try lia; assumption).
      pose proof (spec_up_sound _ _ _ _ _ _ _ Hm Hl Hreg E) as (A1 & A2 & A3 & A4 & A5 & _).
      exists np. repeat split; try assumption; lia.
    - destruct (spec_down (content_start c ch) (cpos ch) m size align) as [q|] eqn:E; [|discriminate].
      injection H as <- <-.
      assert (Hreg : regular_down (content_start c ch) (cpos ch) m) by (unfold regular_down; repeat split; try lia; assumption).
      pose proof (spec_down_sound _ _ _ _ _ _ Hm Hl Hreg E) as (A1 & A2 & A3 & A4).
      exists q. repeat split; try assumption; lia.
  Qed.
End ChunkFacts.

(* ------------------------------------------------------------ the invariant *)
Definition chunks_disjoint (cs : list chunk) : Prop :=
  forall i j a b, i <> j -> nth_error cs i = Some a -> nth_error cs j = Some b ->
    cbase a + cgranted a <= cbase b \/ cbase b + cgranted b <= cbase a.

Definition same_geom (a b : chunk) : Prop :=
  cbase a = cbase b /\ csize a = csize b /\ creq a = creq b /\ cgranted a = cgranted b.

Definition ginv (c : cfg) (s : arena) : Prop :=
  Forall (chunk_ok c) (chunks s) /\ chunks_disjoint (chunks s) /\ valid_min_align (malign s) /\
  match cur s with
  | Cur i => exists ch, nth_error (chunks s) i = Some ch /\ (malign s | cpos ch)
  | Unalloc => chunks s = []
  | Claimed => False
  end.

Definition in_chunk (c : cfg) (ch : chunk) (p sz : Z) : Prop :=
  content_start c ch <= p /\ p + sz <= content_end c ch.
Definition alloc_side (c : cfg) (ch : chunk) (p sz : Z) : Prop :=
  0 < sz -> if up c then p + sz <= cpos ch else cpos ch <= p.

(* where a live block may be: in a chunk not after the current one, and in the current chunk
   only on the allocated side of the bump position *)
Definition placed (c : cfg) (s : arena) (p sz : Z) : Prop :=
  exists k ch, nth_error (chunks s) k = Some ch /\ in_chunk c ch p sz /\
    match cur s with
    | Cur i => (k <= i)%nat /\ (k = i -> alloc_side c ch p sz)
    | _ => False
    end.

Definition block_ok (c : cfg) (s : arena) (b : block) : Prop :=
  0 <= bsize b /\ (balign b | bptr b) /\ placed c s (bptr b) (bsize b).

Definition disjoint_rng (p1 s1 p2 s2 : Z) : Prop :=
  s1 <= 0 \/ s2 <= 0 \/ p1 + s1 <= p2 \/ p2 + s2 <= p1.
Definition disjoint2 (a b : block) : Prop := disjoint_rng (bptr a) (bsize a) (bptr b) (bsize b).

Definition ids_ok (s : arena) : Prop :=
  NoDup (map bid (live s)) /\ Forall (fun b => (bid b < nextid s)%nat) (live s).

Definition inv (c : cfg) (s : arena) : Prop :=
  ginv c s /\ Forall (block_ok c s) (live s) /\ ForallOrdPairs disjoint2 (live s) /\ ids_ok s.

(* what the base allocator must guarantee about its answer *)
Definition prev_size (s : arena) : option Z :=
  match rev (chunks s) with last :: _ => Some (csize last) | [] => None end.

Definition resp_ok (c : cfg) (s : arena) (size align : Z) (r : resp) : Prop :=
  match r with
  | None => True
  | Some (addr, g) =>
    0 < addr /\ (ha c | addr) /\ addr + g < W /\ g <= IMAX /\
    (forall n, new_chunk_size c (prev_size s) size align = Some n -> n <= g) /\
    (forall ch, In ch (chunks s) -> cbase ch + cgranted ch <= addr \/ addr + g <= cbase ch)
  end.

Lemma same_geom_refl a : same_geom a a.
Proof. repeat split. Qed.
Lemma same_geom_set_pos a p : same_geom a (set_pos a p).
Proof. repeat split. Qed.
Lemma same_geom_trans a b d : same_geom a b -> same_geom b d -> same_geom a d.
Proof. unfold same_geom. intuition congruence. Qed.

Lemma same_geom_content c a b : same_geom a b ->
  content_start c a = content_start c b /\ content_end c a = content_end c b.
Proof. intros (E1 & E2 & _). unfold content_start, content_end. rewrite E1, E2. split; reflexivity. Qed.

Lemma same_geom_chunk_geom c a b : same_geom a b -> chunk_geom c a -> chunk_geom c b.
Proof. intros (E1 & E2 & E3 & E4). unfold chunk_geom. rewrite E1, E2, E3, E4. tauto. Qed.

Lemma Forall2_same_geom_refl l : Forall2 same_geom l l.
Proof. induction l; constructor; auto using same_geom_refl. Qed.

Lemma Forall2_same_geom_trans l1 l2 l3 :
  Forall2 same_geom l1 l2 -> Forall2 same_geom l2 l3 -> Forall2 same_geom l1 l3.
Proof.
  intros H; revert l3; induction H as [|a b l l' Hab Hl IH]; intros l3 H3; inversion H3; subst;
    constructor; eauto using same_geom_trans.
Qed.

Lemma Forall2_set_nth {A} (R : A -> A -> Prop) l l' i x y :
  Forall2 R l l' -> nth_error l i = Some x -> R x y -> Forall2 R l (set_nth l' i y).
Proof.
  intros H; revert i; induction H as [|a b l l' Hab Hl IH]; intros [|i] Hn Hr; cbn in *; try discriminate.
  - injection Hn as ->. constructor; assumption.
  - constructor; [assumption|]. apply IH; assumption.
Qed.

Lemma Forall2_nth_error {A} (R : A -> A -> Prop) l l' i x :
  Forall2 R l l' -> nth_error l i = Some x -> exists y, nth_error l' i = Some y /\ R x y.
Proof.
  intros H; revert i; induction H as [|a b l l' Hab Hl IH]; intros [|i] Hn; cbn in *; try discriminate.
  - injection Hn as ->. eauto.
  - apply IH; assumption.
Qed.

Lemma Forall2_nth_error_r {A} (R : A -> A -> Prop) l l' i y :
  Forall2 R l l' -> nth_error l' i = Some y -> exists x, nth_error l i = Some x /\ R x y.
Proof.
  intros H; revert i; induction H as [|a b l l' Hab Hl IH]; intros [|i] Hn; cbn in *; try discriminate.
  - injection Hn as ->. eauto.
  - apply IH; assumption.
Qed.

Lemma Forall2_length {A} (R : A -> A -> Prop) l l' : Forall2 R l l' -> length l = length l'.
Proof. induction 1; cbn; congruence. Qed.

Lemma chunks_disjoint_same_geom cs cs' :
  Forall2 same_geom cs cs' -> chunks_disjoint cs -> chunks_disjoint cs'.
Proof.
  intros HF Hd i j a b Hij Ha Hb.
  destruct (Forall2_nth_error_r _ _ _ _ _ HF Ha) as (a0 & Ha0 & (E1 & _ & _ & E4)).
  destruct (Forall2_nth_error_r _ _ _ _ _ HF Hb) as (b0 & Hb0 & (F1 & _ & _ & F4)).
  specialize (Hd i j a0 b0 Hij Ha0 Hb0). rewrite <- E1, <- E4, <- F1, <- F4. exact Hd.
Qed.

(* ------------------------------------------------------------ walking to later chunks *)
Section Walk.
  Variable c : cfg.
  Hypothesis Hc : cfg_ok c.
  Variables (m size align : Z).
  Hypothesis Hm : valid_min_align m.
  Hypothesis Hl : valid_layout size align.

  Let f := fun ch => chunk_alloc c m ch size align.

  Lemma m_div16 : (m | 16).
  Proof. apply min_align_div16; assumption. Qed.

  (* the outcome of walk_next, as a relation between the chunk lists *)
  Lemma walk_next_spec fuel : forall cs i cs' j res,
    Forall (chunk_ok c) cs -> (i < length cs)%nat ->
    walk_next c f cs i fuel = (cs', j, res) ->
    Forall (chunk_ok c) cs' /\ Forall2 same_geom cs cs' /\ (i <= j < length cs)%nat /\
    (forall k, (k <= i)%nat -> nth_error cs' k = nth_error cs k) /\
    (forall k ch, (j < k)%nat -> nth_error cs' k = Some ch -> nth_error cs k = Some ch) /\
    ((i < j)%nat -> exists ch, nth_error cs' j = Some ch /\ (m | cpos ch)) /\
    (j = i -> res = None) /\
    (forall p, res = Some p ->
       exists ch, nth_error cs' j = Some ch /\ (align | p) /\ in_chunk c ch p size /\ alloc_side c ch p size).
  Proof.
    induction fuel as [|fuel IH]; intros cs i cs' j res Hok Hi H.
    - cbn in H. injection H as <- <- <-.
      repeat split; auto using Forall2_same_geom_refl; try lia; try discriminate.
    - cbn [walk_next] in H. destruct (nth_error cs (S i)) as [ch|] eqn:En.
      2:{ injection H as <- <- <-.
          repeat split; auto using Forall2_same_geom_refl; try lia; try discriminate. }
      pose proof (Forall_nth_error _ _ _ _ Hok En) as [Hg _].
      pose proof (nth_error_some_lt _ _ _ En) as Hlt.
      destruct (fresh_pos_ok c Hc ch Hg) as [Hrok Hr16].
      assert (Hrm : (m | cpos (reset_chunk c ch))).
      { eapply Z.divide_trans; [apply m_div16|exact Hr16]. }
      fold f in H. destruct (f (reset_chunk c ch)) as [[p ch1]|] eqn:Ef.
      + injection H as <- <- <-.
        destruct (chunk_alloc_sound c Hc m _ size align p ch1 Hrok Hm Hrm Hl Ef)
          as (np & -> & Hap & Hmnp & Hnp & Hside).
        assert (Hg1 : chunk_ok c (set_pos (reset_chunk c ch) np)).
        { exact (set_pos_ok c _ np (proj1 Hrok) Hnp). }
        split; [apply Forall_set_nth; assumption|]. split.
        { eapply Forall2_set_nth; [apply Forall2_same_geom_refl|exact En|].
          eapply same_geom_trans; [apply (same_geom_set_pos ch)|apply same_geom_set_pos]. }
        split; [lia|]. split.
        { intros k Hk. apply nth_error_set_nth_neq. lia. }
        split.
        { intros k ch0 Hk E. rewrite nth_error_set_nth_neq in E by lia. exact E. }
        split.
        { intros _. eexists; split; [apply nth_error_set_nth_eq; lia|exact Hmnp]. }
        split; [lia|].
        intros p0 E0. injection E0 as <-.
        eexists; split; [apply nth_error_set_nth_eq; lia|]. split; [exact Hap|].
        pose proof (geom_bounds c Hc _ (proj1 Hrok)) as (_ & Hle & _).
        unfold in_chunk, alloc_side. cbn [set_pos cpos content_start content_end cbase csize].
        change (content_start c (set_pos (reset_chunk c ch) np)) with (content_start c (reset_chunk c ch)).
        change (content_end c (set_pos (reset_chunk c ch) np)) with (content_end c (reset_chunk c ch)).
        pose proof (proj2 Hrok) as Hrp. destruct Hl as (_ & Hs0 & _).
        destruct (up c); [destruct Hside as [S1 S2]|destruct Hside as [S1 S2]]; repeat split; try lia.
      + assert (Hok2 : Forall (chunk_ok c) (set_nth cs (S i) (reset_chunk c ch)))
          by (apply Forall_set_nth; assumption).
        assert (Hi2 : (S i < length (set_nth cs (S i) (reset_chunk c ch)))%nat)
          by (rewrite set_nth_length; lia).
        destruct (IH _ _ _ _ _ Hok2 Hi2 H) as (A1 & A2 & A3 & A4 & A5 & A6 & A7 & A8).
        rewrite set_nth_length in A3.
        split; [exact A1|]. split.
        { (* geometry: cs ~ set_nth cs .. ~ cs' *)
          assert (HF : Forall2 same_geom cs (set_nth cs (S i) (reset_chunk c ch))).
          { eapply Forall2_set_nth; [apply Forall2_same_geom_refl|exact En|apply same_geom_set_pos]. }
          eapply Forall2_same_geom_trans; eassumption. }
        split; [lia|]. split.
        { intros k Hk. rewrite A4 by lia. apply nth_error_set_nth_neq. lia. }
        split.
        { intros k ch0 Hk E. specialize (A5 k ch0 Hk E). rewrite nth_error_set_nth_neq in A5 by lia. exact A5. }
        split.
        { intros _. destruct (Nat.eq_dec j (S i)) as [->|Hne].
          - rewrite A4 by lia. rewrite nth_error_set_nth_eq by lia. eexists; split; [reflexivity|exact Hrm].
          - apply A6. lia. }
        split; [lia|]. exact A8.
  Qed.
End Walk.

(* ------------------------------------------------------------ creating a chunk *)
Definition frame (s s' : arena) : Prop :=
  live s' = live s /\ mem s' = mem s /\ depth s' = depth s /\ aligns s' = aligns s /\
  epoch s' = epoch s /\ nextid s' = nextid s.

Lemma frame_refl s : frame s s.
Proof. repeat split. Qed.
Lemma frame_trans a b d : frame a b -> frame b d -> frame a d.
Proof. unfold frame. intuition congruence. Qed.

Lemma new_chunk_size_facts c prev size align n :
  cfg_ok c -> new_chunk_size c prev size align = Some n ->
  (16 | n) /\ (up c = false -> (ha c | n)) /\ hs c <= n /\ 0 < n.
Proof.
  intros [Hh _] H. unfold new_chunk_size in H.
  destruct (W <=? spec_hint (up c) (hs c) (ha c) size align); [discriminate|].
  destruct (W <=? match prev with Some ps => 2 * ps | None => 0 end); [discriminate|].
  match type of H with context [spec_size0 _ _ ?h] => set (hint := h) in * end.
  destruct (W <=? spec_size0 (hs c) (ha c) hint); [discriminate|].
  destruct (IMAX - (ha c - 1) <? spec_size_from_hint (up c) (hs c) (ha c) hint); [discriminate|].
  injection H as <-.
  pose proof (size_from_hint_facts (up c) (hs c) (ha c) Hh hint) as (A1 & A2 & _ & A4 & _).
  destruct Hh as (_ & _ & _ & _ & H32 & _). repeat split; try assumption; lia.
Qed.

Lemma make_chunk_ok c n addr g :
  cfg_ok c -> (16 | n) -> (up c = false -> (ha c | n)) -> hs c <= n -> n <= g ->
  0 < addr -> (ha c | addr) -> addr + g < W -> g <= IMAX ->
  let ch := make_chunk c n addr g in
  chunk_ok c ch /\ (16 | cpos ch) /\ cbase ch = addr /\ cgranted ch = g.
Proof.
  intros Hc H16 Hha Hhs Hng Ha0 Had HaW Hgi. cbv zeta.
  pose proof (align_size_between (up c) (hs c) (ha c) (proj1 Hc) n g H16 Hha Hng) as (B1 & B2 & B3 & B4).
  unfold make_chunk.
  set (ch0 := mkChunk addr (spec_align_size (up c) (ha c) g) n g 0).
  assert (Hg : chunk_geom c ch0).
  { unfold chunk_geom, ch0. cbn [cbase csize creq cgranted]. repeat split; try assumption; lia. }
  destruct (fresh_pos_ok c Hc ch0 Hg) as [Hok H16p].
  unfold reset_chunk in Hok. split; [exact Hok|]. split; [exact H16p|]. split; reflexivity.
Qed.

Lemma grow_arena_spec c s size align r s1 e :
  cfg_ok c -> resp_ok c s size align r ->
  grow_arena c s size align r = (s1, e) ->
  frame s s1 /\
  match e with
  | Some _ => chunks s1 = chunks s /\ cur s1 = cur s
  | None => exists ch addr g, r = Some (addr, g) /\ chunks s1 = chunks s ++ [ch] /\
            cur s1 = Cur (length (chunks s)) /\ chunk_ok c ch /\ (16 | cpos ch) /\
            cbase ch = addr /\ cgranted ch = g
  end.
Proof.
  intros Hc Hr H. unfold grow_arena in H. fold (prev_size s) in H.
  destruct (new_chunk_size c (prev_size s) size align) as [n|] eqn:En.
  2:{ injection H as <- <-. split; [apply frame_refl|split; reflexivity]. }
  destruct (new_chunk_size_facts _ _ _ _ _ Hc En) as (N1 & N2 & N3 & N4).
  destruct r as [[addr g]|].
  - injection H as <- <-. split; [repeat split|].
    destruct Hr as (R1 & R2 & R3 & R4 & R5 & R6). specialize (R5 n En).
    destruct (make_chunk_ok c n addr g Hc N1 N2 N3 R5 R1 R2 R3 R4) as (M1 & M2 & M3 & M4).
    exists (make_chunk c n addr g), addr, g. cbn [chunks cur upd_cur upd_chunks log_event].
    split; [reflexivity|]. split; [reflexivity|]. split; [reflexivity|]. tauto.
  - injection H as <- <-. split; [repeat split|split; reflexivity].
Qed.

Lemma chunk_range_in_granted c ch p sz :
  cfg_ok c -> chunk_geom c ch -> in_chunk c ch p sz -> 0 <= sz ->
  cbase ch <= p /\ p + sz <= cbase ch + cgranted ch.
Proof.
  intros Hc Hg [H1 H2] Hs. pose proof (geom_bounds c Hc ch Hg) as (_ & _ & _ & _ & _ & _ & B1 & B2).
  destruct Hg as (_ & _ & _ & _ & _ & _ & G & _). lia.
Qed.

(* ------------------------------------------------------------ the allocation paths *)
Lemma Forall2_rev_same_geom l l' : Forall2 same_geom l l' -> Forall2 same_geom (rev l) (rev l').
Proof.
  induction 1 as [|a b l l' Hab Hl IH]; cbn; [constructor|].
  apply Forall2_app; [assumption|constructor; [assumption|constructor]].
Qed.

Lemma prev_size_same_geom s s' :
  Forall2 same_geom (chunks s) (chunks s') -> prev_size s' = prev_size s.
Proof.
  intros H. apply Forall2_rev_same_geom in H. unfold prev_size.
  destruct H as [|a b l l' (_ & E & _) _]; [reflexivity|]. rewrite E. reflexivity.
Qed.

Lemma resp_ok_same_geom c s s' size align r :
  Forall2 same_geom (chunks s) (chunks s') -> resp_ok c s size align r -> resp_ok c s' size align r.
Proof.
  intros HF Hr. destruct r as [[addr g]|]; [|exact I].
  destruct Hr as (R1 & R2 & R3 & R4 & R5 & R6). repeat split; try assumption.
  - intros n. rewrite (prev_size_same_geom _ _ HF). apply R5.
  - intros ch Hin. apply In_nth_error in Hin. destruct Hin as [k Hk].
    destruct (Forall2_nth_error_r _ _ _ _ _ HF Hk) as (ch0 & Hk0 & (E1 & _ & _ & E4)).
    rewrite <- E1, <- E4. apply R6. eapply nth_error_In; eassumption.
Qed.

Definition alloc_result_ok (c : cfg) (s s' : arena) (size align : Z) (res : Z + err) : Prop :=
  frame s s' /\ ginv c s' /\
  (forall q sz, 0 <= sz -> placed c s q sz -> placed c s' q sz) /\
  match res with
  | inl p => (align | p) /\ placed c s' p size /\
             (forall q sz, 0 <= sz -> placed c s q sz -> disjoint_rng q sz p size)
  | inr _ => True
  end.

Lemma chunks_disjoint_app c cs ch :
  cfg_ok c -> chunks_disjoint cs ->
  (forall ch0, In ch0 cs -> cbase ch0 + cgranted ch0 <= cbase ch \/ cbase ch + cgranted ch <= cbase ch0) ->
  chunks_disjoint (cs ++ [ch]).
Proof.
  intros Hc Hd Hnew i j a b Hij Ha Hb.
  destruct (Nat.lt_ge_cases i (length cs)) as [Hi|Hi]; destruct (Nat.lt_ge_cases j (length cs)) as [Hj|Hj].
  - rewrite nth_error_app1 in Ha, Hb by assumption. eapply Hd; eassumption.
  - rewrite nth_error_app1 in Ha by assumption. rewrite nth_error_app2 in Hb by assumption.
    destruct (j - length cs)%nat as [|x] eqn:E; cbn in Hb; [|destruct x; discriminate].
    injection Hb as <-. apply Hnew. eapply nth_error_In; eassumption.
  - rewrite nth_error_app1 in Hb by assumption. rewrite nth_error_app2 in Ha by assumption.
    destruct (i - length cs)%nat as [|x] eqn:E; cbn in Ha; [|destruct x; discriminate].
    injection Ha as <-. specialize (Hnew b ltac:(eapply nth_error_In; eassumption)). lia.
  - rewrite nth_error_app2 in Ha, Hb by assumption.
    destruct (i - length cs)%nat as [|x] eqn:E; cbn in Ha; [|destruct x; discriminate].
    destruct (j - length cs)%nat as [|y] eqn:F; cbn in Hb; [|destruct y; discriminate]. lia.
Qed.

(* ranges inside the content of two different chunks do not meet *)
Lemma placed_other_chunk_disjoint c cs i j a b p1 s1 p2 s2 :
  cfg_ok c -> Forall (chunk_ok c) cs -> chunks_disjoint cs -> i <> j ->
  nth_error cs i = Some a -> nth_error cs j = Some b ->
  in_chunk c a p1 s1 -> in_chunk c b p2 s2 -> 0 <= s1 -> 0 <= s2 ->
  disjoint_rng p1 s1 p2 s2.
Proof.
  intros Hc Hok Hd Hij Ha Hb I1 I2 Z1 Z2.
  pose proof (Forall_nth_error _ _ _ _ Hok Ha) as [Ga _].
  pose proof (Forall_nth_error _ _ _ _ Hok Hb) as [Gb _].
  pose proof (chunk_range_in_granted c a p1 s1 Hc Ga I1 Z1).
  pose proof (chunk_range_in_granted c b p2 s2 Hc Gb I2 Z2).
  specialize (Hd i j a b Hij Ha Hb). unfold disjoint_rng. lia.
Qed.

(* geometric core: one successful allocation inside a chunk *)
Lemma chunk_alloc_geom c m ch size align p ch1 :
  cfg_ok c -> chunk_ok c ch -> valid_min_align m -> (m | cpos ch) -> valid_layout size align ->
  chunk_alloc c m ch size align = Some (p, ch1) ->
  chunk_ok c ch1 /\ same_geom ch ch1 /\ (m | cpos ch1) /\ (align | p) /\
  in_chunk c ch1 p size /\ alloc_side c ch1 p size /\
  (forall q sz, 0 <= sz -> in_chunk c ch q sz -> alloc_side c ch q sz ->
     alloc_side c ch1 q sz /\ disjoint_rng q sz p size).
Proof.
  intros Hc Hok Hm Hmp Hl H.
  destruct (chunk_alloc_sound c Hc m ch size align p ch1 Hok Hm Hmp Hl H) as (np & -> & Hap & Hmnp & Hnp & Hside).
  pose proof Hok as [Hg Hpos]. destruct Hl as (_ & Hs0 & _).
  split; [exact (set_pos_ok c ch np Hg Hnp)|]. split; [apply same_geom_set_pos|].
  split; [exact Hmnp|]. split; [exact Hap|].
  unfold in_chunk, alloc_side, disjoint_rng.
  change (content_start c (set_pos ch np)) with (content_start c ch).
  change (content_end c (set_pos ch np)) with (content_end c ch).
  cbn [set_pos cpos].
  destruct (up c); destruct Hside as [S1 S2].
  - split; [lia|]. split; [lia|]. intros q sz Hsz [I1 I2] Ha. split; [intros Hp; specialize (Ha Hp); lia|].
    destruct (Z_le_gt_dec sz 0); [lia|]. specialize (Ha ltac:(lia)). lia.
  - subst np. split; [lia|]. split; [lia|]. intros q sz Hsz [I1 I2] Ha. split; [intros Hp; specialize (Ha Hp); lia|].
    destruct (Z_le_gt_dec sz 0); [lia|]. specialize (Ha ltac:(lia)). lia.
Qed.

Lemma raw_alloc_fast c s size align i ch p ch1 :
  cfg_ok c -> ginv c s -> valid_layout size align ->
  cur s = Cur i -> nth_error (chunks s) i = Some ch ->
  chunk_alloc c (malign s) ch size align = Some (p, ch1) ->
  alloc_result_ok c s (upd_chunks s (set_nth (chunks s) i ch1)) size align (inl p).
Proof.
  intros Hc (Hok & Hd & Hm & Hcur) Hl Ec En Ef. rewrite Ec in Hcur.
  destruct Hcur as (ch' & En' & Hmp). rewrite En in En'. injection En' as <-.
  pose proof (Forall_nth_error _ _ _ _ Hok En) as Hchok.
  pose proof (nth_error_some_lt _ _ _ En) as Hlt.
  destruct (chunk_alloc_geom c _ ch size align p ch1 Hc Hchok Hm Hmp Hl Ef)
    as (G1 & G2 & G3 & G4 & G5 & G6 & G7).
  assert (HF : Forall2 same_geom (chunks s) (set_nth (chunks s) i ch1)).
  { eapply Forall2_set_nth; [apply Forall2_same_geom_refl|exact En|exact G2]. }
  split; [repeat split|]. split.
  { (* ginv *)
    unfold ginv. cbn [chunks cur upd_chunks malign aligns]. split; [apply Forall_set_nth; assumption|].
    split; [eapply chunks_disjoint_same_geom; eassumption|]. split; [exact Hm|].
    rewrite Ec. exists ch1. split; [apply nth_error_set_nth_eq; assumption|exact G3]. }
  assert (Hpl : forall q sz, 0 <= sz -> placed c s q sz ->
            placed c (upd_chunks s (set_nth (chunks s) i ch1)) q sz /\ disjoint_rng q sz p size).
  { intros q sz Hsz (k & chk & Hk & Hin & Hside). rewrite Ec in Hside. destruct Hside as [Hki Hks].
    destruct (Nat.eq_dec k i) as [->|Hne].
    - rewrite En in Hk. injection Hk as <-. destruct (G7 q sz Hsz Hin (Hks eq_refl)) as [S1 S2].
      split; [|exact S2]. exists i, ch1. cbn [chunks cur upd_chunks]. rewrite Ec.
      split; [apply nth_error_set_nth_eq; assumption|]. split.
      + destruct (same_geom_content c _ _ G2) as [E1 E2]. unfold in_chunk in *. rewrite <- E1, <- E2. exact Hin.
      + split; [lia|intros _; exact S1].
    - split.
      + exists k, chk. cbn [chunks cur upd_chunks]. rewrite Ec.
        split; [rewrite nth_error_set_nth_neq by congruence; exact Hk|]. split; [exact Hin|].
        split; [exact Hki|intros E; congruence].
      + destruct Hl as (_ & Hs0 & _).
        assert (Hin1 : in_chunk c ch p size).
        { destruct (same_geom_content c _ _ G2) as [E1 E2]. unfold in_chunk in *. rewrite E1, E2. exact G5. }
        eapply (placed_other_chunk_disjoint c (chunks s) k i); eassumption. }
  split; [intros q sz Hsz Hq; apply (Hpl q sz Hsz Hq)|].
  split; [exact G4|]. split.
  - exists i, ch1. cbn [chunks cur upd_chunks]. rewrite Ec.
    split; [apply nth_error_set_nth_eq; assumption|]. split; [exact G5|]. split; [lia|intros _; exact G6].
  - intros q sz Hsz Hq; apply (Hpl q sz Hsz Hq).
Qed.

(* allocation in a chunk that holds no live range yet (a later chunk or a new one) *)
Lemma alloc_on_fresh c s s1 k ch size align s' res :
  cfg_ok c -> valid_layout size align -> frame s s1 ->
  Forall (chunk_ok c) (chunks s1) -> chunks_disjoint (chunks s1) -> valid_min_align (malign s1) ->
  cur s1 = Cur k -> nth_error (chunks s1) k = Some ch -> (malign s1 | cpos ch) ->
  (forall q sz, 0 <= sz -> placed c s q sz ->
     exists k0 chk, (k0 < k)%nat /\ nth_error (chunks s1) k0 = Some chk /\ in_chunk c chk q sz) ->
  match chunk_alloc c (malign s1) ch size align with
  | Some (p, ch1) => (upd_chunks s1 (set_nth (chunks s1) k ch1), inl p)
  | None => (s1, inr ErrOverflow)
  end = (s', res) ->
  alloc_result_ok c s s' size align res.
Proof.
  intros Hc Hl Hfr Hok Hd Hm Ec En Hmp Hold H.
  pose proof (Forall_nth_error _ _ _ _ Hok En) as Hchok.
  pose proof (nth_error_some_lt _ _ _ En) as Hlt.
  destruct (chunk_alloc c (malign s1) ch size align) as [[p ch1]|] eqn:Ef.
  - injection H as <- <-.
    destruct (chunk_alloc_geom c _ ch size align p ch1 Hc Hchok Hm Hmp Hl Ef)
      as (G1 & G2 & G3 & G4 & G5 & G6 & G7).
    assert (HF : Forall2 same_geom (chunks s1) (set_nth (chunks s1) k ch1)).
    { eapply Forall2_set_nth; [apply Forall2_same_geom_refl|exact En|exact G2]. }
    split; [exact Hfr|]. split.
    { unfold ginv. cbn [chunks cur upd_chunks malign aligns]. split; [apply Forall_set_nth; assumption|].
      split; [eapply chunks_disjoint_same_geom; eassumption|]. split; [exact Hm|].
      rewrite Ec. exists ch1. split; [apply nth_error_set_nth_eq; assumption|exact G3]. }
    assert (Hin1 : in_chunk c ch p size).
    { destruct (same_geom_content c _ _ G2) as [E1 E2]. unfold in_chunk in *. rewrite E1, E2. exact G5. }
    split.
    { intros q sz Hsz Hq. destruct (Hold q sz Hsz Hq) as (k0 & chk & Hk0 & Hnk & Hin).
      exists k0, chk. cbn [chunks cur upd_chunks]. rewrite Ec.
      split; [rewrite nth_error_set_nth_neq by lia; exact Hnk|]. split; [exact Hin|]. split; lia. }
    split; [exact G4|]. split.
    { exists k, ch1. cbn [chunks cur upd_chunks]. rewrite Ec.
      split; [apply nth_error_set_nth_eq; assumption|]. split; [exact G5|]. split; [lia|intros _; exact G6]. }
    intros q sz Hsz Hq. destruct (Hold q sz Hsz Hq) as (k0 & chk & Hk0 & Hnk & Hin).
    destruct Hl as (_ & Hs0 & _).
    eapply (placed_other_chunk_disjoint c (chunks s1) k0 k); try eassumption. lia.
  - injection H as <- <-. split; [exact Hfr|]. split.
    { unfold ginv. split; [assumption|]. split; [assumption|]. split; [assumption|].
      rewrite Ec. exists ch. split; assumption. }
    split; [|exact I].
    intros q sz Hsz Hq. destruct (Hold q sz Hsz Hq) as (k0 & chk & Hk0 & Hnk & Hin).
    exists k0, chk. rewrite Ec. split; [exact Hnk|]. split; [exact Hin|]. split; lia.
Qed.

Lemma in_another_chunk_post c s size align r s' res :
  cfg_ok c -> ginv c s -> valid_layout size align -> resp_ok c s size align r ->
  in_another_chunk c s (cur s) size align (fun ch => chunk_alloc c (malign s) ch size align) r = (s', res) ->
  alloc_result_ok c s s' size align res.
Proof.
  intros Hc Hg Hl Hr H. pose proof Hg as (Hok & Hd & Hm & Hcur).
  unfold in_another_chunk in H. destruct (cur s) as [i| |] eqn:Ec; [| |contradiction].
  - (* a chunk is current: walk the later chunks, then append *)
    destruct Hcur as (chi & Eni & Hmpi).
    pose proof (nth_error_some_lt _ _ _ Eni) as Hilt.
    destruct (walk_next c (fun ch => chunk_alloc c (malign s) ch size align) (chunks s) i (length (chunks s)))
      as [[cs j] wres] eqn:Ew.
    destruct (walk_next_spec c Hc (malign s) size align Hm Hl _ _ _ _ _ _ Hok Hilt Ew)
      as (W1 & W2 & W3 & W4 & W5 & W6 & W7 & W8).
    pose proof (Forall2_length _ _ _ W2) as Hlen.
    (* where the old ranges are, in terms of the walked chunk list *)
    assert (Hold : forall q sz, 0 <= sz -> placed c s q sz ->
              exists k0 chk, (k0 <= i)%nat /\ nth_error cs k0 = Some chk /\ in_chunk c chk q sz /\
                             (k0 = i -> alloc_side c chk q sz)).
    { intros q sz Hsz (k0 & chk & Hk0 & Hin & Hside). rewrite Ec in Hside. destruct Hside as [Hle Hs].
      exists k0, chk. split; [exact Hle|]. split; [rewrite W4 by exact Hle; exact Hk0|]. split; assumption. }
    assert (Hcurj : exists chj, nth_error cs j = Some chj /\ (malign s | cpos chj)).
    { destruct (Nat.eq_dec j i) as [->|Hne].
      - exists chi. split; [rewrite W4 by lia; exact Eni|exact Hmpi].
      - apply W6. lia. }
    assert (Hg0 : ginv c (upd_cur (upd_chunks s cs) (Cur j))).
    { unfold ginv. cbn [chunks cur upd_cur upd_chunks malign aligns].
      split; [exact W1|]. split; [eapply chunks_disjoint_same_geom; eassumption|]. split; [exact Hm|exact Hcurj]. }
    assert (Hpl0 : forall q sz, 0 <= sz -> placed c s q sz -> placed c (upd_cur (upd_chunks s cs) (Cur j)) q sz).
    { intros q sz Hsz Hq. destruct (Hold q sz Hsz Hq) as (k0 & chk & Hle & Hk0 & Hin & Hs).
      exists k0, chk. cbn [chunks cur upd_cur upd_chunks]. split; [exact Hk0|]. split; [exact Hin|].
      split; [lia|]. intros ->. apply Hs. lia. }
    destruct wres as [p|].
    + injection H as <- <-.
      destruct (W8 p eq_refl) as (chj & Ej & Hap & Hin & Hside).
      assert (Hij : (i < j)%nat) by (destruct (Nat.eq_dec j i) as [E|]; [specialize (W7 E); discriminate|lia]).
      split; [repeat split|]. split; [exact Hg0|]. split; [exact Hpl0|].
      split; [exact Hap|]. split.
      * exists j, chj. cbn [chunks cur upd_cur upd_chunks]. split; [exact Ej|]. split; [exact Hin|].
        split; [lia|intros _; exact Hside].
      * intros q sz Hsz Hq. destruct (Hold q sz Hsz Hq) as (k0 & chk & Hle & Hk0 & Hinq & _).
        destruct Hl as (_ & Hs0 & _).
        eapply (placed_other_chunk_disjoint c cs k0 j); try eassumption.
        -- eapply chunks_disjoint_same_geom; eassumption.
        -- lia.
    + set (s0 := upd_cur (upd_chunks s cs) (Cur j)) in *.
      assert (Hr0 : resp_ok c s0 size align r).
      { eapply resp_ok_same_geom; [|exact Hr]. exact W2. }
      destruct (grow_arena c s0 size align r) as [s1 [e|]] eqn:Eg.
      * injection H as <- <-.
        destruct (grow_arena_spec c s0 size align r s1 (Some e) Hc Hr0 Eg) as (Hfr & Ech & Ecu).
        split; [eapply frame_trans; [|exact Hfr]; repeat split|].
        assert (Hal : malign s1 = malign s) by (unfold malign; destruct Hfr as (_ & _ & _ & -> & _); reflexivity).
        split.
        { unfold ginv. rewrite Ech, Ecu, Hal. exact Hg0. }
        split; [|exact I].
        intros q sz Hsz Hq. specialize (Hpl0 q sz Hsz Hq). unfold placed in *. rewrite Ech, Ecu. exact Hpl0.
      * destruct (grow_arena_spec c s0 size align r s1 None Hc Hr0 Eg)
          as (Hfr & ch & addr & g & -> & Ech & Ecu & Hchok & Hc16 & Ecb & Ecg).
        cbn [chunks upd_cur upd_chunks s0] in Ech, Ecu.
        assert (Hal : malign s1 = malign s) by (unfold malign; destruct Hfr as (_ & _ & _ & -> & _); reflexivity).
        rewrite Ecu in H. rewrite Ech in H at 1. rewrite nth_error_app_last in H.
        rewrite <- Hal in H.
        assert (F1 : frame s s1) by (eapply frame_trans; [|exact Hfr]; repeat split).
        assert (F2 : Forall (chunk_ok c) (chunks s1)).
        { rewrite Ech. apply Forall_app. split; [exact W1|constructor; [exact Hchok|constructor]]. }
        assert (F3 : chunks_disjoint (chunks s1)).
        { rewrite Ech. apply (chunks_disjoint_app c); [exact Hc|eapply chunks_disjoint_same_geom; eassumption|].
          intros ch0 Hin0. destruct Hr0 as (_ & _ & _ & _ & _ & R6).
          specialize (R6 ch0 Hin0). rewrite Ecb, Ecg. lia. }
        assert (F4 : valid_min_align (malign s1)) by (rewrite Hal; exact Hm).
        assert (F5 : nth_error (chunks s1) (length cs) = Some ch) by (rewrite Ech; apply nth_error_app_last).
        assert (F6 : (malign s1 | cpos ch)).
        { rewrite Hal. eapply Z.divide_trans; [apply min_align_div16; exact Hm|exact Hc16]. }
        assert (F7 : forall q sz, 0 <= sz -> placed c s q sz ->
                  exists k0 chk, (k0 < length cs)%nat /\ nth_error (chunks s1) k0 = Some chk /\ in_chunk c chk q sz).
        { intros q sz Hsz Hq. destruct (Hold q sz Hsz Hq) as (k0 & chk & Hle & Hk0 & Hinq & _).
          exists k0, chk. split; [lia|]. split; [rewrite Ech; rewrite nth_error_app1 by lia; exact Hk0|exact Hinq]. }
        exact (alloc_on_fresh c s s1 (length cs) ch size align s' res Hc Hl F1 F2 F3 F4 Ecu F5 F6 F7 H).
  - (* unallocated: create the first chunk *)
    assert (Hno : forall q sz, ~ placed c s q sz).
    { intros q sz (k0 & chk & _ & _ & Hside). rewrite Ec in Hside. exact Hside. }
    destruct (grow_arena c s size align r) as [s1 [e|]] eqn:Eg.
    + injection H as <- <-.
      destruct (grow_arena_spec c s size align r s1 (Some e) Hc Hr Eg) as (Hfr & Ech & Ecu).
      assert (Hal : malign s1 = malign s) by (unfold malign; destruct Hfr as (_ & _ & _ & -> & _); reflexivity).
      split; [exact Hfr|]. split.
      { unfold ginv. rewrite Ech, Ecu, Hal, Ec. split; [exact Hok|]. split; [exact Hd|]. split; [exact Hm|exact Hcur]. }
      split; [|exact I]. intros q sz _ Hq. exfalso. exact (Hno q sz Hq).
    + destruct (grow_arena_spec c s size align r s1 None Hc Hr Eg)
        as (Hfr & ch & addr & g & -> & Ech & Ecu & Hchok & Hc16 & Ecb & Ecg).
      assert (Hal : malign s1 = malign s) by (unfold malign; destruct Hfr as (_ & _ & _ & -> & _); reflexivity).
      rewrite Hcur in Ech, Ecu. cbn [app length] in Ech, Ecu.
      rewrite Ecu in H. rewrite Ech in H at 1. cbn [nth_error] in H. rewrite <- Hal in H.
      assert (F2 : Forall (chunk_ok c) (chunks s1)) by (rewrite Ech; constructor; [exact Hchok|constructor]).
      assert (F3 : chunks_disjoint (chunks s1)).
      { rewrite Ech. intros i j a b Hij Ha Hb. destruct i as [|[|i]], j as [|[|j]]; cbn in Ha, Hb; try discriminate; congruence. }
      assert (F4 : valid_min_align (malign s1)) by (rewrite Hal; exact Hm).
      assert (F5 : nth_error (chunks s1) 0%nat = Some ch) by (rewrite Ech; reflexivity).
      assert (F6 : (malign s1 | cpos ch)).
      { rewrite Hal. eapply Z.divide_trans; [apply min_align_div16; exact Hm|exact Hc16]. }
      assert (F7 : forall q sz, 0 <= sz -> placed c s q sz ->
                exists k0 chk, (k0 < 0)%nat /\ nth_error (chunks s1) k0 = Some chk /\ in_chunk c chk q sz).
      { intros q sz _ Hq. exfalso. exact (Hno q sz Hq). }
      exact (alloc_on_fresh c s s1 0%nat ch size align s' res Hc Hl Hfr F2 F3 F4 Ecu F5 F6 F7 H).
Qed.

Theorem raw_alloc_post c s size align r s' res :
  cfg_ok c -> ginv c s -> valid_layout size align -> resp_ok c s size align r ->
  raw_alloc c s size align r = (s', res) ->
  alloc_result_ok c s s' size align res.
Proof.
  intros Hc Hg Hl Hr H. unfold raw_alloc in H.
  destruct (cur s) as [i| |] eqn:Ec.
  - destruct (nth_error (chunks s) i) as [ch|] eqn:En.
    + destruct (chunk_alloc c (malign s) ch size align) as [[p ch1]|] eqn:Ef.
      * injection H as <- <-. eapply raw_alloc_fast; eassumption.
      * rewrite <- Ec in H. eapply in_another_chunk_post; eassumption.
    + exfalso. destruct Hg as (_ & _ & _ & Hcur). rewrite Ec in Hcur. destruct Hcur as (ch & E & _). congruence.
  - rewrite <- Ec in H. eapply in_another_chunk_post; eassumption.
  - rewrite <- Ec in H. eapply in_another_chunk_post; eassumption.
Qed.

Theorem raw_alloc_slow_post c s size align r s' res :
  cfg_ok c -> ginv c s -> valid_layout size align -> resp_ok c s size align r ->
  raw_alloc_slow c s size align r = (s', res) ->
  alloc_result_ok c s s' size align res.
Proof. intros Hc Hg Hl Hr H. unfold raw_alloc_slow in H. eapply in_another_chunk_post; eassumption. Qed.
